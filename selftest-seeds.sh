#!/bin/bash
# Alarm self-test: every registered quick check on the unchanged tree under several VERIF_SEED
# values must exit 0 (a check that alarms on the unchanged tree counts as broken).
DIR=$(dirname "$(readlink -f "$0")")
SEEDS=${SEEDS:-"1 2 3"}
PROPS=${PROPS:-"C01 C02 C03 C04 C05 C06 C07 C08 C09 C10 C11 C12 C13 C14 C15 C16 C17 C18 C19 C20"}
# (unless HQSIM_BIN names a binary to test, the binary is rebuilt from /repo's working tree first: the last build may have been made
# against a tree with a seeded change applied)
if [ -z "${HQSIM_BIN:-}" ]; then
(cd "$DIR/hqsim" && CARGO_NET_OFFLINE=true CARGO_TARGET_DIR="$DIR/target" cargo build --profile sim --offline >"$DIR/.build.log" 2>&1) || { echo "build failed (see $DIR/.build.log)"; exit 2; }
fi
OUT=$(mktemp -d /tmp/hqsim-seedtest.XXXXXX)
cp "$DIR/known_findings.txt" "$OUT/"
# private copy of the binary: checks of seeded changes rebuild $DIR/target/sim/hqsim in place
cp "${HQSIM_BIN:-$DIR/target/sim/hqsim}" "$OUT/hqsim"
fail=0
for s in $SEEDS; do
  for p in $PROPS; do
    VERIF_SEED=$s "$OUT/hqsim" check --property "$p" --tier quick --verif-dir "$OUT" > "$OUT/$p-$s.log" 2>&1
    code=$?
    if [ $code -ne 0 ]; then
      echo "seed $s $p exit=$code: $(grep '^VIOLATION\|HARNESS' "$OUT/$p-$s.log" | head -2 | tr '\n' ' ')"
      mkdir -p "$DIR/replays"; cp "$OUT"/replays/* "$DIR/replays/" 2>/dev/null
      fail=1
    else
      echo "seed $s $p ok"
    fi
  done
done
rm -rf "$OUT"
exit $fail
