#!/bin/bash
# Determinism self-test: the same VERIF_SEED must give the same per-run observation logs
# independently of the process / thread layout. For every engine one property is executed twice
# with different numbers of jobs (and once more in a second process with the same number) and the
# digests over all per-run log hashes are compared. Exit 0 iff all digests agree.
DIR=$(dirname "$(readlink -f "$0")")
RUNS=${RUNS:-3000}
PROPS=${PROPS:-"C01 C08 C10 C12 C15 C17 C18 C19 C20 C16 C04"}
# (unless HQSIM_BIN names a binary to test, the binary is rebuilt from /repo's working tree first: the last build may have been made
# against a tree with a seeded change applied)
if [ -z "${HQSIM_BIN:-}" ]; then
(cd "$DIR/hqsim" && CARGO_NET_OFFLINE=true CARGO_TARGET_DIR="$DIR/target" cargo build --profile sim --offline >"$DIR/.build.log" 2>&1) || { echo "build failed (see $DIR/.build.log)"; exit 2; }
fi
OUT=$(mktemp -d /tmp/hqsim-selftest.XXXXXX)
cp "$DIR/known_findings.txt" "$OUT/"
# private copy of the binary: checks of seeded changes rebuild $DIR/target/sim/hqsim in place
cp "${HQSIM_BIN:-$DIR/target/sim/hqsim}" "$OUT/hqsim"
fail=0
for p in $PROPS; do
  d=()
  for jobs in 16 5 16; do
    line=$("$OUT/hqsim" check --property "$p" --tier quick --runs "$RUNS" --jobs "$jobs" --verif-dir "$OUT" 2>/dev/null | grep "^$p:" | tail -1)
    dig=$(python3 - "$OUT/evidence/$p.json" <<'PY'
import json,sys,hashlib
e=json.load(open(sys.argv[1]))
c=e["coverage"]
if "log_digest" in c:
    print(c["log_digest"])
else:
    # engines without an explicit digest: hash of the evidence without timing fields
    for k in ("wall_s",): e.pop(k,None)
    for k in ("runs_per_hour","wall_s","throughput","timing"): c.pop(k,None)
    # C04: the cluster part is nested and carries its own digest (and its own timing fields)
    nested=c.pop("worker_state_machine_part",None)
    pre=(nested.get("log_digest","?")+"+") if isinstance(nested,dict) else ""
    print(pre+hashlib.sha256(json.dumps(e,sort_keys=True).encode()).hexdigest()[:16])
PY
)
    d+=("$dig")
  done
  if [ "${d[0]}" == "${d[1]}" ] && [ "${d[1]}" == "${d[2]}" ] && [ -n "${d[0]}" ]; then
    echo "$p deterministic: digest ${d[0]} (jobs 16, 5, 16; $RUNS runs each)"
  else
    echo "$p NOT deterministic: ${d[*]}"; fail=1
  fi
done
rm -rf "$OUT"
exit $fail
