//! Independent reference fold of a journal: what a restart must reproduce, written from the
//! statements of C10/C11/C07/C06 (not from restore.rs).

use std::collections::{BTreeMap, BTreeSet};
use std::path::Path;

use hyperqueue::server::event::journal::JournalReader;
use hyperqueue::server::event::payload::EventPayload;
use hyperqueue::transfer::messages::{JobTaskDescription, SubmitRequest};
use tako::gateway::LostWorkerReason;

use crate::engines::cluster::{TaskKey, tkey};
use crate::model::reason_is_failure;

#[derive(Debug, Clone, PartialEq, Eq)]
pub enum RefTaskState {
    Waiting,
    Running { instance: u32, workers: Vec<u32> },
    Finished,
    Failed,
    Canceled,
    Aborted,
}

impl RefTaskState {
    pub fn is_terminal(&self) -> bool {
        !matches!(self, RefTaskState::Waiting | RefTaskState::Running { .. })
    }
    /// kind after a restart: running tasks are waiting again (their workers are gone)
    pub fn restored_kind(&self) -> &'static str {
        match self {
            RefTaskState::Waiting | RefTaskState::Running { .. } => "waiting",
            RefTaskState::Finished => "finished",
            RefTaskState::Failed => "failed",
            RefTaskState::Canceled => "canceled",
            RefTaskState::Aborted => "aborted",
        }
    }
}

#[derive(Debug, Clone)]
pub struct RefTask {
    pub deps: Vec<u32>,
    pub state: RefTaskState,
    /// instance ids of all recorded starts
    pub started_instances: Vec<u32>,
    pub crash_count: u32,
    pub priority: i32,
    pub time_limit_s: Option<u64>,
    pub crash_limit: tako::gateway::CrashLimit,
    pub error: Option<String>,
    pub rq: crate::spec::RqSpec,
    /// number of the record that submitted the task / that recorded its outcome
    pub submitted_at: usize,
    pub outcome_at: Option<usize>,
}

#[derive(Debug, Clone)]
pub struct RefJob {
    pub open: bool,
    pub max_fails: Option<u32>,
    pub tasks: BTreeMap<u32, RefTask>,
    pub submits: u32,
    pub n_failed: u32,
}

#[derive(Debug, Clone, Default)]
pub struct RefState {
    /// jobs that are not completed
    pub jobs: BTreeMap<u32, RefJob>,
    pub completed_jobs: BTreeSet<u32>,
    pub job_ids_mentioned: BTreeSet<u32>,
    pub worker_ids_mentioned: BTreeSet<u32>,
    pub queue_ids_mentioned: BTreeSet<u32>,
    pub live_queues: BTreeSet<u32>,
    /// allocation id -> queue (AllocationQueued records)
    pub allocation_queue: BTreeMap<String, u32>,
    /// queue -> resources of the last worker that connected from one of its allocations
    pub queue_resources: BTreeMap<u32, String>,
    pub server_uid: Option<String>,
    pub n_records: usize,
    pub kinds: BTreeMap<String, u64>,
    /// closed jobs with all tasks terminal but without a JobCompleted record
    pub finished_without_record: u32,
}

pub fn payload_kind(p: &EventPayload) -> &'static str {
    match p {
        EventPayload::WorkerConnected(..) => "WorkerConnected",
        EventPayload::WorkerLost(..) => "WorkerLost",
        EventPayload::WorkerOverviewReceived(..) => "WorkerOverview",
        EventPayload::Submit { .. } => "Submit",
        EventPayload::JobCompleted(..) => "JobCompleted",
        EventPayload::JobOpen(..) => "JobOpen",
        EventPayload::JobClose(..) => "JobClose",
        EventPayload::JobIdle(..) => "JobIdle",
        EventPayload::JobCancel { .. } => "JobCancel",
        EventPayload::TaskStarted { .. } => "TaskStarted",
        EventPayload::TaskFinished { .. } => "TaskFinished",
        EventPayload::TaskFailed { .. } => "TaskFailed",
        EventPayload::TasksCanceled { .. } => "TasksCanceled",
        EventPayload::TasksAborted { .. } => "TasksAborted",
        EventPayload::AllocationQueueCreated(..) => "AllocationQueueCreated",
        EventPayload::AllocationQueueRemoved(..) => "AllocationQueueRemoved",
        EventPayload::AllocationQueued { .. } => "AllocationQueued",
        EventPayload::AllocationStarted(..) => "AllocationStarted",
        EventPayload::AllocationFinished(..) => "AllocationFinished",
        EventPayload::ServerStart { .. } => "ServerStart",
        EventPayload::ServerStop => "ServerStop",
        EventPayload::TaskNotify(..) => "TaskNotify",
    }
}

/// Byte offsets at which a record ends (the header end is the first element). Computed on an
/// intact file.
pub fn record_boundaries(path: &Path) -> anyhow::Result<Vec<u64>> {
    // JournalReader::position() is the offset at which the record returned last starts (or the
    // end of the readable data after the final `None`).
    let mut reader = JournalReader::open(path)?;
    let mut offsets = Vec::new();
    loop {
        let r = (&mut reader).next();
        offsets.push(reader.position());
        match r {
            Some(Ok(_)) => {}
            Some(Err(e)) => return Err(e),
            None => break,
        }
    }
    // offsets[i] = start of record i (for i < n), offsets[n] = end of the data that was read
    Ok(offsets)
}

type TaskRow = (
    u32,
    Vec<u32>,
    i32,
    Option<u64>,
    tako::gateway::CrashLimit,
    crate::spec::RqSpec,
);

fn rq_spec(rqv: &tako::gateway::ResourceRequestVariants) -> crate::spec::RqSpec {
    use crate::spec::{EntrySpec, PolicySpec, RqSpec, VariantSpec};
    use tako::resources::AllocationRequest as A;
    RqSpec {
        variants: rqv
            .variants
            .iter()
            .map(|v| VariantSpec {
                n_nodes: v.n_nodes,
                entries: v
                    .resources
                    .iter()
                    .map(|e| {
                        let (policy, amount) = match &e.policy {
                            A::Compact(a) => (PolicySpec::Compact, a.total_fractions()),
                            A::Tight(a) => (PolicySpec::Tight, a.total_fractions()),
                            A::Scatter(a) => (PolicySpec::Scatter, a.total_fractions()),
                            A::ForceCompact(a) => (PolicySpec::ForceCompact, a.total_fractions()),
                            A::ForceTight(a) => (PolicySpec::ForceTight, a.total_fractions()),
                            A::All => (PolicySpec::All, 0),
                        };
                        EntrySpec {
                            resource: e.resource.clone(),
                            policy,
                            amount,
                        }
                    })
                    .collect(),
                min_time: v.min_time.as_secs(),
            })
            .collect(),
    }
}

fn tasks_of(desc: &JobTaskDescription) -> Vec<TaskRow> {
    match desc {
        JobTaskDescription::Array {
            ids,
            entries,
            task_desc,
            resource_rq,
        } => {
            let rq = rq_spec(resource_rq);
            let all: Vec<u32> = ids.iter().collect();
            let n = entries.as_ref().map(|e| e.len()).unwrap_or(all.len());
            all.into_iter()
                .take(n.max(0))
                .map(|id| {
                    (
                        id,
                        Vec::new(),
                        priority_of(&task_desc.priority),
                        task_desc.time_limit.map(|d| d.as_secs()),
                        task_desc.crash_limit,
                        rq.clone(),
                    )
                })
                .collect()
        }
        JobTaskDescription::Graph {
            tasks,
            resource_rqs,
        } => tasks
            .iter()
            .map(|t| {
                let mut deps: Vec<u32> = t.task_deps.iter().map(|d| d.as_num()).collect();
                deps.sort();
                deps.dedup();
                (
                    t.id.as_num(),
                    deps,
                    priority_of(&t.task_desc.priority),
                    t.task_desc.time_limit.map(|d| d.as_secs()),
                    t.task_desc.crash_limit,
                    resource_rqs
                        .get(t.resource_rq_id.as_num() as usize)
                        .map(rq_spec)
                        .unwrap_or(crate::spec::RqSpec { variants: vec![] }),
                )
            })
            .collect(),
    }
}

fn priority_of(p: &tako::UserPriority) -> i32 {
    format!("{p}").parse().unwrap_or(0)
}

/// Folds the records of the journal. A partially written last record is ignored.
pub fn fold(path: &Path) -> anyhow::Result<RefState> {
    let mut reader = JournalReader::open(path)?;
    let mut st = RefState::default();
    for event in &mut reader {
        let event = event?;
        st.n_records += 1;
        *st.kinds
            .entry(payload_kind(&event.payload).to_string())
            .or_default() += 1;
        match event.payload {
            EventPayload::WorkerConnected(w, cfg) => {
                st.worker_ids_mentioned.insert(w.as_num());
                let alloc = cfg
                    .extra
                    .get("JobManager")
                    .and_then(|s| serde_json::from_str::<serde_json::Value>(s).ok())
                    .and_then(|v| v.get("allocation_id").and_then(|a| a.as_str().map(|s| s.to_string())));
                if let Some(a) = alloc
                    && let Some(q) = st.allocation_queue.get(&a).copied()
                {
                    st.queue_resources.insert(q, format!("{:?}", cfg.resources));
                }
            }
            EventPayload::WorkerLost(w, reason) => {
                st.worker_ids_mentioned.insert(w.as_num());
                on_worker_lost(&mut st, w.as_num(), reason);
            }
            EventPayload::WorkerOverviewReceived(o) => {
                st.worker_ids_mentioned.insert(o.id.as_num());
            }
            EventPayload::Submit {
                job_id,
                closed_job,
                serialized_desc,
            } => {
                let jid = job_id.as_num();
                st.job_ids_mentioned.insert(jid);
                let request: SubmitRequest = serialized_desc.deserialize()?;
                if closed_job {
                    st.completed_jobs.remove(&jid);
                    st.jobs.insert(
                        jid,
                        RefJob {
                            open: false,
                            max_fails: request.job_desc.max_fails,
                            tasks: BTreeMap::new(),
                            submits: 0,
                            n_failed: 0,
                        },
                    );
                }
                if let Some(job) = st.jobs.get_mut(&jid) {
                    job.submits += 1;
                    // Records about tasks that are written before the submit of a restored
                    // history cannot exist; a task id is new here
                    let record_no = st.n_records;
                    for (id, deps, priority, time_limit_s, crash_limit, rq) in
                        tasks_of(&request.submit_desc.task_desc)
                    {
                        job.tasks.entry(id).or_insert(RefTask {
                            submitted_at: record_no,
                            outcome_at: None,
                            deps,
                            state: RefTaskState::Waiting,
                            started_instances: Vec::new(),
                            crash_count: 0,
                            priority,
                            time_limit_s,
                            crash_limit,
                            error: None,
                            rq,
                        });
                    }
                }
            }
            EventPayload::JobCompleted(job_id) => {
                let jid = job_id.as_num();
                st.job_ids_mentioned.insert(jid);
                st.jobs.remove(&jid);
                st.completed_jobs.insert(jid);
            }
            EventPayload::JobOpen(job_id, desc) => {
                let jid = job_id.as_num();
                st.job_ids_mentioned.insert(jid);
                st.jobs.insert(
                    jid,
                    RefJob {
                        open: true,
                        max_fails: desc.max_fails,
                        tasks: BTreeMap::new(),
                        submits: 0,
                        n_failed: 0,
                    },
                );
            }
            EventPayload::JobClose(job_id) => {
                st.job_ids_mentioned.insert(job_id.as_num());
                if let Some(j) = st.jobs.get_mut(&job_id.as_num()) {
                    j.open = false;
                }
            }
            EventPayload::JobIdle(_) | EventPayload::TaskNotify(_) => {}
            EventPayload::JobCancel { job_id, .. } => {
                st.job_ids_mentioned.insert(job_id.as_num());
            }
            EventPayload::TaskStarted {
                task_id,
                instance_id,
                worker_ids,
                ..
            } => {
                let k = tkey(task_id);
                st.job_ids_mentioned.insert(k.0);
                // (a start record names workers too: C11 speaks of every id the journal mentions)
                for w in worker_ids.iter() {
                    st.worker_ids_mentioned.insert(w.as_num());
                }
                if let Some(t) = task_mut(&mut st, k) {
                    if !t.state.is_terminal() {
                        t.state = RefTaskState::Running {
                            instance: instance_id.as_num(),
                            workers: worker_ids.iter().map(|w| w.as_num()).collect(),
                        };
                    }
                    t.started_instances.push(instance_id.as_num());
                }
            }
            EventPayload::TaskFinished { task_id } => {
                let k = tkey(task_id);
                let n = st.n_records;
                if let Some(t) = task_mut(&mut st, k) {
                    t.state = RefTaskState::Finished;
                    t.outcome_at = Some(n);
                }
            }
            EventPayload::TaskFailed { task_id, error } => {
                let k = tkey(task_id);
                let n = st.n_records;
                if let Some(t) = task_mut(&mut st, k) {
                    t.state = RefTaskState::Failed;
                    t.error = Some(error);
                    t.outcome_at = Some(n);
                }
                if let Some(j) = st.jobs.get_mut(&k.0) {
                    j.n_failed += 1;
                }
            }
            EventPayload::TasksCanceled { task_ids } => {
                let n = st.n_records;
                for t in task_ids {
                    if let Some(t) = task_mut(&mut st, tkey(t)) {
                        t.state = RefTaskState::Canceled;
                        t.outcome_at = Some(n);
                    }
                }
            }
            EventPayload::TasksAborted { task_ids } => {
                let n = st.n_records;
                for t in task_ids {
                    if let Some(t) = task_mut(&mut st, tkey(t)) {
                        t.state = RefTaskState::Aborted;
                        t.outcome_at = Some(n);
                    }
                }
            }
            EventPayload::AllocationQueueCreated(id, _) => {
                st.queue_ids_mentioned.insert(id);
                st.live_queues.insert(id);
            }
            EventPayload::AllocationQueueRemoved(id) => {
                st.queue_ids_mentioned.insert(id);
                st.live_queues.remove(&id);
            }
            EventPayload::AllocationQueued {
                queue_id,
                allocation_id,
                ..
            } => {
                st.queue_ids_mentioned.insert(queue_id);
                st.allocation_queue.insert(allocation_id, queue_id);
            }
            EventPayload::AllocationStarted(queue_id, _)
            | EventPayload::AllocationFinished(queue_id, _) => {
                st.queue_ids_mentioned.insert(queue_id);
            }
            EventPayload::ServerStart { server_uid } => {
                st.server_uid = Some(server_uid);
            }
            EventPayload::ServerStop => {}
        }
    }
    // A closed job whose tasks all have a recorded outcome is finished, whether or not its
    // JobCompleted record made it to the disk; it is not an "unfinished job" any more.
    let finished: Vec<u32> = st
        .jobs
        .iter()
        .filter(|(_, j)| !j.open && j.tasks.values().all(|t| t.state.is_terminal()))
        .map(|(id, _)| *id)
        .collect();
    for id in finished {
        st.jobs.remove(&id);
        st.completed_jobs.insert(id);
        st.finished_without_record += 1;
    }
    Ok(st)
}

fn task_mut(st: &mut RefState, k: TaskKey) -> Option<&mut RefTask> {
    st.jobs.get_mut(&k.0).and_then(|j| j.tasks.get_mut(&k.1))
}

fn on_worker_lost(st: &mut RefState, w: u32, reason: LostWorkerReason) {
    for j in st.jobs.values_mut() {
        for t in j.tasks.values_mut() {
            if let RefTaskState::Running { workers, .. } = &mut t.state {
                if workers.first() == Some(&w) {
                    // "the crash count of a task grows by one exactly when a worker running it
                    // is lost due to a failure"
                    if reason_is_failure(reason) {
                        t.crash_count += 1;
                    }
                    t.state = RefTaskState::Waiting;
                } else {
                    workers.retain(|x| *x != w);
                }
            }
        }
    }
}
