//! Seeded generation: swarm configuration, workload pieces, and the choice of the next action.

use serde::{Deserialize, Serialize};

use crate::engines::cluster::{ClusterConfig, World, WorkerPhase};
use crate::sim::rng::Rng;
use crate::spec::*;

#[derive(Debug, Clone, Copy, Serialize, Deserialize, PartialEq, Eq, Hash, PartialOrd, Ord)]
pub enum Profile {
    General,
    Cancel,
    Kill,
    Fail,
    Dag,
    Retract,
    Client,
    Priority,
    Restore,
    Prune,
}

impl Profile {
    pub fn all() -> &'static [Profile] {
        &[
            Profile::General,
            Profile::Cancel,
            Profile::Kill,
            Profile::Fail,
            Profile::Dag,
            Profile::Retract,
            Profile::Client,
            Profile::Priority,
            Profile::Restore,
            Profile::Prune,
        ]
    }
    pub fn name(&self) -> &'static str {
        match self {
            Profile::General => "general",
            Profile::Cancel => "cancel",
            Profile::Kill => "kill",
            Profile::Fail => "fail",
            Profile::Dag => "dag",
            Profile::Retract => "retract",
            Profile::Client => "client",
            Profile::Priority => "priority",
            Profile::Restore => "restore",
            Profile::Prune => "prune",
        }
    }
    pub fn parse(s: &str) -> Option<Profile> {
        Profile::all().iter().copied().find(|p| p.name() == s)
    }
}

#[derive(Debug, Clone, Copy, Serialize, Deserialize, PartialEq, Eq)]
pub enum Policy {
    Uniform,
    Pct,
    Burst,
    Race,
}

/// Everything drawn before the first step of a run.
#[derive(Debug, Clone, Serialize, Deserialize, PartialEq, Eq)]
pub struct RunPlan {
    pub profile: Profile,
    pub policy: Policy,
    pub cluster: ClusterConfig,
    pub initial_workers: Vec<u32>,
    pub late_workers: Vec<u32>,
    /// resource request classes the workload draws from
    pub classes: Vec<RqSpec>,
    pub priorities: Vec<i32>,
    pub max_steps: u32,
    pub client_ops: u32,
    pub kills: u32,
    pub crashes: u32,
    pub fail_percent: u32,
    pub slow_cancel_percent: u32,
    pub time_limits: bool,
    pub avoid_mn: bool,
    pub prunes: u32,
    /// allocation queues exist and the real autoalloc scheduling pass runs against the core
    #[serde(default)]
    pub autoalloc_ticks: bool,
}

fn worker_spec(rng: &mut Rng, profile: Profile, groups: &[String]) -> WorkerSpec {
    let mut resources = Vec::new();
    let cpus = match rng.below(if profile == Profile::Priority { 3 } else { 6 }) {
        0 => ResKindSpec::Range(rng.range(1, 4) as u32),
        1 => ResKindSpec::Range(rng.range(2, 8) as u32),
        2 => ResKindSpec::Range(4),
        3 => ResKindSpec::Groups(vec![2, 2]),
        4 => {
            let n = rng.range(2, 3);
            ResKindSpec::Groups((0..n).map(|_| rng.range(1, 3) as u32).collect())
        }
        _ => ResKindSpec::List((0..rng.range(1, 4)).map(|i| format!("c{i}")).collect()),
    };
    resources.push(("cpus".to_string(), cpus));
    if rng.chance(1, 3) {
        let gpus = match rng.below(3) {
            0 => ResKindSpec::Range(rng.range(1, 2) as u32),
            1 => ResKindSpec::List((0..rng.range(1, 3)).map(|i| format!("g{i}")).collect()),
            _ => ResKindSpec::Groups(vec![1, 1]),
        };
        resources.push(("gpus".to_string(), gpus));
    }
    if rng.chance(1, 4) {
        resources.push((
            "mem".to_string(),
            ResKindSpec::Sum(rng.range(1, 8) * 5_000),
        ));
    }
    WorkerSpec {
        resources,
        group: rng.pick(groups).clone(),
        time_limit: match rng.below(6) {
            0 => Some(rng.range(5, 60)),
            1 => Some(rng.range(600, 3600)),
            _ => None,
        },
        coupling: Vec::new(),
    }
}

fn rq_class(rng: &mut Rng, profile: Profile, avoid_mn: bool) -> RqSpec {
    let simple_only = profile == Profile::Priority;
    let roll = rng.below(100);
    if !simple_only && !avoid_mn && roll < 8 {
        // multi-node: what the CLI sends is `nodes=N` + the default cpus=1 entry
        return RqSpec {
            variants: vec![VariantSpec {
                n_nodes: rng.range(2, 3) as u32,
                entries: vec![EntrySpec {
                    resource: "cpus".into(),
                    policy: PolicySpec::Compact,
                    amount: 10_000,
                }],
                // `--time-request` of a multi-node task: every member needs the lifetime
                min_time: if rng.chance(1, 3) {
                    rng.range(1, 1800)
                } else {
                    0
                },
            }],
        };
    }
    let n_variants = if !simple_only && roll < 20 { 2 } else { 1 };
    let mut variants = Vec::new();
    for _ in 0..n_variants {
        let mut entries = Vec::new();
        let cpu_policy = if simple_only {
            PolicySpec::Compact
        } else {
            *rng.pick(&[
                PolicySpec::Compact,
                PolicySpec::Compact,
                PolicySpec::Compact,
                PolicySpec::Tight,
                PolicySpec::Scatter,
                PolicySpec::ForceCompact,
                PolicySpec::ForceTight,
                PolicySpec::All,
            ])
        };
        let cpu_amount = if !simple_only && rng.chance(1, 6) {
            *rng.pick(&[2_500u64, 5_000, 7_500, 15_000])
        } else {
            rng.range(1, 4) * 10_000
        };
        entries.push(EntrySpec {
            resource: "cpus".into(),
            policy: cpu_policy,
            amount: cpu_amount,
        });
        if rng.chance(1, 4) {
            entries.push(EntrySpec {
                resource: "gpus".into(),
                policy: if simple_only {
                    PolicySpec::Compact
                } else {
                    *rng.pick(&[PolicySpec::Compact, PolicySpec::Scatter, PolicySpec::All])
                },
                amount: if !simple_only && rng.chance(1, 4) {
                    5_000
                } else {
                    10_000
                },
            });
        }
        if rng.chance(1, 6) {
            entries.push(EntrySpec {
                resource: "mem".into(),
                policy: PolicySpec::Compact,
                amount: rng.range(1, 4) * 5_000,
            });
        }
        variants.push(VariantSpec {
            n_nodes: 0,
            entries,
            min_time: if !simple_only && rng.chance(1, 8) {
                rng.range(1, 120)
            } else {
                0
            },
        });
    }
    RqSpec { variants }
}

pub fn make_plan(rng: &mut Rng, profile: Profile, force_journal: Option<bool>) -> RunPlan {
    let groups: Vec<String> = match rng.below(4) {
        0 => vec!["default".into(), "g1".into()],
        _ => vec!["default".into()],
    };
    let n_shapes = rng.range(1, 3) as usize;
    let workers: Vec<WorkerSpec> = (0..n_shapes)
        .map(|_| worker_spec(rng, profile, &groups))
        .collect();
    let n_initial = match profile {
        Profile::Retract | Profile::Kill => rng.range(2, 4),
        _ => rng.range(0, 4),
    };
    let initial_workers = (0..n_initial)
        .map(|_| rng.below(n_shapes as u64) as u32)
        .collect();
    let late_workers = (0..rng.range(0, 3))
        .map(|_| rng.below(n_shapes as u64) as u32)
        .collect();
    let avoid_mn = rng.chance(1, 2);
    let n_classes = rng.range(1, 4) as usize;
    let classes = (0..n_classes)
        .map(|_| rq_class(rng, profile, avoid_mn))
        .collect();
    let n_prio = match profile {
        Profile::Priority | Profile::Retract => rng.range(2, 4),
        _ => rng.range(1, 3),
    } as usize;
    let mut priorities: Vec<i32> = (0..n_prio).map(|_| rng.range(0, 6) as i32 - 2).collect();
    priorities.sort();
    priorities.dedup();
    let (reserve, max) = match profile {
        Profile::Retract => (*rng.pick(&[0u32, 0, 1]), *rng.pick(&[1u32, 2, 40])),
        _ => (*rng.pick(&[0u32, 1, 2, 16]), *rng.pick(&[1u32, 2, 40])),
    };
    let journal = force_journal.unwrap_or(match profile {
        Profile::Restore | Profile::Prune => true,
        Profile::Client => rng.chance(3, 4),
        _ => rng.chance(1, 3),
    });
    let mut plan = RunPlan {
        profile,
        policy: *rng.pick(&[
            Policy::Uniform,
            Policy::Uniform,
            Policy::Pct,
            Policy::Burst,
            Policy::Race,
        ]),
        cluster: ClusterConfig {
            workers,
            proactive_filling_reserve: reserve,
            proactive_filling_max: max,
            journal,
            launch_fail_salt: rng.next_u64(),
            launch_fail_permille: match profile {
                Profile::Fail => *rng.pick(&[0u32, 100, 300]),
                // (failing starts also have to meet cancels, retractions and refused requests)
                _ => *rng.pick(&[0u32, 0, 50, 150]),
            },
            n_clients: match profile {
                Profile::Client => rng.range(2, 4) as u32,
                _ => rng.range(1, 3) as u32,
            },
        },
        initial_workers,
        late_workers,
        classes,
        priorities,
        max_steps: rng.range(150, 900) as u32,
        client_ops: match profile {
            Profile::Client => rng.range(6, 20),
            _ => rng.range(2, 10),
        } as u32,
        kills: match profile {
            Profile::Kill => rng.range(1, 4),
            Profile::Cancel | Profile::Priority | Profile::Client => *rng.pick(&[0, 0, 1]),
            _ => *rng.pick(&[0, 0, 1, 2]),
        } as u32,
        crashes: match profile {
            Profile::Restore => rng.range(1, 3),
            Profile::Prune => rng.range(1, 2),
            _ => {
                if journal {
                    *rng.pick(&[0, 0, 0, 1])
                } else {
                    0
                }
            }
        } as u32,
        fail_percent: match profile {
            Profile::Fail => rng.range(20, 60),
            _ => *rng.pick(&[0, 5, 15]),
        } as u32,
        slow_cancel_percent: *rng.pick(&[0u32, 30, 70]),
        time_limits: rng.chance(1, 3),
        avoid_mn,
        prunes: match profile {
            Profile::Prune => rng.range(1, 3),
            _ => {
                if journal {
                    *rng.pick(&[0, 0, 1])
                } else {
                    0
                }
            }
        } as u32,
        autoalloc_ticks: false,
    };
    plan.autoalloc_ticks = rng.chance(1, 4);
    // Swarm dimension "lifetime": every worker is about to reach its time limit and many request
    // classes carry a time request, so that workers give tasks back on their own (hard rejects
    // of assigned and pre-sent tasks, the periodic retract check) while the server retracts,
    // redirects and cancels.
    let lifetime_heavy = profile != Profile::Priority
        && rng.chance(1, if profile == Profile::Retract { 3 } else { 7 });
    if lifetime_heavy {
        for w in plan.cluster.workers.iter_mut() {
            w.time_limit = Some(rng.range(15, 240));
        }
        for c in plan.classes.iter_mut() {
            for v in c.variants.iter_mut() {
                if v.n_nodes == 0 && rng.chance(1, 2) {
                    v.min_time = rng.range(5, 120);
                }
            }
        }
    }
    plan
}

/* ---------------------------------------------------------------------------------------- */
/* Workload pieces                                                                          */
/* ---------------------------------------------------------------------------------------- */

/// What the generator knows about the jobs it has created (ids come from the responses).
#[derive(Debug, Default, Clone)]
pub struct Knowledge {
    /// (job id, open?, task ids known so far)
    pub jobs: Vec<(u32, bool, Vec<u32>)>,
    pub next_guess: u32,
}

fn task_props(rng: &mut Rng, plan: &RunPlan) -> TaskProps {
    TaskProps {
        priority: *rng.pick(&plan.priorities),
        time_limit: if plan.time_limits && rng.chance(1, 3) {
            Some(rng.range(1, 30))
        } else {
            None
        },
        crash_limit: match plan.profile {
            Profile::Kill => *rng.pick(&[
                CrashSpec::Never,
                CrashSpec::Max(1),
                CrashSpec::Max(2),
                CrashSpec::Max(5),
                CrashSpec::Unlimited,
            ]),
            _ => *rng.pick(&[
                CrashSpec::Max(5),
                CrashSpec::Max(5),
                CrashSpec::Max(1),
                CrashSpec::Never,
                CrashSpec::Unlimited,
            ]),
        },
    }
}

fn submit_spec(rng: &mut Rng, plan: &RunPlan, existing: &[u32], into_open: bool) -> SubmitSpec {
    let graph_chance = match plan.profile {
        Profile::Dag => 80,
        Profile::Priority => 0,
        _ => 30,
    };
    if rng.below(100) < graph_chance {
        let n = rng.range(1, 8) as usize;
        let n_rqs = rng.range(1, plan.classes.len().min(3) as u64) as usize;
        let rqs: Vec<RqSpec> = (0..n_rqs).map(|_| rng.pick(&plan.classes).clone()).collect();
        let base = if into_open {
            match existing.iter().max() {
                Some(m) => m + 1 + rng.below(3) as u32,
                // (the first submit into an open job may leave room below its ids)
                None => *rng.pick(&[0u32, 1, 2, 12, 30]),
            }
        } else {
            rng.below(3) as u32
        };
        // a later submit whose ids lie below those of an earlier one (and may depend on them)
        let free_below: Vec<u32> = existing
            .iter()
            .max()
            .map(|m| (0..*m).filter(|i| !existing.contains(i)).collect())
            .unwrap_or_default();
        let low_ids = into_open && free_below.len() >= n && rng.chance(1, 3);
        let mut tasks: Vec<GraphTaskSpec> = Vec::new();
        for i in 0..n {
            let id = if low_ids {
                free_below[i]
            } else {
                base + i as u32 * if rng.chance(1, 5) { 2 } else { 1 } + i as u32
            };
            let mut deps = Vec::new();
            // dependencies on earlier tasks of this submit
            for t in tasks.iter() {
                if rng.chance(1, 3) {
                    deps.push(t.id);
                }
            }
            // dependencies on tasks of earlier submits
            if into_open && !existing.is_empty() && rng.chance(1, 2) {
                deps.push(*rng.pick(existing));
            }
            // rare invalid dependencies (the server must reject the submit)
            if rng.chance(1, 60) {
                deps.push(id);
            }
            if rng.chance(1, 60) {
                deps.push(9_999);
            }
            deps.sort();
            deps.dedup();
            // the same dependency named twice (accepted by the server)
            if !deps.is_empty() && rng.chance(1, 12) {
                let d = *rng.pick(&deps);
                deps.push(d);
                deps.sort();
            }
            tasks.push(GraphTaskSpec {
                id,
                rq: rng.below(n_rqs as u64) as u32,
                deps,
                props: task_props(rng, plan),
            });
        }
        // a dependent listed before its dependency (the server must reject the submit)
        if tasks.len() > 1 && rng.chance(1, 25) {
            let i = rng.usize_below(tasks.len() - 1);
            tasks.swap(i, i + 1);
        }
        // rare duplicate id inside the submit / clash with an existing id
        if tasks.len() > 1 && rng.chance(1, 40) {
            let id0 = tasks[0].id;
            tasks.last_mut().unwrap().id = id0;
        }
        if into_open && !existing.is_empty() && rng.chance(1, 25) {
            tasks[0].id = *rng.pick(existing);
        }
        SubmitSpec::Graph { rqs, tasks }
    } else {
        let n = match plan.profile {
            Profile::Priority | Profile::Retract => rng.range(2, 10),
            _ => rng.range(1, 6),
        } as u32;
        let rq = rng.pick(&plan.classes).clone();
        let props = task_props(rng, plan);
        let style = rng.below(4);
        let (ids, entries) = match style {
            // explicit ids
            0 => {
                // ids that fill a gap below the largest existing id (a later submit with
                // automatic ids must still continue after the largest one)
                let free_below: Vec<u32> = existing
                    .iter()
                    .max()
                    .map(|m| (0..*m).filter(|i| !existing.contains(i)).collect())
                    .unwrap_or_default();
                if into_open && !free_below.is_empty() && rng.chance(1, 4) {
                    let from = rng.usize_below(free_below.len());
                    let ids: Vec<u32> = free_below.iter().skip(from).take(n as usize).copied().collect();
                    (Some(ids), None)
                } else {
                    let start = if into_open {
                        if !existing.is_empty() && rng.chance(1, 12) {
                            // clash with existing ids
                            *rng.pick(existing)
                        } else {
                            existing.iter().max().map(|m| m + 1).unwrap_or(0)
                                + if rng.chance(1, 5) {
                                    // leave a large gap
                                    rng.range(5, 12) as u32
                                } else {
                                    rng.below(4) as u32
                                }
                        }
                    } else {
                        rng.below(5) as u32 + if rng.chance(1, 6) { 8 } else { 0 }
                    };
                    let step = rng.range(1, 2) as u32;
                    (Some((0..n).map(|i| start + i * step).collect::<Vec<_>>()), None)
                }
            }
            // explicit ids + entries (client pairs them)
            1 => {
                let start = if into_open {
                    existing.iter().max().map(|m| m + 1).unwrap_or(0) + rng.below(4) as u32
                } else {
                    rng.below(5) as u32
                };
                (Some((0..n).map(|i| start + i).collect::<Vec<_>>()), Some(n))
            }
            // auto ids with entries
            2 => (None, Some(n)),
            // auto ids, no entries => single task
            _ => (None, None),
        };
        SubmitSpec::Array {
            ids,
            entries,
            rq,
            props,
        }
    }
}

pub fn next_client_op(rng: &mut Rng, plan: &RunPlan, know: &Knowledge, ops_done: u32) -> ClientOp {
    let open_jobs: Vec<&(u32, bool, Vec<u32>)> = know.jobs.iter().filter(|j| j.1).collect();
    let any_job = !know.jobs.is_empty();
    let pick_job = |rng: &mut Rng| -> u32 {
        if any_job && !rng.chance(1, 15) {
            rng.pick(&know.jobs).0
        } else {
            // unknown / forgotten / future id
            rng.range(0, know.next_guess as u64 + 2) as u32
        }
    };
    let sel = |rng: &mut Rng| -> SelSpec {
        match rng.below(10) {
            0 => SelSpec::All,
            1 => SelSpec::LastN(rng.range(1, 3) as u32),
            2 => SelSpec::Ids(vec![pick_job(rng), pick_job(rng)]),
            _ => SelSpec::Ids(vec![pick_job(rng)]),
        }
    };
    // weights: submit, submit into open, open, close, cancel, forget, info, detail, stop worker,
    // worker info, explain, flush, prune, list
    let mut w: [u64; 14] = match plan.profile {
        Profile::Cancel => [30, 10, 6, 6, 40, 4, 3, 3, 1, 1, 1, 2, 0, 1],
        Profile::Client => [20, 25, 15, 15, 10, 12, 6, 6, 2, 2, 2, 4, 0, 2],
        Profile::Priority | Profile::Retract => [45, 15, 5, 5, 6, 1, 1, 1, 0, 0, 1, 1, 0, 0],
        Profile::Kill => [40, 10, 5, 5, 5, 2, 2, 2, 6, 2, 1, 1, 0, 1],
        _ => [35, 15, 8, 8, 10, 4, 3, 3, 2, 1, 1, 2, 0, 1],
    };
    if ops_done == 0 || !any_job {
        // start with some work
        w = [60, 0, 20, 0, 1, 0, 1, 1, 0, 0, 0, 1, 0, 0];
    }
    if open_jobs.is_empty() {
        w[1] = 0;
    }
    if plan.prunes > 0 && plan.cluster.journal {
        w[12] = if plan.profile == Profile::Prune { 25 } else { 6 };
    }
    match rng.pick_weighted(&w) {
        0 => ClientOp::Submit {
            name: format!("job{ops_done}"),
            max_fails: max_fails(rng, plan),
            job: None,
            spec: submit_spec(rng, plan, &[], false),
            wait: rng.chance(
                match plan.profile {
                    Profile::Client => 1,
                    _ => 1,
                },
                match plan.profile {
                    // several clients waiting for their jobs at the same time, coming and going
                    Profile::Client => 2,
                    _ => 6,
                },
            ),
        },
        1 => {
            let j = rng.pick(&open_jobs);
            ClientOp::Submit {
                name: "attach".into(),
                max_fails: None,
                job: Some(j.0),
                spec: submit_spec(rng, plan, &j.2, true),
                wait: false,
            }
        }
        2 => ClientOp::Open {
            name: format!("open{ops_done}"),
            max_fails: max_fails(rng, plan),
        },
        3 => ClientOp::Close(sel(rng)),
        4 => ClientOp::Cancel(sel(rng)),
        5 => ClientOp::Forget(sel(rng)),
        6 => ClientOp::JobInfo(sel(rng)),
        7 => ClientOp::JobDetail(sel(rng)),
        8 => ClientOp::StopWorker(match rng.below(3) {
            0 => SelSpec::All,
            1 => SelSpec::LastN(1),
            _ => SelSpec::Ids(vec![rng.range(1, 6) as u32]),
        }),
        9 => ClientOp::WorkerInfo(SelSpec::All),
        10 => {
            let j = pick_job(rng);
            let t = know
                .jobs
                .iter()
                .find(|x| x.0 == j)
                .and_then(|x| x.2.first().copied())
                .unwrap_or(0);
            ClientOp::Explain { job: j, task: t }
        }
        11 => ClientOp::Flush,
        12 => ClientOp::Prune,
        _ => ClientOp::WorkerList,
    }
}

fn max_fails(rng: &mut Rng, plan: &RunPlan) -> Option<u32> {
    match plan.profile {
        Profile::Fail => Some(rng.range(0, 2) as u32),
        _ => {
            if rng.chance(1, 5) {
                Some(rng.range(0, 2) as u32)
            } else {
                None
            }
        }
    }
}

/* ---------------------------------------------------------------------------------------- */
/* Choosing the next action                                                                 */
/* ---------------------------------------------------------------------------------------- */

#[derive(Debug, Clone, Copy, PartialEq, Eq, Hash, PartialOrd, Ord)]
pub enum Actor {
    LinkDown(u32),
    LinkUp(u32),
    Scheduler,
    TaskFut(u32),
    Program(u32),
    Client(u32),
    Journal,
    Clock,
    Fault,
    Membership,
}

pub struct Candidate {
    pub action: Action,
    pub actor: Actor,
    pub weight: u64,
}

pub struct Chooser {
    pub policy: Policy,
    pub pct_priorities: std::collections::BTreeMap<Actor, u64>,
    pub pct_change_points: Vec<u32>,
    pub last_actor: Option<Actor>,
    pub starved: Option<Actor>,
}

impl Chooser {
    pub fn new(rng: &mut Rng, plan: &RunPlan) -> Self {
        let mut pts: Vec<u32> = (0..rng.range(1, 3))
            .map(|_| rng.below(plan.max_steps as u64) as u32)
            .collect();
        pts.sort();
        Chooser {
            policy: plan.policy,
            pct_priorities: Default::default(),
            pct_change_points: pts,
            last_actor: None,
            starved: if rng.chance(1, 4) {
                Some(match rng.below(3) {
                    0 => Actor::Scheduler,
                    1 => Actor::LinkUp(rng.range(1, 3) as u32),
                    _ => Actor::LinkDown(rng.range(1, 3) as u32),
                })
            } else {
                None
            },
        }
    }

    pub fn choose(&mut self, rng: &mut Rng, step: u32, mut cands: Vec<Candidate>) -> Option<Action> {
        if cands.is_empty() {
            return None;
        }
        if let Some(s) = self.starved {
            for c in cands.iter_mut() {
                if c.actor == s {
                    c.weight = (c.weight / 20).max(1);
                }
            }
        }
        let idx = match self.policy {
            Policy::Uniform | Policy::Race => {
                rng.pick_weighted(&cands.iter().map(|c| c.weight).collect::<Vec<_>>())
            }
            Policy::Burst => {
                let same: Vec<usize> = cands
                    .iter()
                    .enumerate()
                    .filter(|(_, c)| Some(c.actor) == self.last_actor)
                    .map(|(i, _)| i)
                    .collect();
                if !same.is_empty() && rng.chance(7, 10) {
                    *rng.pick(&same)
                } else {
                    rng.pick_weighted(&cands.iter().map(|c| c.weight).collect::<Vec<_>>())
                }
            }
            Policy::Pct => {
                // clock, faults and membership keep their base rates
                let special: Vec<usize> = cands
                    .iter()
                    .enumerate()
                    .filter(|(_, c)| {
                        matches!(c.actor, Actor::Clock | Actor::Fault | Actor::Membership)
                    })
                    .map(|(i, _)| i)
                    .collect();
                let normal: Vec<usize> = (0..cands.len())
                    .filter(|i| !special.contains(i))
                    .collect();
                if normal.is_empty() || (!special.is_empty() && rng.chance(1, 12)) {
                    *rng.pick(&special)
                } else {
                    if self.pct_change_points.first().is_some_and(|p| *p <= step) {
                        self.pct_change_points.remove(0);
                        // demote the currently highest actor
                        if let Some((a, _)) = self
                            .pct_priorities
                            .iter()
                            .max_by_key(|(_, p)| **p)
                            .map(|(a, p)| (*a, *p))
                        {
                            self.pct_priorities.insert(a, 0);
                        }
                    }
                    for i in &normal {
                        let a = cands[*i].actor;
                        if !self.pct_priorities.contains_key(&a) {
                            let p = rng.next_u64() | 1;
                            self.pct_priorities.insert(a, p);
                        }
                    }
                    let best = normal
                        .iter()
                        .map(|i| self.pct_priorities[&cands[*i].actor])
                        .max()
                        .unwrap();
                    let top: Vec<usize> = normal
                        .iter()
                        .copied()
                        .filter(|i| self.pct_priorities[&cands[*i].actor] == best)
                        .collect();
                    *rng.pick(&top)
                }
            }
        };
        let c = cands.swap_remove(idx);
        self.last_actor = Some(c.actor);
        Some(c.action)
    }
}

pub struct Budgets {
    pub client_ops_left: u32,
    pub kills_left: u32,
    pub crashes_left: u32,
    pub late_workers: Vec<u32>,
    pub prunes_left: u32,
    pub queue_events_left: u32,
    pub autoalloc_ticks_left: u32,
}

/// Enumerates what can happen next. Draws from the RNG for the parameters of generated actions
/// (task results, kill parameters, time deltas, client requests).
#[allow(clippy::too_many_arguments)]
pub fn candidates(
    rng: &mut Rng,
    plan: &RunPlan,
    world: &World,
    know: &Knowledge,
    budgets: &Budgets,
    ops_done: u32,
    cancel_pending: bool,
) -> Vec<Candidate> {
    let mut out = Vec::new();
    let race = plan.policy == Policy::Race && cancel_pending;
    for ws in world.workers.values() {
        if ws.phase == WorkerPhase::Up && !ws.s2w.is_empty() {
            out.push(Candidate {
                action: Action::ToWorker { w: ws.id },
                actor: Actor::LinkDown(ws.id),
                weight: if race { 3 } else { 10 },
            });
        }
        if ws.server_connected && !ws.w2s.is_empty() {
            out.push(Candidate {
                action: Action::ToServer { w: ws.id },
                actor: Actor::LinkUp(ws.id),
                weight: 10,
            });
        }
        if ws.server_connected && ws.phase != WorkerPhase::Up && ws.w2s.is_empty() {
            out.push(Candidate {
                action: Action::NoticeLoss { w: ws.id },
                actor: Actor::LinkUp(ws.id),
                weight: 6,
            });
        }
        if ws.phase == WorkerPhase::Up
            && let Some(limit) = ws.time_limit_ms
            && world.now_ms.get() >= ws.start_ms + limit
        {
            out.push(Candidate {
                action: Action::WorkerTimeLimit { w: ws.id },
                actor: Actor::Membership,
                weight: 12,
            });
        }
        for (task, instance, stop, instructed) in world.live_execs(ws.id) {
            if instructed {
                continue;
            }
            let end = if stop.is_some() {
                if rng.below(100) < plan.slow_cancel_percent as u64 {
                    // slow to honour the stop: not now
                    if rng.chance(1, 2) {
                        continue;
                    }
                    EndSpec::ObeyStop
                } else {
                    match rng.below(10) {
                        0 => EndSpec::Finished,
                        1 => EndSpec::Failed,
                        _ => EndSpec::ObeyStop,
                    }
                }
            } else if rng.below(100) < plan.fail_percent as u64 {
                EndSpec::Failed
            } else {
                EndSpec::Finished
            };
            out.push(Candidate {
                action: Action::EndTask {
                    w: ws.id,
                    job: task.0,
                    task: task.1,
                    instance,
                    end,
                },
                actor: Actor::Program(ws.id),
                weight: if stop.is_some() { 6 } else { 3 },
            });
        }
    }
    for (w, task, instance) in world.woken_task_futs() {
        out.push(Candidate {
            action: Action::PollTask {
                w,
                job: task.0,
                task: task.1,
                instance,
            },
            actor: Actor::TaskFut(w),
            weight: if race { 20 } else { 10 },
        });
    }
    for w in world.woken_retract_checks() {
        out.push(Candidate {
            action: Action::PollRetractCheck { w },
            actor: Actor::TaskFut(w),
            weight: 3,
        });
    }
    if world.scheduling_needed() {
        out.push(Candidate {
            action: Action::Schedule,
            actor: Actor::Scheduler,
            weight: 8,
        });
    }
    for c in world.woken_clients() {
        out.push(Candidate {
            action: Action::PollClient { c },
            actor: Actor::Client(c),
            weight: 10,
        });
    }
    if let Some(inc) = &world.inc
        && let Some(j) = &inc.journal
        && !j.pending.is_empty()
    {
        out.push(Candidate {
            action: Action::JournalStep,
            actor: Actor::Journal,
            weight: 6,
        });
    }
    if world.inc.is_some() {
        if budgets.client_ops_left > 0 {
            for cl in world.clients.values() {
                if cl.closed || cl.outstanding.is_some() {
                    continue;
                }
                if cl.streaming {
                    // a waiting client may give up
                    if rng.chance(1, 40) {
                        out.push(Candidate {
                            action: Action::ClientSend {
                                c: cl.id,
                                op: ClientOp::Disconnect,
                            },
                            actor: Actor::Client(cl.id),
                            weight: 1,
                        });
                    }
                    continue;
                }
                let mut op = next_client_op(rng, plan, know, ops_done);
                if matches!(op, ClientOp::Prune) && budgets.prunes_left == 0 {
                    op = ClientOp::Flush;
                }
                out.push(Candidate {
                    action: Action::ClientSend { c: cl.id, op },
                    actor: Actor::Client(cl.id),
                    weight: 4,
                });
            }
        }
        if !budgets.late_workers.is_empty() {
            out.push(Candidate {
                action: Action::AddWorker {
                    spec: budgets.late_workers[0],
                },
                actor: Actor::Membership,
                weight: 1,
            });
        }
        if budgets.kills_left > 0 {
            let alive: Vec<&crate::engines::cluster::WorkerSim> = world
                .workers
                .values()
                .filter(|w| w.server_connected && w.phase != WorkerPhase::Dead)
                .collect();
            if !alive.is_empty() {
                let w = rng.pick(&alive);
                let keep = rng.range(0, w.w2s.len() as u64) as u32;
                // losses are more interesting while the worker has something going on
                let busy = !world.live_execs(w.id).is_empty() || !w.s2w.is_empty();
                out.push(Candidate {
                    action: Action::KillWorker {
                        w: w.id,
                        reason: if rng.chance(1, 3) {
                            LossReasonSpec::HeartbeatLost
                        } else {
                            LossReasonSpec::ConnectionLost
                        },
                        keep,
                    },
                    actor: Actor::Fault,
                    weight: if busy { 2 } else { 1 },
                });
            }
        }
        if plan.autoalloc_ticks && !world.live_queues.is_empty() && budgets.autoalloc_ticks_left > 0 {
            out.push(Candidate {
                action: Action::AutoallocTick,
                actor: Actor::Scheduler,
                weight: 2,
            });
        }
        if ((plan.cluster.journal
            && matches!(plan.profile, Profile::Restore | Profile::Prune | Profile::Kill))
            || plan.autoalloc_ticks)
            && budgets.queue_events_left > 0
        {
            let create = world.live_queues.is_empty() || rng.chance(2, 3);
            out.push(Candidate {
                action: Action::QueueEvent {
                    create,
                    id: if create {
                        0
                    } else {
                        *rng.pick(&world.live_queues)
                    },
                },
                actor: Actor::Membership,
                weight: 1,
            });
        }
        if budgets.crashes_left > 0 && plan.cluster.journal {
            let os_len = world.journal_file_len();
            let synced = world
                .inc
                .as_ref()
                .and_then(|i| i.journal.as_ref())
                .map(|j| j.synced_len)
                .unwrap_or(0);
            let keep = match rng.below(6) {
                0 => None,
                1 => Some(synced),
                2 | 3 => Some(rng.range(synced.min(os_len), os_len)),
                // into the part that the writer still holds in its buffer (the crash hits
                // while it is being written out); clamped to what exists when executed
                _ => Some(os_len + rng.range(1, 3000)),
            };
            out.push(Candidate {
                action: Action::CrashServer { keep_bytes: keep },
                actor: Actor::Fault,
                weight: 1,
            });
        }
    }
    // the clock
    {
        let now = world.now_ms.get();
        let mut deadlines: Vec<u64> = Vec::new();
        for ws in world.workers.values() {
            if ws.phase == WorkerPhase::Up
                && let Some(l) = ws.time_limit_ms
                && ws.start_ms + l > now
            {
                deadlines.push(ws.start_ms + l - now);
            }
        }
        for l in world.launches.borrow().iter() {
            if l.ended.is_none()
                && let Some(tl) = l.time_limit_ms
                && l.at_ms + tl > now
            {
                deadlines.push(l.at_ms + tl - now);
            }
        }
        deadlines.sort();
        let ms = if let Some(d) = deadlines.first()
            && rng.chance(2, 3)
        {
            match rng.below(4) {
                0 => d.saturating_sub(1).max(1),
                1 => *d,
                2 => d + 1,
                _ => d + rng.range(1, 5_000),
            }
        } else {
            *rng.pick(&[1u64, 20, 500, 5_000, 10_000, 60_000, 600_000])
        };
        out.push(Candidate {
            action: Action::Advance { ms },
            actor: Actor::Clock,
            weight: if out.is_empty() { 10 } else { 1 },
        });
    }
    out
}
