//! Minimisation of a failing trace: delta debugging over the explicit action list, keeping a
//! candidate only if the same oracle fires with the same signature.

use crate::genr::RunPlan;
use crate::run::{RunOptions, replay_actions};
use crate::spec::Action;

pub struct ShrinkStats {
    pub replays: u32,
    pub from: usize,
    pub to: usize,
}

fn fails(
    plan: &RunPlan,
    seed: u64,
    actions: &[Action],
    target: &str,
    tag: &str,
    sweep: (Option<u32>, u32),
) -> bool {
    let r = replay_actions(
        plan,
        seed,
        actions,
        &RunOptions {
            verbose: false,
            tag: tag.to_string(),
            force_journal: None,
            sweep_one_in: sweep.0,
            sweep_interior: sweep.1,
        },
        Some(target),
    );
    r.findings
        .iter()
        .any(|f| format!("{} {}", f.property, f.signature()) == target)
}

/// `target` is "<property> <oracle>@<key>"
pub fn shrink(
    plan: &RunPlan,
    seed: u64,
    actions: &[Action],
    target: &str,
    tag: &str,
    max_replays: u32,
    sweep: (Option<u32>, u32),
) -> (Vec<Action>, ShrinkStats) {
    let mut stats = ShrinkStats {
        replays: 0,
        from: actions.len(),
        to: actions.len(),
    };
    let mut cur: Vec<Action> = actions.to_vec();
    stats.replays += 1;
    if !fails(plan, seed, &cur, target, tag, sweep) {
        // not reproducible from the action list: report unminimised
        return (cur, stats);
    }
    // 1. cut the tail: binary search for the shortest failing prefix
    {
        let (mut lo, mut hi) = (0usize, cur.len());
        while lo < hi && stats.replays < max_replays {
            let mid = (lo + hi) / 2;
            stats.replays += 1;
            if fails(plan, seed, &cur[..mid], target, tag, sweep) {
                hi = mid;
            } else {
                lo = mid + 1;
            }
        }
        if hi < cur.len() {
            stats.replays += 1;
            if fails(plan, seed, &cur[..hi], target, tag, sweep) {
                cur.truncate(hi);
            }
        }
    }
    // 2. ddmin
    let mut n = 2usize;
    while cur.len() >= 2 && stats.replays < max_replays {
        let chunk = cur.len().div_ceil(n);
        let mut reduced = false;
        let mut start = 0;
        while start < cur.len() && stats.replays < max_replays {
            let end = (start + chunk).min(cur.len());
            let mut cand = Vec::with_capacity(cur.len() - (end - start));
            cand.extend_from_slice(&cur[..start]);
            cand.extend_from_slice(&cur[end..]);
            stats.replays += 1;
            if !cand.is_empty() && fails(plan, seed, &cand, target, tag, sweep) {
                cur = cand;
                reduced = true;
                // keep `start`: the next chunk moved into this position
            } else {
                start = end;
            }
        }
        if reduced {
            n = (n - 1).max(2);
        } else {
            if chunk == 1 {
                break;
            }
            n = (n * 2).min(cur.len());
        }
    }
    stats.to = cur.len();
    (cur, stats)
}
