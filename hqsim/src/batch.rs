//! Batches of runs across worker processes, merging, violation reporting, evidence.

use std::collections::{BTreeMap, BTreeSet};
use std::path::{Path, PathBuf};
use std::process::Command;
use std::time::Instant;

use serde::{Deserialize, Serialize};

use crate::genr::Profile;
use crate::oracles::Probes;
use crate::run::{ReplayFile, RunOptions, RunResult, run_seed};
use crate::sim::rng::mix;

pub const DEFAULT_SEED: u64 = 20260925;

pub struct PropertyConfig {
    pub id: &'static str,
    pub profiles: &'static [Profile],
    pub quick_runs: u64,
    pub thorough_runs: u64,
    /// a run is non-trivial for this property if one of these probes fired
    pub triggers: &'static [&'static str],
    pub rule: &'static str,
    pub force_journal: Option<bool>,
    /// crash-point sweep over the final journal in one of N runs
    pub sweep_one_in: Option<u32>,
    pub sweep_interior: u32,
}

pub fn cluster_properties() -> Vec<PropertyConfig> {
    use Profile::*;
    vec![
        PropertyConfig {
            id: "C01",
            profiles: &[General, Cancel, Kill, Fail, Dag, Retract, Client, Priority],
            quick_runs: 30_000,
            thorough_runs: 600_000,
            triggers: &["launches"],
            rule: "one run = seeded swarm configuration + workload + schedule on the cluster engine; non-trivial = at least one task was launched on a worker; distinct = distinct hash of the observable log (events, responses, wire messages, launches)",
            force_journal: None,
            sweep_one_in: None,
            sweep_interior: 0,
        },
        PropertyConfig {
            id: "C02",
            profiles: &[General, Kill, Retract, Dag, Client, Fail],
            // (a refusal that is never withdrawn needs a coincidence of about 1 run in 17 000)
            quick_runs: 60_000,
            thorough_runs: 600_000,
            triggers: &["quiescent_runs"],
            rule: "one run = faults then fair suffix; non-trivial = the run reached quiescence with at least one launch (liveness clause evaluated) ; distinct = distinct observable-log hash",
            force_journal: None,
            sweep_one_in: None,
            sweep_interior: 0,
        },
        PropertyConfig {
            id: "C03",
            profiles: &[Dag, Dag, Fail, Cancel, Restore, Restore],
            quick_runs: 30_000,
            thorough_runs: 600_000,
            triggers: &["dependent_aborted", "submit_on_dead_dependency"],
            rule: "DAG-heavy workloads; server restarts in the middle of the DAG (crash actions, and in one of 12 runs a sweep over every record boundary of the final journal: no dependent of a task whose failure/cancel is recorded may come back runnable); non-trivial = a dependent was aborted/canceled because of a dead dependency, or a dependent was submitted on a dead task",
            force_journal: None,
            sweep_one_in: Some(12),
            sweep_interior: 0,
        },
        PropertyConfig {
            id: "C04",
            profiles: &[Fail, Cancel, Kill, General, Retract],
            quick_runs: 16_000,
            thorough_runs: 600_000,
            triggers: &["launches"],
            rule: "worker part of C04: real worker state machines in cluster runs with launch failures, cancels, kills, time limits and prefilled backlogs; after every step the allocator snapshot of every worker is compared with the allocations of its running tasks (exclusive, exact, conserved: free + held == total, nothing stays taken when no task runs); non-trivial = at least one launch",
            force_journal: None,
            sweep_one_in: None,
            sweep_interior: 0,
        },
        PropertyConfig {
            id: "C05",
            profiles: &[General, Retract, Priority, Kill],
            quick_runs: 30_000,
            thorough_runs: 600_000,
            triggers: &["rounds_with_placements"],
            rule: "non-trivial = at least one scheduling round placed a task (per-round and per-step accounting oracles evaluated)",
            force_journal: None,
            sweep_one_in: None,
            sweep_interior: 0,
        },
        PropertyConfig {
            id: "C06",
            profiles: &[Retract, Retract, Kill, General, Restore],
            quick_runs: 30_000,
            thorough_runs: 600_000,
            triggers: &["retract_delivered", "redirect_decided", "restart_after_loss"],
            rule: "retract-heavy (reserve 0-1, several priorities, >=2 workers); non-trivial = a retract was delivered, a redirect decided, or a task restarted after a loss",
            force_journal: None,
            sweep_one_in: None,
            sweep_interior: 0,
        },
        PropertyConfig {
            id: "C07",
            profiles: &[Kill, Kill, General, Retract, Restore],
            quick_runs: 30_000,
            thorough_runs: 600_000,
            triggers: &["loss_with_running_task"],
            rule: "kill profile (1-4 losses, every reason, all crash limits); non-trivial = a worker was lost while the server had reported a task running on it",
            force_journal: None,
            sweep_one_in: None,
            sweep_interior: 0,
        },
        PropertyConfig {
            id: "C08",
            profiles: &[Cancel, Cancel, General, Retract],
            quick_runs: 30_000,
            thorough_runs: 600_000,
            triggers: &["cancel_effective"],
            rule: "cancel profile; non-trivial = a cancel request hit at least one non-terminal task",
            force_journal: None,
            sweep_one_in: None,
            sweep_interior: 0,
        },
        PropertyConfig {
            id: "C09",
            profiles: &[General, Cancel, Kill, Fail, Dag, Retract, Client, Priority, Restore, Prune],
            quick_runs: 36_000,
            thorough_runs: 1_000_000,
            triggers: &["launches"],
            rule: "union of all profiles (including server restarts from the journal and prunes); every call into repository code runs under catch_unwind; non-trivial = at least one launch",
            force_journal: None,
            sweep_one_in: None,
            sweep_interior: 0,
        },
        PropertyConfig {
            id: "C15",
            // (the cancel profile adds workers that have just refused a request; an inversion on
            // such a worker needs about 1 run in 13 000)
            profiles: &[Priority, Priority, Priority, General, Cancel],
            quick_runs: 72_000,
            thorough_runs: 600_000,
            triggers: &["c15_rounds_with_dispatch_and_leftover"],
            rule: "priority profile (<=3 worker shapes, single-variant single-node classes, 2-4 priority levels, workers made partly busy by the preceding history); the statement is evaluated literally on every scheduling round whose ready queue is inside the property's domain (no multi-node / multi-variant request ready, <= 8 levels, solve reported optimal, no prefilled/retracting task); non-trivial = a round dispatched something and left something ready; violations are grouped by shape class w<#workers<=3>-c<#classes<=3>-het|hom-busy|idle",
            force_journal: None,
            sweep_one_in: None,
            sweep_interior: 0,
        },
        PropertyConfig {
            id: "C10",
            profiles: &[Restore, Restore, Restore, Prune],
            quick_runs: 30_000,
            thorough_runs: 600_000,
            triggers: &["restarts", "journal_cuts_checked"],
            rule: "journals produced by the real server in cluster runs; per run 1-3 crashes at seeded steps with a seeded cut in [last sync, bytes at the OS] (record boundary or torn record), plus a restart from the complete journal at the end of every run, plus - in one of 40 runs - a sweep over every record boundary and 2 seeded interior bytes per record of the final journal (fault enumeration along that history); oracle = independent reference fold of the surviving records vs the restarted State/core; non-trivial = at least one restart was compared; distinct = observable-log hash",
            force_journal: Some(true),
            sweep_one_in: Some(40),
            sweep_interior: 2,
        },
        PropertyConfig {
            id: "C11",
            profiles: &[Restore, Restore, Prune, Kill],
            quick_runs: 30_000,
            thorough_runs: 600_000,
            triggers: &["restarts"],
            rule: "same runs as C10 (1-3 restarts per run, allocation-queue create/remove records injected through the real EventStreamer); oracle = id counters after the restart vs every id the surviving journal mentions, ids actually issued afterwards vs the same set, server uid unchanged; non-trivial = at least one restart",
            force_journal: Some(true),
            sweep_one_in: None,
            sweep_interior: 0,
        },
        PropertyConfig {
            id: "C12",
            profiles: &[Prune, Prune, Prune, Restore],
            quick_runs: 30_000,
            thorough_runs: 600_000,
            triggers: &["prunes"],
            rule: "real PruneJournal request (real handle_prune_journal + real streaming_process prune branch: tmp file, rename, reopen) at seeded steps; metamorphic oracle: restart(journal before the prune) == restart(pruned journal) on unfinished jobs, task outcomes, pending tasks with dependencies / next instance id / crash count, queues; the run continues (append, prune again, crash, final restart); non-trivial = at least one prune executed",
            force_journal: Some(true),
            sweep_one_in: None,
            sweep_interior: 0,
        },
        PropertyConfig {
            id: "C13",
            profiles: &[Client, Client, General, Cancel],
            quick_runs: 30_000,
            thorough_runs: 600_000,
            triggers: &["submit_ok"],
            rule: "client-heavy profile (open/submit/close/cancel/forget mixes, submit --wait, journal mostly on); non-trivial = at least one accepted submit",
            force_journal: None,
            sweep_one_in: None,
            sweep_interior: 0,
        },
        PropertyConfig {
            id: "C14",
            profiles: &[Fail, Fail, General],
            quick_runs: 30_000,
            thorough_runs: 600_000,
            triggers: &["max_fails_tripped"],
            rule: "fail profile (max_fails 0..2, 20-60% failing tasks, launch failures); non-trivial = the failure limit of some job was exceeded",
            force_journal: None,
            sweep_one_in: None,
            sweep_interior: 0,
        },
    ]
}

#[derive(Debug, Clone, Serialize, Deserialize)]
pub struct RunSummary {
    pub index: u64,
    pub seed: u64,
    pub profile: Profile,
    pub log_hash: u64,
    pub steps: u64,
    pub sim_ms: u64,
    pub nontrivial: bool,
    pub fault_free: bool,
    pub panic: bool,
    pub quiescent: bool,
    pub suffix_steps: u64,
    /// (property, signature, message, step)
    pub findings: Vec<(String, String, String, u64)>,
}

#[derive(Debug, Clone, Serialize, Deserialize, Default)]
pub struct ShardOutput {
    pub runs: Vec<RunSummary>,
    pub probes: BTreeMap<String, u64>,
    pub faults: BTreeMap<String, u64>,
    pub abstract_states: Vec<u64>,
    pub policies: BTreeMap<String, u64>,
}

pub fn run_seed_for(verif_seed: u64, property: &str, profile: Profile, index: u64) -> u64 {
    let pid: u64 = property.bytes().fold(0u64, |a, b| a * 131 + b as u64);
    mix(&[verif_seed, 1 /* engine: cluster */, pid, profile as u64, index])
}

pub fn run_shard(
    cfg: &PropertyConfig,
    verif_seed: u64,
    from: u64,
    n: u64,
    stride: u64,
    tag: &str,
) -> ShardOutput {
    let mut out = ShardOutput::default();
    let mut states: BTreeSet<u64> = BTreeSet::new();
    let mut i = from;
    let mut done = 0;
    // the shard leaves a note about the run it is executing: if the process dies (abort, stack
    // overflow, kill) the parent can say which run it was
    let progress = std::env::var_os("HQSIM_PROGRESS_FILE").map(std::path::PathBuf::from);
    while done < n {
        let profile = cfg.profiles[(i % cfg.profiles.len() as u64) as usize];
        let seed = run_seed_for(verif_seed, cfg.id, profile, i);
        if let Some(p) = &progress {
            let _ = std::fs::write(p, format!("index={i} seed={seed} profile={}", profile.name()));
        }
        let r = run_seed(
            seed,
            profile,
            &RunOptions {
                verbose: false,
                tag: tag.to_string(),
                force_journal: cfg.force_journal,
                sweep_one_in: cfg.sweep_one_in,
                sweep_interior: cfg.sweep_interior,
            },
        );
        out.runs.push(summarize(&r, i, cfg));
        for (k, v) in &r.probes.0 {
            *out.probes.entry(k.clone()).or_default() += v;
        }
        for (k, v) in &r.faults {
            *out.faults.entry(k.clone()).or_default() += v;
        }
        if let Some(p) = &r.plan {
            *out.policies.entry(format!("{:?}", p.policy)).or_default() += 1;
        }
        states.extend(r.abstract_states.iter());
        i += stride;
        done += 1;
    }
    out.abstract_states = states.into_iter().collect();
    out
}

fn summarize(r: &RunResult, index: u64, cfg: &PropertyConfig) -> RunSummary {
    let mut seen = BTreeSet::new();
    let mut findings = Vec::new();
    for f in &r.findings {
        if seen.insert((f.property, f.signature())) {
            findings.push((
                f.property.to_string(),
                f.signature(),
                f.message.clone(),
                f.step,
            ));
        }
    }
    RunSummary {
        index,
        seed: r.seed,
        profile: r.profile,
        log_hash: r.log_hash,
        steps: r.steps + r.suffix_steps,
        sim_ms: r.sim_ms,
        nontrivial: cfg.triggers.iter().any(|t| r.probes.get(t) > 0) && r.probes.get("launches") > 0,
        // (the runs of the journal properties all end with an injected restart)
        fault_free: r.fault_free && cfg.force_journal != Some(true),
        panic: r.aborted_by_panic,
        quiescent: r.quiescent,
        suffix_steps: r.suffix_steps,
        findings,
    }
}

/* ---------------------------------------------------------------------------------------- */
/* Known findings                                                                           */
/* ---------------------------------------------------------------------------------------- */

#[derive(Debug, Clone)]
pub struct KnownFinding {
    pub property: String,
    pub signature: String,
    pub text: String,
}

/// `*` in a known signature matches any run of characters (used for families of shapes)
pub fn signature_matches(pattern: &str, signature: &str) -> bool {
    if !pattern.contains('*') {
        return pattern == signature;
    }
    let parts: Vec<&str> = pattern.split('*').collect();
    let mut rest = signature;
    for (i, part) in parts.iter().enumerate() {
        if i == 0 {
            if !rest.starts_with(part) {
                return false;
            }
            rest = &rest[part.len()..];
        } else if i == parts.len() - 1 {
            return rest.ends_with(part);
        } else {
            match rest.find(part) {
                Some(pos) => rest = &rest[pos + part.len()..],
                None => return false,
            }
        }
    }
    true
}

pub fn load_known_findings(path: &Path) -> Vec<KnownFinding> {
    let Ok(s) = std::fs::read_to_string(path) else {
        return Vec::new();
    };
    let mut out = Vec::new();
    for line in s.lines() {
        let line = line.trim();
        let Some(rest) = line.strip_prefix("known:") else {
            continue;
        };
        let mut property = None;
        let mut signature = None;
        let mut text = Vec::new();
        for tok in rest.split_whitespace() {
            if let Some(p) = tok.strip_prefix("property=") {
                property = Some(p.to_string());
            } else if let Some(s) = tok.strip_prefix("signature=") {
                signature = Some(s.to_string());
            } else {
                text.push(tok);
            }
        }
        if let (Some(property), Some(signature)) = (property, signature) {
            out.push(KnownFinding {
                property,
                signature,
                text: text.join(" "),
            });
        }
    }
    out
}

/* ---------------------------------------------------------------------------------------- */
/* Check                                                                                    */
/* ---------------------------------------------------------------------------------------- */

pub struct CheckArgs {
    pub property: String,
    pub tier: String,
    pub seed: u64,
    pub jobs: u64,
    pub runs_override: Option<u64>,
    pub verif_dir: PathBuf,
}

pub fn write_json(path: &Path, v: &serde_json::Value) {
    if let Some(p) = path.parent() {
        let _ = std::fs::create_dir_all(p);
    }
    let tmp = path.with_extension("json.tmp");
    std::fs::write(&tmp, serde_json::to_string_pretty(v).unwrap()).unwrap();
    std::fs::rename(&tmp, path).unwrap();
}

/// Runs the batch for one cluster property. Returns the process exit code.
pub fn check_cluster(args: &CheckArgs) -> i32 {
    let props = cluster_properties();
    let Some(cfg) = props.iter().find(|p| p.id == args.property) else {
        eprintln!("unknown cluster property {}", args.property);
        return 2;
    };
    let start = Instant::now();
    let total = args.runs_override.unwrap_or(if args.tier == "thorough" {
        cfg.thorough_runs
    } else {
        cfg.quick_runs
    });
    let jobs = args.jobs.max(1).min(total.max(1));
    let exe = std::env::current_exe().unwrap();
    let scratch = crate::run::scratch_dir("shards");
    std::fs::create_dir_all(&scratch).unwrap();
    let mut children = Vec::new();
    for j in 0..jobs {
        let n = total / jobs + if j < total % jobs { 1 } else { 0 };
        let out = scratch.join(format!("shard{j}.json"));
        let child = Command::new(&exe)
            .arg("shard")
            .arg("--property")
            .arg(cfg.id)
            .arg("--seed")
            .arg(args.seed.to_string())
            .arg("--from")
            .arg(j.to_string())
            .arg("--n")
            .arg(n.to_string())
            .arg("--stride")
            .arg(jobs.to_string())
            .arg("--out")
            .arg(&out)
            .env("HQSIM_PROGRESS_FILE", out.with_extension("progress"))
            .spawn();
        match child {
            Ok(c) => children.push((c, out)),
            Err(e) => {
                eprintln!("cannot start shard: {e}");
                return 2;
            }
        }
    }
    let mut runs: Vec<RunSummary> = Vec::new();
    let mut probes = Probes::default();
    let mut faults: BTreeMap<String, u64> = BTreeMap::new();
    let mut policies: BTreeMap<String, u64> = BTreeMap::new();
    let mut states: BTreeSet<u64> = BTreeSet::new();
    // Wait for the shards. A shard whose progress note does not change for a long time is stuck
    // inside one run (the code under test does not return): it is killed, the run is reported
    // as a violation (`hang@<profile>`), the rest of its runs is lost.
    let hang_secs: u64 = std::env::var("HQSIM_HANG_SECS")
        .ok()
        .and_then(|v| v.parse().ok())
        .unwrap_or(180);
    let mut hangs: Vec<(u64, u64, String)> = Vec::new();
    let mut finished: Vec<(PathBuf, bool)> = Vec::new();
    {
        let mut live: Vec<(std::process::Child, PathBuf, String, std::time::Instant)> = children
            .into_iter()
            .map(|(c, out)| (c, out, String::new(), std::time::Instant::now()))
            .collect();
        while !live.is_empty() {
            let mut i = 0;
            while i < live.len() {
                let (c, out, note, since) = &mut live[i];
                match c.try_wait() {
                    Ok(Some(status)) => {
                        if !status.success() {
                            let at = std::fs::read_to_string(out.with_extension("progress"))
                                .unwrap_or_default();
                            eprintln!(
                                "HARNESS-ERROR: a shard process failed ({}): {:?}; it was executing run {at}",
                                out.display(),
                                status
                            );
                            for (c, _, _, _) in live.iter_mut() {
                                let _ = c.kill();
                                let _ = c.wait();
                            }
                            let _ = std::fs::remove_dir_all(&scratch);
                            return 2;
                        }
                        finished.push((out.clone(), true));
                        live.remove(i);
                        continue;
                    }
                    Ok(None) => {
                        let now_note = std::fs::read_to_string(out.with_extension("progress"))
                            .unwrap_or_default();
                        if now_note != *note {
                            *note = now_note;
                            *since = std::time::Instant::now();
                        } else if since.elapsed().as_secs() > hang_secs && !note.is_empty() {
                            let _ = c.kill();
                            let _ = c.wait();
                            let field = |k: &str| -> String {
                                note.split_whitespace()
                                    .find_map(|t| t.strip_prefix(&format!("{k}=")))
                                    .unwrap_or("")
                                    .to_string()
                            };
                            hangs.push((
                                field("index").parse().unwrap_or(0),
                                field("seed").parse().unwrap_or(0),
                                field("profile"),
                            ));
                            finished.push((out.clone(), false));
                            live.remove(i);
                            continue;
                        }
                    }
                    Err(_) => {}
                }
                i += 1;
            }
            std::thread::sleep(std::time::Duration::from_millis(200));
        }
    }
    finished.sort();
    for (out, complete) in finished {
        if !complete {
            continue;
        }
        let Ok(text) = std::fs::read_to_string(&out) else {
            eprintln!("HARNESS-ERROR: shard output missing");
            return 2;
        };
        let shard: ShardOutput = match serde_json::from_str(&text) {
            Ok(s) => s,
            Err(e) => {
                eprintln!("HARNESS-ERROR: cannot parse shard output: {e}");
                return 2;
            }
        };
        runs.extend(shard.runs);
        for (k, v) in shard.probes {
            probes.add(&k, v);
        }
        for (k, v) in shard.faults {
            *faults.entry(k).or_default() += v;
        }
        for (k, v) in shard.policies {
            *policies.entry(k).or_default() += v;
        }
        states.extend(shard.abstract_states);
    }
    let _ = std::fs::remove_dir_all(crate::run::scratch_dir(""));
    runs.sort_by_key(|r| r.index);

    // ---- verdict
    let known = load_known_findings(&args.verif_dir.join("known_findings.txt"));
    let mut harness_errors = 0;
    // signature -> (count, first run)
    let mut by_sig: BTreeMap<String, (u64, RunSummary, String)> = BTreeMap::new();
    let mut other_props: BTreeMap<String, u64> = BTreeMap::new();
    for r in &runs {
        for (p, sig, msg, _step) in &r.findings {
            if p == "HARNESS" {
                harness_errors += 1;
                eprintln!("HARNESS-ERROR: {sig}: {msg} (seed {})", r.seed);
            } else if p == cfg.id {
                let e = by_sig
                    .entry(sig.clone())
                    .or_insert((0, r.clone(), msg.clone()));
                e.0 += 1;
            } else {
                *other_props.entry(format!("{p} {sig}")).or_default() += 1;
            }
        }
    }
    let mut exit = 0;
    let mut known_hit: Vec<String> = Vec::new();
    let mut violations: Vec<serde_json::Value> = Vec::new();
    hangs.sort();
    let mut watchdog_not_reproduced = 0u64;
    let mut hang_sigs: BTreeSet<String> = BTreeSet::new();
    for (index, seed, profile) in &hangs {
        let sig = format!("hang@{profile}");
        if !hang_sigs.insert(sig.clone()) {
            continue;
        }
        if let Some(k) = known
            .iter()
            .find(|k| k.property == cfg.id && signature_matches(&k.signature, &sig))
        {
            println!(
                "KNOWN-FINDING: property={} signature={} {} (run index {index})",
                cfg.id, sig, k.text
            );
            known_hit.push(sig.clone());
            continue;
        }
        let path = args
            .verif_dir
            .join("replays")
            .join(format!("{}-{}-hang_{}.json", cfg.id, seed, profile));
        let msg = format!(
            "run {index} (seed {seed}, profile {profile}) did not return within {hang_secs} s: the code under test hangs (other runs take well under a second)"
        );
        write_json(
            &path,
            &serde_json::json!({
                "engine": "cluster", "kind": "hang", "property": cfg.id,
                "verif_seed": args.seed, "index": index, "seed": seed, "profile": profile,
                "signature": format!("{} {}", cfg.id, sig), "message": msg,
            }),
        );
        let code = std::process::Command::new(&exe)
            .arg("replay")
            .arg(&path)
            .status()
            .ok()
            .and_then(|s| s.code());
        if code != Some(1) {
            // The watchdog measures wall clock. A shard that got no processor for that long (an
            // overloaded machine) looks like a hang; the run then returns at once in a fresh
            // process. That is not a finding about the code under test.
            eprintln!(
                "NOTE: run {index} exceeded the watchdog ({hang_secs} s of wall clock) but returns in a fresh process: overloaded machine, not a finding (the rest of its shard was not run)"
            );
            let _ = std::fs::remove_file(&path);
            hang_sigs.remove(&sig);
            watchdog_not_reproduced += 1;
            continue;
        }
        println!("finding {} {}: {}", cfg.id, sig, msg);
        println!("VIOLATION property={} replay={}", cfg.id, path.display());
        violations.push(serde_json::json!({"signature": sig, "runs": hangs.len(), "replay": path.display().to_string()}));
        exit = 1;
    }
    for (sig, (count, first, msg)) in &by_sig {
        if let Some(k) = known
            .iter()
            .find(|k| k.property == cfg.id && signature_matches(&k.signature, sig))
        {
            println!(
                "KNOWN-FINDING: property={} signature={} {} ({} runs, e.g. seed {})",
                cfg.id, sig, k.text, count, first.seed
            );
            known_hit.push(sig.clone());
            continue;
        }
        // a new violation: reproduce, minimise, store, replay in a fresh process
        let target = format!("{} {}", cfg.id, sig);
        let path = report_violation(args, cfg, first, &target, msg);
        match path {
            Ok(p) => {
                println!("VIOLATION property={} replay={}", cfg.id, p.display());
                println!("  signature={sig} runs={count} first_seed={} : {msg}", first.seed);
                violations.push(serde_json::json!({"signature": sig, "runs": count, "seed": first.seed, "replay": p, "message": msg}));
                exit = 1;
            }
            Err(e) => {
                eprintln!("HARNESS-ERROR: cannot reproduce {target} from seed {}: {e}", first.seed);
                harness_errors += 1;
            }
        }
    }

    // ---- evidence
    let wall = start.elapsed().as_secs_f64();
    let nontrivial: Vec<&RunSummary> = runs.iter().filter(|r| r.nontrivial).collect();
    let distinct_nontrivial: BTreeSet<u64> = nontrivial.iter().map(|r| r.log_hash).collect();
    let distinct_all: BTreeSet<u64> = runs.iter().map(|r| r.log_hash).collect();
    let samples: Vec<serde_json::Value> = sample_traces(args, cfg, &runs);
    let sim_ms: u64 = runs.iter().map(|r| r.sim_ms).sum();
    let steps: u64 = runs.iter().map(|r| r.steps).sum();
    let evidence = serde_json::json!({
        "property_id": cfg.id,
        "tier": if args.tier == "thorough" { "thorough" } else { "quick" },
        "seed": args.seed,
        "level": "exploration",
        "coverage": {
            "evaluations": runs.len(),
            "distinct_nontrivial": distinct_nontrivial.len(),
            "rule": cfg.rule,
            "samples": samples,
            "distinct_observable_logs": distinct_all.len(),
            "log_digest": format!("{:016x}", crate::sim::rng::mix(&runs.iter().map(|r| r.log_hash).collect::<Vec<u64>>())),
            "nontrivial_runs": nontrivial.len(),
            "runs_per_hour": (runs.len() as f64 / wall * 3600.0) as u64,
            "seeds": {"verif_seed": args.seed, "first_run_seed": runs.first().map(|r| r.seed), "last_run_seed": runs.last().map(|r| r.seed)},
            "steps_total": steps,
            "simulated_time_s": sim_ms / 1000,
            "faults_injected": faults,
            "probes": probes.0,
            "distinct_abstract_states": states.len(),
            "abstract_state_measure": "hash of (multiset of task runtime states, per-worker assignment shape and blocked-request count, number of redirects, queue lengths of every link capped at 3, worker phase)",
            "schedulers_used": policies,
            "watchdog_expiries_not_reproduced_in_a_fresh_process": watchdog_not_reproduced,
            "fault_free_runs": runs.iter().filter(|r| r.fault_free).count(),
            "faulty_runs": runs.iter().filter(|r| !r.fault_free).count(),
            "aborted_by_panic": runs.iter().filter(|r| r.panic).count(),
            "quiescent_runs": runs.iter().filter(|r| r.quiescent).count(),
            "liveness_bound_steps_max": runs.iter().map(|r| r.suffix_steps).max().unwrap_or(0),
            "components": components(),
            "known_findings_hit": known_hit,
            "findings_of_other_properties_seen": other_props,
            "violations_detail": violations,
        },
        "assumptions": [
            "server<->worker and client<->server transports are TCP: per-connection FIFO, no loss/duplication/reordering inside a live connection (only delay, interleaving, connection loss)",
            "panic observation uses release semantics (debug assertions and overflow checks off), as in the shipped binary",
            "glue mirrored from socket-bound code (worker registration, scheduler loop timing, run_worker shutdown paths) is a stub, see components.stub",
            "sampling, not proof: a clean batch is evidence for the explored schedules only"
        ],
        "wall_s": wall,
        "violations": violations.len(),
    });
    write_json(
        &args.verif_dir.join("evidence").join(format!("{}.json", cfg.id)),
        &evidence,
    );
    println!(
        "{}: {} runs ({} non-trivial, {} distinct), {} steps, {} simulated s, {} abstract states, log digest {:016x}, {:.1}s wall; violations={} known={} harness_errors={}",
        cfg.id,
        runs.len(),
        nontrivial.len(),
        distinct_nontrivial.len(),
        steps,
        sim_ms / 1000,
        states.len(),
        crate::sim::rng::mix(&runs.iter().map(|r| r.log_hash).collect::<Vec<u64>>()),
        wall,
        violations.len(),
        known_hit.len(),
        harness_errors
    );
    if harness_errors > 0 {
        return 2;
    }
    exit
}

pub fn components() -> serde_json::Value {
    serde_json::json!({
        "real": [
            "tako Core, reactor.rs (on_new_worker/on_remove_worker/on_new_tasks/on_task_update/on_retract_response/on_cancel_tasks)",
            "TaskQueues, create_task_batches, run_scheduling_solver (HiGHS MILP), create_task_mapping, send_messages",
            "CommSender (real serialised ToWorkerMessage bytes), ServerRef API, worker_receive_loop",
            "HQ State, Job, UpstreamEventProcessor, client_rpc_loop with submit/cancel/close/forget/open/info/detail/stop-worker/prune/flush handlers, EventStreamer",
            "JournalWriter + streaming_process on a scratch file (when the journal is enabled)",
            "per worker: WorkerState, worker_message_loop, process_worker_message, compute_tasks, prefill_loop, handle_task_future, retract_tasks, cancel_task, retract_check_process, ResourceAllocator, pools, group_solver",
            "AutoAllocState for allocation queues (create, restore, remove, ids) and, in a quarter of the runs, the autoalloc scheduling pass (perform_submits -> compute_new_worker_query against the run's core; every submission is refused by a null batch system)"
        ],
        "stub": [
            "TCP, framing, encryption, authentication (replaced by FIFO queues of the same bytes)",
            "worker registration glue (mirrors rpc.rs worker_rpc_loop registration block), worker removal tail (mirrors worker_rpc_loop after select!)",
            "scheduler_loop timing (a scheduling round is an explicit simulator action with injected now)",
            "run_worker select loop, heartbeats, overview/HW sampling, shutdown paths (mirrored: time limit, Stop, connection loss)",
            "server-side heartbeat/idle-timeout timers (their effects are injected as loss reasons)",
            "TaskLauncher and the program it would run (fake launcher honouring StopReason)",
            "autoalloc service behind senders.autoalloc (worker connect/loss and job-submit notifications are dropped into an unpolled queue), autoalloc_process select loop, batch system"
        ]
    })
}

fn report_violation(
    args: &CheckArgs,
    cfg: &PropertyConfig,
    first: &RunSummary,
    target: &str,
    msg: &str,
) -> Result<PathBuf, String> {
    let r = run_seed(
        first.seed,
        first.profile,
        &RunOptions {
            verbose: false,
            tag: "report".into(),
            force_journal: cfg.force_journal,
            sweep_one_in: cfg.sweep_one_in,
            sweep_interior: cfg.sweep_interior,
        },
    );
    if r.log_hash != first.log_hash {
        return Err("re-execution of the seed produced a different observable log".into());
    }
    let plan = r.plan.clone().unwrap();
    let (actions, stats) = crate::shrink::shrink(
        &plan,
        first.seed,
        &r.trace,
        target,
        "shrink",
        600,
        (cfg.sweep_one_in, cfg.sweep_interior),
    );
    // final recorded execution of the minimised list
    let rr = crate::run::replay_actions(
        &plan,
        first.seed,
        &actions,
        &RunOptions {
            verbose: false,
            tag: "report".into(),
            force_journal: None,
            sweep_one_in: cfg.sweep_one_in,
            sweep_interior: cfg.sweep_interior,
        },
        None,
    );
    let reproduced = rr
        .findings
        .iter()
        .any(|f| format!("{} {}", f.property, f.signature()) == target);
    let (actions, rr, minimised) = if reproduced {
        (actions, rr, stats.to < stats.from)
    } else {
        // fall back to the unminimised trace
        let rr = crate::run::replay_actions(
            &plan,
            first.seed,
            &r.trace,
            &RunOptions {
                verbose: false,
                tag: "report".into(),
                force_journal: None,
                sweep_one_in: cfg.sweep_one_in,
                sweep_interior: cfg.sweep_interior,
            },
            None,
        );
        if !rr
            .findings
            .iter()
            .any(|f| format!("{} {}", f.property, f.signature()) == target)
        {
            return Err("the recorded action list does not reproduce the violation".into());
        }
        (r.trace.clone(), rr, false)
    };
    let message = rr
        .findings
        .iter()
        .find(|f| format!("{} {}", f.property, f.signature()) == target)
        .map(|f| f.message.clone())
        .unwrap_or_else(|| msg.to_string());
    let file = ReplayFile {
        engine: "cluster".into(),
        property: cfg.id.to_string(),
        seed: first.seed,
        plan,
        actions,
        signature: target.to_string(),
        message,
        log_hash: format!("{:016x}", rr.log_hash),
        minimised,
        sweep_one_in: cfg.sweep_one_in,
        sweep_interior: cfg.sweep_interior,
    };
    let dir = args.verif_dir.join("replays");
    std::fs::create_dir_all(&dir).map_err(|e| e.to_string())?;
    let sig_tag: String = target
        .chars()
        .map(|c| if c.is_ascii_alphanumeric() { c } else { '_' })
        .collect();
    let path = dir.join(format!("{}-{}-{}.json", cfg.id, first.seed, &sig_tag[..sig_tag.len().min(60)]));
    std::fs::write(&path, serde_json::to_string_pretty(&file).unwrap()).map_err(|e| e.to_string())?;
    // replay in a fresh process: must fail identically
    let exe = std::env::current_exe().unwrap();
    let out = Command::new(exe)
        .arg("replay")
        .arg(&path)
        .output()
        .map_err(|e| e.to_string())?;
    if out.status.code() != Some(1) {
        return Err(format!(
            "fresh-process replay of {} did not reproduce the violation (exit {:?})",
            path.display(),
            out.status.code()
        ));
    }
    Ok(path)
}

fn sample_traces(args: &CheckArgs, cfg: &PropertyConfig, runs: &[RunSummary]) -> Vec<serde_json::Value> {
    let mut out = Vec::new();
    for r in runs.iter().filter(|r| r.nontrivial).take(2) {
        let rr = run_seed(
            r.seed,
            r.profile,
            &RunOptions {
                verbose: false,
                tag: "sample".into(),
                force_journal: cfg.force_journal,
                sweep_one_in: cfg.sweep_one_in,
                sweep_interior: cfg.sweep_interior,
            },
        );
        let plan = rr.plan.as_ref().unwrap();
        let actions: Vec<String> = rr.trace.iter().take(60).map(|a| format!("{a:?}")).collect();
        out.push(serde_json::json!({
            "seed": r.seed,
            "profile": plan.profile.name(),
            "policy": format!("{:?}", plan.policy),
            "workers": plan.cluster.workers,
            "scheduler_knobs": {"reserve": plan.cluster.proactive_filling_reserve, "max": plan.cluster.proactive_filling_max},
            "journal": plan.cluster.journal,
            "steps": rr.steps,
            "first_actions": actions,
            "probes": rr.probes.0,
        }));
    }
    let _ = args;
    out
}

/// Replays a file; exit 1 and the VIOLATION line if it reproduces its recorded violation with
/// the recorded observable log, exit 0 if the violation no longer occurs, exit 2 on divergence.
/// A run that did not return: executed again (same VERIF_SEED, property and index, hence the
/// same seed) in a child process under a time limit.
fn replay_hang(path: &Path, v: &serde_json::Value) -> i32 {
    let get = |k: &str| v.get(k).cloned().unwrap_or(serde_json::Value::Null);
    let (Some(property), Some(verif_seed), Some(index)) = (
        get("property").as_str().map(|s| s.to_string()),
        get("verif_seed").as_u64(),
        get("index").as_u64(),
    ) else {
        eprintln!("malformed hang replay file");
        return 2;
    };
    let limit: u64 = std::env::var("HQSIM_HANG_REPLAY_SECS")
        .ok()
        .and_then(|v| v.parse().ok())
        .unwrap_or(60);
    let out = std::env::temp_dir().join(format!("hqsim-hang-replay-{}.json", std::process::id()));
    let Ok(mut child) = std::process::Command::new(std::env::current_exe().unwrap())
        .arg("shard")
        .arg("--property")
        .arg(&property)
        .arg("--seed")
        .arg(verif_seed.to_string())
        .arg("--from")
        .arg(index.to_string())
        .arg("--n")
        .arg("1")
        .arg("--stride")
        .arg("1")
        .arg("--out")
        .arg(&out)
        .spawn()
    else {
        return 2;
    };
    let start = std::time::Instant::now();
    loop {
        match child.try_wait() {
            Ok(Some(status)) => {
                let _ = std::fs::remove_file(&out);
                println!(
                    "run {index} of {property} returned after {:.1} s ({status:?}): the recorded hang does not occur",
                    start.elapsed().as_secs_f64()
                );
                return 0;
            }
            Ok(None) if start.elapsed().as_secs() > limit => {
                let _ = child.kill();
                let _ = child.wait();
                let _ = std::fs::remove_file(&out);
                println!(
                    "run {index} of {property} (seed {}) did not return within {limit} s",
                    get("seed")
                );
                println!("VIOLATION property={property} replay={}", path.display());
                return 1;
            }
            _ => std::thread::sleep(std::time::Duration::from_millis(100)),
        }
    }
}

pub fn replay_file(path: &Path, verbose: bool) -> i32 {
    let text = match std::fs::read_to_string(path) {
        Ok(t) => t,
        Err(e) => {
            eprintln!("cannot read {}: {e}", path.display());
            return 2;
        }
    };
    if let Ok(v) = serde_json::from_str::<serde_json::Value>(&text)
        && v.get("kind").and_then(|k| k.as_str()) == Some("hang")
    {
        return replay_hang(path, &v);
    }
    let file: ReplayFile = match serde_json::from_str(&text) {
        Ok(f) => f,
        Err(e) => {
            eprintln!("cannot parse {}: {e}", path.display());
            return 2;
        }
    };
    let r = crate::run::replay(
        &file,
        &RunOptions {
            verbose,
            tag: "replay".into(),
            force_journal: None,
            sweep_one_in: None,
            sweep_interior: 0,
        },
    );
    let hit = r
        .findings
        .iter()
        .find(|f| format!("{} {}", f.property, f.signature()) == file.signature);
    for f in &r.findings {
        println!("FINDING {} {} step={} : {}", f.property, f.signature(), f.step, f.message);
    }
    match hit {
        Some(f) => {
            let same_log = format!("{:016x}", r.log_hash) == file.log_hash;
            println!(
                "VIOLATION property={} replay={}",
                file.property,
                path.display()
            );
            println!("  {} (log hash {} {})", f.message, format!("{:016x}", r.log_hash), if same_log { "== recorded" } else { "!= recorded" });
            1
        }
        None => {
            println!("replay of {} did not reproduce {}", path.display(), file.signature);
            0
        }
    }
}
