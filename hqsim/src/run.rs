//! One simulated run of the cluster engine: seeded or replayed.

use std::collections::BTreeSet;
use std::path::PathBuf;

use hyperqueue::transfer::messages::{SubmitResponse, ToClientMessage};
use serde::{Deserialize, Serialize};

use crate::engines::cluster::{StepObs, World, WorkerPhase};
use crate::genr::*;
use crate::model::Finding;
use crate::oracles::{Checker, Probes, payload_digest};
use crate::sim::rng::{Rng, mix};
use crate::spec::*;

#[derive(Debug, Clone, Serialize, Deserialize)]
pub struct ReplayFile {
    pub engine: String,
    pub property: String,
    pub seed: u64,
    pub plan: RunPlan,
    pub actions: Vec<Action>,
    /// signature of the violation this file reproduces
    pub signature: String,
    pub message: String,
    /// hash of the observable log of the recorded execution
    pub log_hash: String,
    pub minimised: bool,
    /// crash-point sweep settings of the check that produced the file
    #[serde(default)]
    pub sweep_one_in: Option<u32>,
    #[serde(default)]
    pub sweep_interior: u32,
}

#[derive(Debug, Clone, Serialize)]
pub struct RunResult {
    pub seed: u64,
    pub profile: Profile,
    pub steps: u64,
    pub suffix_steps: u64,
    pub sim_ms: u64,
    pub quiescent: bool,
    pub findings: Vec<Finding>,
    pub probes: Probes,
    pub log_hash: u64,
    pub trace_hash: u64,
    pub aborted_by_panic: bool,
    pub faults: std::collections::BTreeMap<String, u64>,
    pub abstract_states: BTreeSet<u64>,
    pub n_tasks: usize,
    pub n_jobs: usize,
    pub fault_free: bool,
    #[serde(skip)]
    pub trace: Vec<Action>,
    #[serde(skip)]
    pub plan: Option<RunPlan>,
}

pub struct Driver {
    pub world: World,
    pub checker: Checker,
    pub trace: Vec<Action>,
    pub know: Knowledge,
    pub log_hash: u64,
    pub faults: std::collections::BTreeMap<String, u64>,
    pub abstract_states: BTreeSet<u64>,
    pub verbose: bool,
    pub ops_done: u32,
    pub cancel_pending: bool,
}

pub fn scratch_dir(tag: &str) -> PathBuf {
    let base = if std::path::Path::new("/dev/shm").is_dir() {
        PathBuf::from("/dev/shm")
    } else {
        PathBuf::from("/verif/.scratch")
    };
    base.join(format!("hqsim.{}", std::process::id())).join(tag)
}

impl Driver {
    pub fn new(plan: &RunPlan, tag: &str, verbose: bool) -> Self {
        Driver {
            world: World::new(plan.cluster.clone(), scratch_dir(tag)),
            checker: Checker::new(),
            trace: Vec::new(),
            know: Knowledge::default(),
            log_hash: 0,
            faults: Default::default(),
            abstract_states: BTreeSet::new(),
            verbose,
            ops_done: 0,
            cancel_pending: false,
        }
    }

    fn note(&mut self, s: &str) {
        let mut h = self.log_hash;
        for b in s.as_bytes() {
            h = mix(&[h, *b as u64]);
        }
        self.log_hash = mix(&[h, s.len() as u64]);
    }

    /// Executes one action, feeds the oracles. Returns false if the action was not enabled.
    pub fn step(&mut self, action: &Action) -> bool {
        if let Action::ClientSend { c, op } = action {
            // only if it is going to be executed
            let ok = self
                .world
                .clients
                .get(c)
                .is_some_and(|cl| !cl.closed && cl.outstanding.is_none());
            if ok {
                self.checker.before_client_op(*c, op);
            }
        }
        if let Ok(at) = std::env::var("HQSIM_DUMP_AT")
            && at.parse::<u64>().ok() == Some(self.world.step.get() + 1)
            && let Some(core) = self.world.core_snapshot()
        {
            println!("--- core before step {at}");
            for t in &core.tasks {
                println!("  task {} {:?} rq={} inst={} crash={} deps={:?}", t.id, t.state, t.resource_rq_id, t.instance_id, t.crash_counter, t.deps);
            }
            for w in &core.workers {
                println!("  worker {} {:?} blocked={:?} stop={:?}", w.id, w.assignment, w.blocked_requests, w.stop_reason);
            }
            for q in &core.queues {
                println!("  queue {} ready={:?} prefill={:?}", q.resource_rq_id, q.ready, q.prefill);
            }
            println!("  redirects {:?}", core.redirects);
        }
        let obs = self.world.execute(action);
        if obs.skipped {
            if self.verbose {
                println!("  [skipped] {action:?}");
            }
            return false;
        }
        self.trace.push(action.clone());
        self.digest(action, &obs);
        self.learn(action, &obs);
        self.checker.after_step(&mut self.world, action, &obs);
        if obs.journal_pruned && self.world.dead.is_none() {
            self.checker.after_prune(&self.world);
        }
        if matches!(action, Action::CrashServer { .. })
            && let Some(reference) = self.checker.after_restore(&mut self.world)
        {
            // what a user of the new server can know about the jobs
            self.know.jobs = reference
                .jobs
                .iter()
                .map(|(id, j)| (*id, j.open, j.tasks.keys().copied().collect()))
                .collect();
            self.cancel_pending = false;
        }
        // reconnect clients whose connection ended (after a Disconnect)
        let closed: Vec<u32> = self
            .world
            .clients
            .values()
            .filter(|c| c.closed)
            .map(|c| c.id)
            .collect();
        for c in closed {
            self.checker.waiting_clients.remove(&c);
            self.world.reconnect_client(c);
        }
        self.abstract_state();
        true
    }

    fn digest(&mut self, action: &Action, obs: &StepObs) {
        let step = self.world.step.get();
        if self.verbose {
            println!("#{step} t={}ms {action:?}", self.world.now_ms.get());
        }
        self.note(&format!("A {action:?}"));
        for e in &obs.events {
            let d = payload_digest(&e.payload);
            if self.verbose {
                println!("    E {d}");
            }
            self.note(&d);
        }
        for (c, r) in &obs.responses {
            let d = match r {
                ToClientMessage::Event(e) => format!("Event({})", payload_digest(&e.payload)),
                ToClientMessage::SubmitResponse(SubmitResponse::Ok { job, .. }) => {
                    format!("SubmitOk({}, {} tasks)", job.info.id, job.tasks.len())
                }
                ToClientMessage::JobDetailResponse(_) => "JobDetail".to_string(),
                ToClientMessage::JobInfoResponse(_) => "JobInfo".to_string(),
                ToClientMessage::WorkerInfoResponse(_) => "WorkerInfo".to_string(),
                ToClientMessage::GetListResponse(_) => "List".to_string(),
                ToClientMessage::ServerInfo(_) => "ServerInfo".to_string(),
                ToClientMessage::TaskExplain(_) => "Explain".to_string(),
                other => format!("{other:?}"),
            };
            if self.verbose {
                println!("    R client{c}: {d}");
            }
            self.note(&format!("R{c} {d}"));
        }
        for (w, m) in &obs.sent_to_workers {
            let d = to_worker_digest(m);
            if self.verbose {
                println!("    s->w{w}: {d}");
            }
            self.note(&format!("S{w} {d}"));
        }
        for (w, m) in &obs.sent_to_server {
            let d = from_worker_digest(m);
            if self.verbose {
                println!("    w{w}->s: {d}");
            }
            self.note(&format!("W{w} {d}"));
        }
        let launches = self.world.launches.borrow();
        for l in launches.iter().skip(obs.launches_from) {
            let d = format!(
                "launch w{} {:?} i{} rv{} alloc={:?} fail={}",
                l.worker, l.task, l.instance, l.rv, l.allocation, l.launch_failed
            );
            if self.verbose {
                println!("    L {d}");
            }
            drop(d);
        }
        drop(launches);
        let n_new: Vec<String> = self
            .world
            .launches
            .borrow()
            .iter()
            .skip(obs.launches_from)
            .map(|l| {
                format!(
                    "launch w{} {:?} i{} rv{} alloc={:?} fail={}",
                    l.worker, l.task, l.instance, l.rv, l.allocation, l.launch_failed
                )
            })
            .collect();
        for d in n_new {
            self.note(&d);
        }
        if let Some(n) = &obs.note {
            if self.verbose {
                println!("    note: {n}");
            }
        }
        if let Some(p) = &obs.panic {
            if self.verbose {
                println!("    PANIC {} : {}", p.location(), p.message);
            }
            self.note(&format!("PANIC {}", p.location()));
        }
        if let Some(r) = obs.scheduler {
            self.note(&format!("sched {r:?}"));
        }
        match action {
            Action::KillWorker { reason, .. } => {
                *self
                    .faults
                    .entry(format!("worker_kill_{reason:?}"))
                    .or_default() += 1
            }
            Action::CrashServer { .. } => *self.faults.entry("server_crash".into()).or_default() += 1,
            Action::WorkerTimeLimit { .. } => {
                *self.faults.entry("worker_time_limit".into()).or_default() += 1
            }
            Action::Advance { ms } if *ms >= 60_000 => {
                *self.faults.entry("clock_jump_ge_60s".into()).or_default() += 1
            }
            Action::ClientSend {
                op: ClientOp::Cancel(_),
                ..
            } => *self.faults.entry("client_cancel".into()).or_default() += 1,
            Action::ClientSend {
                op: ClientOp::StopWorker(_),
                ..
            } => *self.faults.entry("client_stop_worker".into()).or_default() += 1,
            Action::ClientSend {
                op: ClientOp::Disconnect,
                ..
            } => *self.faults.entry("client_disconnect".into()).or_default() += 1,
            _ => {}
        }
        let launches = self.world.launches.borrow();
        for l in launches.iter().skip(obs.launches_from) {
            if l.launch_failed {
                *self.faults.entry("launch_failure".into()).or_default() += 1;
            }
        }
    }

    fn learn(&mut self, action: &Action, obs: &StepObs) {
        if let Action::ClientSend { op, .. } = action {
            self.ops_done += 1;
            if matches!(op, ClientOp::Cancel(_)) {
                self.cancel_pending = true;
            }
        }
        for (_c, r) in &obs.responses {
            match r {
                ToClientMessage::SubmitResponse(SubmitResponse::Ok { job, .. }) => {
                    let id = job.info.id.as_num();
                    let ids: Vec<u32> = job.tasks.iter().map(|(t, _)| t.as_num()).collect();
                    if let Some(j) = self.know.jobs.iter_mut().find(|j| j.0 == id) {
                        j.2 = ids;
                    } else {
                        self.know.jobs.push((id, job.info.is_open, ids));
                    }
                    self.know.next_guess = self.know.next_guess.max(id + 1);
                }
                ToClientMessage::OpenJobResponse(r) => {
                    let id = r.job_id.as_num();
                    self.know.jobs.push((id, true, Vec::new()));
                    self.know.next_guess = self.know.next_guess.max(id + 1);
                }
                ToClientMessage::CloseJobResponse(rs) => {
                    for (j, _) in rs {
                        if let Some(x) = self.know.jobs.iter_mut().find(|x| x.0 == j.as_num()) {
                            x.1 = false;
                        }
                    }
                }
                ToClientMessage::CancelJobResponse(_) => self.cancel_pending = false,
                _ => {}
            }
        }
    }

    /// hash of (multiset of task runtime states, per-worker assignment shape, queue shape)
    fn abstract_state(&mut self) {
        if self.world.dead.is_some() {
            return;
        }
        let Some(core) = self.world.core_snapshot() else {
            return;
        };
        let mut counts = [0u64; 8];
        for t in &core.tasks {
            let i = match &t.state {
                tako::verif::TaskStateSnapshot::Waiting { unfinished_deps } => {
                    if *unfinished_deps == 0 {
                        0
                    } else {
                        1
                    }
                }
                tako::verif::TaskStateSnapshot::Assigned { .. } => 2,
                tako::verif::TaskStateSnapshot::Prefilled { .. } => 3,
                tako::verif::TaskStateSnapshot::Retracting { .. } => 4,
                tako::verif::TaskStateSnapshot::Running { .. } => 5,
                tako::verif::TaskStateSnapshot::RunningMultiNode(_) => 6,
                tako::verif::TaskStateSnapshot::Finished => 7,
            };
            counts[i] += 1;
        }
        let mut h = mix(&counts);
        for w in &core.workers {
            let shape = match &w.assignment {
                tako::verif::WorkerAssignmentSnapshot::Sn {
                    assigned,
                    prefilled,
                    ..
                } => (assigned.len() as u64) << 8 | prefilled.len() as u64,
                tako::verif::WorkerAssignmentSnapshot::Mn { is_root, .. } => {
                    1 << 20 | *is_root as u64
                }
            };
            h = mix(&[h, shape, w.blocked_requests.len() as u64]);
        }
        h = mix(&[h, core.redirects.len() as u64]);
        for ws in self.world.workers.values() {
            h = mix(&[
                h,
                ws.s2w.len().min(3) as u64,
                ws.w2s.len().min(3) as u64,
                ws.phase as u64,
            ]);
        }
        self.abstract_states.insert(h);
    }

    /// Fair suffix: no faults, every enabled actor runs round-robin, running programs end
    /// (successfully unless they were told to stop), the clock stands still.
    pub fn fair_suffix(&mut self, bound: u64) -> (bool, u64) {
        self.checker.in_fair_suffix = true;
        let mut steps = 0u64;
        // close every open job so that job completion can be observed
        if self.world.dead.is_none() && self.world.inc.is_some() {
            let idle: Option<u32> = self
                .world
                .clients
                .values()
                .find(|c| !c.closed && !c.streaming && c.outstanding.is_none())
                .map(|c| c.id);
            if let Some(c) = idle {
                self.step(&Action::ClientSend {
                    c,
                    op: ClientOp::Close(SelSpec::All),
                });
                steps += 1;
            }
        }
        loop {
            if self.world.dead.is_some() {
                return (false, steps);
            }
            let mut pass: Vec<Action> = Vec::new();
            for (w, task, instance) in self.world.woken_task_futs() {
                pass.push(Action::PollTask {
                    w,
                    job: task.0,
                    task: task.1,
                    instance,
                });
            }
            for c in self.world.woken_clients() {
                pass.push(Action::PollClient { c });
            }
            let ids: Vec<u32> = self.world.workers.keys().copied().collect();
            for w in &ids {
                let ws = &self.world.workers[w];
                if ws.server_connected && !ws.w2s.is_empty() {
                    pass.push(Action::ToServer { w: *w });
                } else if ws.server_connected && ws.phase != WorkerPhase::Up {
                    pass.push(Action::NoticeLoss { w: *w });
                }
                if ws.phase == WorkerPhase::Up && !ws.s2w.is_empty() {
                    pass.push(Action::ToWorker { w: *w });
                }
                if ws.phase == WorkerPhase::Up
                    && let Some(l) = ws.time_limit_ms
                    && self.world.now_ms.get() >= ws.start_ms + l
                {
                    pass.push(Action::WorkerTimeLimit { w: *w });
                }
            }
            if self
                .world
                .inc
                .as_ref()
                .and_then(|i| i.journal.as_ref())
                .is_some_and(|j| !j.pending.is_empty())
            {
                pass.push(Action::JournalStep);
            }
            if self.world.scheduling_needed() {
                pass.push(Action::Schedule);
            }
            for w in self.world.woken_retract_checks() {
                pass.push(Action::PollRetractCheck { w });
            }
            for w in &ids {
                for (task, instance, stop, instructed) in self.world.live_execs(*w) {
                    if !instructed {
                        pass.push(Action::EndTask {
                            w: *w,
                            job: task.0,
                            task: task.1,
                            instance,
                            end: if stop.is_some() {
                                EndSpec::ObeyStop
                            } else {
                                EndSpec::Finished
                            },
                        });
                    }
                }
            }
            if pass.is_empty() {
                return (true, steps);
            }
            for a in pass {
                if self.step(&a) {
                    steps += 1;
                }
                if self.world.dead.is_some() {
                    return (false, steps);
                }
            }
            if steps > bound {
                return (false, steps);
            }
        }
    }
}

fn to_worker_digest(m: &tako::verif::ToWorkerMsg) -> String {
    use tako::verif::ToWorkerMsg as M;
    match m {
        M::ComputeTasks(c) => format!(
            "Compute{:?}",
            c.tasks
                .iter()
                .map(|t| format!(
                    "{}i{}{}",
                    t.id,
                    t.instance_id,
                    match t.resource_rq_variant {
                        Some(v) => format!("v{v}"),
                        None => "p".to_string(),
                    }
                ))
                .collect::<Vec<_>>()
        ),
        M::RetractTasks(t) => format!("Retract{:?}", t.ids),
        M::CancelTasks(t) => format!("Cancel{:?}", t.ids),
        M::NewWorker(w) => format!("NewWorker({})", w.worker_id),
        M::LostWorker(w) => format!("LostWorker({w})"),
        M::SetOverviewIntervalOverride(_) => "Overview".to_string(),
        M::NewResourceRequest(id, _) => format!("NewRq({id})"),
        M::Stop => "Stop".to_string(),
    }
}

fn from_worker_digest(m: &tako::verif::FromWorkerMessage) -> String {
    use tako::verif::FromWorkerMessage as M;
    use tako::verif::WorkerTaskUpdate as U;
    match m {
        M::TaskUpdate(ups) => format!(
            "Update{:?}",
            ups.iter()
                .map(|u| match u {
                    U::Finished { task_id } => format!("Fin({task_id})"),
                    U::Failed { task_id, .. } => format!("Fail({task_id})"),
                    U::Running(m) => format!("Run({})", m.task_id),
                    U::RunningPrefilled(m) => format!("RunP({})", m.task_id),
                    U::RejectRequest { task_id, rv_id } => format!("Reject({task_id},{rv_id:?})"),
                    U::EnableRequest {
                        resource_rq_id,
                        rv_id,
                    } => format!("Enable({resource_rq_id},{rv_id})"),
                })
                .collect::<Vec<_>>()
        ),
        M::RetractResponse(r) => format!("Retracted{:?}", r.retracted),
        M::Overview(_) => "Overview".to_string(),
        M::Heartbeat => "Heartbeat".to_string(),
        M::Stop(r) => format!("Stop({r:?})"),
        M::Notify(_) => "Notify".to_string(),
    }
}

pub struct RunOptions {
    pub verbose: bool,
    pub tag: String,
    pub force_journal: Option<bool>,
    /// crash-point sweep over the final journal in one of N runs (None/0: never)
    pub sweep_one_in: Option<u32>,
    /// interior bytes per record in a sweep
    pub sweep_interior: u32,
}

fn finish(d: Driver, seed: u64, profile: Profile, plan: RunPlan, main_steps: u64, suffix: (bool, u64)) -> RunResult {
    let trace_hash = {
        let mut h = 0u64;
        for a in &d.trace {
            let s = format!("{a:?}");
            for b in s.as_bytes() {
                h = mix(&[h, *b as u64]);
            }
        }
        h
    };
    let fault_free = d.faults.iter().all(|(k, v)| {
        *v == 0 || k.starts_with("client_") || k == "clock_jump_ge_60s"
    });
    RunResult {
        seed,
        profile,
        steps: main_steps,
        suffix_steps: suffix.1,
        sim_ms: d.world.now_ms.get(),
        quiescent: suffix.0,
        aborted_by_panic: d.world.dead.is_some(),
        findings: d.checker.findings.clone(),
        probes: d.checker.probes.clone(),
        log_hash: d.log_hash,
        trace_hash,
        faults: d.faults.clone(),
        abstract_states: d.abstract_states.clone(),
        n_tasks: d
            .checker
            .model
            .jobs
            .values()
            .map(|j| j.tasks.len())
            .sum(),
        n_jobs: d.checker.model.job_ids_seen.len(),
        fault_free,
        trace: d.trace.clone(),
        plan: Some(plan),
    }
}

pub fn run_seed(seed: u64, profile: Profile, opts: &RunOptions) -> RunResult {
    let mut rng = Rng::new(seed);
    let plan = make_plan(&mut rng, profile, opts.force_journal);
    if opts.verbose {
        println!("PLAN {}", serde_json::to_string(&plan).unwrap());
    }
    let mut d = Driver::new(&plan, &opts.tag, opts.verbose);
    let mut chooser = Chooser::new(&mut rng, &plan);
    let mut budgets = Budgets {
        client_ops_left: plan.client_ops,
        kills_left: plan.kills,
        crashes_left: plan.crashes,
        late_workers: plan.late_workers.clone(),
        prunes_left: plan.prunes,
        queue_events_left: 4,
        autoalloc_ticks_left: 10,
    };
    for s in &plan.initial_workers {
        d.step(&Action::AddWorker { spec: *s });
    }
    let mut steps = 0u64;
    let mut idle_rounds = 0;
    while steps < plan.max_steps as u64 && d.world.dead.is_none() {
        let cands = candidates(
            &mut rng,
            &plan,
            &d.world,
            &d.know,
            &budgets,
            d.ops_done,
            d.cancel_pending,
        );
        let only_clock = cands.len() == 1;
        let Some(action) = chooser.choose(&mut rng, steps as u32, cands) else {
            break;
        };
        if only_clock {
            idle_rounds += 1;
            if idle_rounds > 6 {
                break;
            }
        } else {
            idle_rounds = 0;
        }
        if d.step(&action) {
            match &action {
                Action::ClientSend { op, .. } => {
                    budgets.client_ops_left = budgets.client_ops_left.saturating_sub(1);
                    if matches!(op, ClientOp::Prune) {
                        budgets.prunes_left = budgets.prunes_left.saturating_sub(1);
                    }
                }
                Action::KillWorker { .. } => budgets.kills_left -= 1,
                Action::CrashServer { .. } => budgets.crashes_left -= 1,
                Action::AddWorker { .. } => {
                    budgets.late_workers.remove(0);
                }
                Action::QueueEvent { .. } => budgets.queue_events_left -= 1,
                Action::AutoallocTick => budgets.autoalloc_ticks_left -= 1,
                _ => {}
            }
        }
        steps += 1;
    }
    let n_tasks: u64 = d
        .checker
        .model
        .jobs
        .values()
        .map(|j| j.tasks.len() as u64)
        .sum();
    let msgs: u64 = d
        .world
        .workers
        .values()
        .map(|w| (w.s2w.len() + w.w2s.len()) as u64)
        .sum();
    let bound = 20 * (n_tasks + msgs) + 200;
    let suffix = d.fair_suffix(bound);
    d.checker
        .at_quiescence(&d.world, suffix.0, suffix.1 > bound);
    let sweep = sweep_mode(&plan, seed, opts);
    d.checker.final_journal_check(&mut d.world, sweep);
    finish(d, seed, profile, plan, steps, suffix)
}

/// Crash-point sweep over the final journal: every record boundary + interior bytes. Decided
/// by the seed (a fraction of the Restore-profile runs) or forced by the options.
fn sweep_mode(plan: &RunPlan, seed: u64, opts: &RunOptions) -> Option<(u64, u32)> {
    if !plan.cluster.journal {
        return None;
    }
    let wanted = match opts.sweep_one_in {
        Some(0) => false,
        Some(n) => mix(&[seed, 0x5eeb]) % n as u64 == 0,
        None => false,
    };
    if wanted {
        Some((mix(&[seed, 0x5eec]), opts.sweep_interior))
    } else {
        None
    }
}

/// Executes an explicit action list (no PRNG involved). If `stop_on` is given the execution
/// stops as soon as a finding with that `property signature` appears.
pub fn replay_actions(
    plan: &RunPlan,
    seed: u64,
    actions: &[Action],
    opts: &RunOptions,
    stop_on: Option<&str>,
) -> RunResult {
    let mut d = Driver::new(plan, &opts.tag, opts.verbose);
    let mut steps = 0;
    let hit = |d: &Driver| -> bool {
        stop_on.is_some_and(|s| {
            d.checker
                .findings
                .iter()
                .any(|f| format!("{} {}", f.property, f.signature()) == s)
        })
    };
    for a in actions {
        if d.world.dead.is_some() || hit(&d) {
            break;
        }
        if d.step(a) {
            steps += 1;
        }
    }
    let mut suffix = (false, 0);
    if !hit(&d) {
        // The recorded list already contains the fair suffix of the original run; run it again
        // in case the shrinker removed parts of it.
        let n_tasks: u64 = d
            .checker
            .model
            .jobs
            .values()
            .map(|j| j.tasks.len() as u64)
            .sum();
        let bound = 20 * (n_tasks + 50) + 200;
        suffix = d.fair_suffix(bound);
        d.checker
            .at_quiescence(&d.world, suffix.0, suffix.1 > bound);
        let sweep = sweep_mode(plan, seed, opts);
        d.checker.final_journal_check(&mut d.world, sweep);
    }
    finish(d, seed, plan.profile, plan.clone(), steps, suffix)
}

pub fn replay(file: &ReplayFile, opts: &RunOptions) -> RunResult {
    let opts = RunOptions {
        verbose: opts.verbose,
        tag: opts.tag.clone(),
        force_journal: None,
        sweep_one_in: file.sweep_one_in,
        sweep_interior: file.sweep_interior,
    };
    replay_actions(&file.plan, file.seed, &file.actions, &opts, None)
}
