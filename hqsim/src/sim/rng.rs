//! One integer decides everything: splitmix64 seeding + xoshiro256**.

#[derive(Clone, Debug)]
pub struct Rng {
    s: [u64; 4],
    pub draws: u64,
}

pub fn splitmix64(x: &mut u64) -> u64 {
    *x = x.wrapping_add(0x9E3779B97F4A7C15);
    let mut z = *x;
    z = (z ^ (z >> 30)).wrapping_mul(0xBF58476D1CE4E5B9);
    z = (z ^ (z >> 27)).wrapping_mul(0x94D049BB133111EB);
    z ^ (z >> 31)
}

/// Mixes a list of integers into one 64-bit value (used to derive per-run seeds and for
/// stateless coins such as "does the launch of (task, instance) fail").
pub fn mix(parts: &[u64]) -> u64 {
    let mut h = 0x243F6A8885A308D3u64;
    for p in parts {
        h ^= *p;
        let mut x = h;
        h = splitmix64(&mut x);
    }
    h
}

impl Rng {
    pub fn new(seed: u64) -> Self {
        let mut x = seed;
        let s = [
            splitmix64(&mut x),
            splitmix64(&mut x),
            splitmix64(&mut x),
            splitmix64(&mut x),
        ];
        Rng { s, draws: 0 }
    }

    pub fn next_u64(&mut self) -> u64 {
        self.draws += 1;
        let result = self.s[1].wrapping_mul(5).rotate_left(7).wrapping_mul(9);
        let t = self.s[1] << 17;
        self.s[2] ^= self.s[0];
        self.s[3] ^= self.s[1];
        self.s[1] ^= self.s[2];
        self.s[0] ^= self.s[3];
        self.s[2] ^= t;
        self.s[3] = self.s[3].rotate_left(45);
        result
    }

    /// Uniform in 0..n (n > 0)
    pub fn below(&mut self, n: u64) -> u64 {
        debug_assert!(n > 0);
        // Multiply-shift; the tiny bias is irrelevant here
        ((self.next_u64() as u128 * n as u128) >> 64) as u64
    }

    pub fn range(&mut self, lo: u64, hi_inclusive: u64) -> u64 {
        lo + self.below(hi_inclusive - lo + 1)
    }

    pub fn usize_below(&mut self, n: usize) -> usize {
        self.below(n as u64) as usize
    }

    /// True with probability num/den
    pub fn chance(&mut self, num: u64, den: u64) -> bool {
        self.below(den) < num
    }

    pub fn pick<'a, T>(&mut self, items: &'a [T]) -> &'a T {
        &items[self.usize_below(items.len())]
    }

    pub fn pick_weighted(&mut self, weights: &[u64]) -> usize {
        let total: u64 = weights.iter().sum();
        debug_assert!(total > 0);
        let mut x = self.below(total);
        for (i, w) in weights.iter().enumerate() {
            if x < *w {
                return i;
            }
            x -= *w;
        }
        weights.len() - 1
    }

    pub fn shuffle<T>(&mut self, items: &mut [T]) {
        for i in (1..items.len()).rev() {
            let j = self.usize_below(i + 1);
            items.swap(i, j);
        }
    }
}
