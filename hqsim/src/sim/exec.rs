//! A hand-driven executor: futures that belong to the system are kept in a table, each with a
//! waker that only sets a flag. A future is polled when (and only when) the simulator decides so.

use std::cell::RefCell;
use std::collections::BTreeMap;
use std::future::Future;
use std::pin::Pin;
use std::rc::Rc;
use std::sync::Arc;
use std::sync::atomic::{AtomicBool, Ordering};
use std::task::{Context, Poll, Wake, Waker};

pub struct Flag(pub AtomicBool);

impl Wake for Flag {
    fn wake(self: Arc<Self>) {
        self.0.store(true, Ordering::SeqCst);
    }
    fn wake_by_ref(self: &Arc<Self>) {
        self.0.store(true, Ordering::SeqCst);
    }
}

pub type FutId = u64;

pub struct Slot {
    fut: Pin<Box<dyn Future<Output = ()>>>,
    flag: Arc<Flag>,
    pub name: String,
}

#[derive(Default)]
pub struct Executor {
    slots: BTreeMap<FutId, Slot>,
    next_id: FutId,
}

#[derive(Debug, Clone, Copy, PartialEq, Eq)]
pub enum PollResult {
    Pending,
    Done,
    Missing,
}

impl Executor {
    pub fn insert(&mut self, name: String, fut: Pin<Box<dyn Future<Output = ()>>>) -> FutId {
        let id = self.next_id;
        self.next_id += 1;
        self.slots.insert(
            id,
            Slot {
                fut,
                // A new future must be polled once to start it
                flag: Arc::new(Flag(AtomicBool::new(true))),
                name,
            },
        );
        id
    }

    pub fn contains(&self, id: FutId) -> bool {
        self.slots.contains_key(&id)
    }

    pub fn is_woken(&self, id: FutId) -> bool {
        self.slots
            .get(&id)
            .map(|s| s.flag.0.load(Ordering::SeqCst))
            .unwrap_or(false)
    }

    pub fn woken(&self) -> Vec<FutId> {
        self.slots
            .iter()
            .filter(|(_, s)| s.flag.0.load(Ordering::SeqCst))
            .map(|(id, _)| *id)
            .collect()
    }

    pub fn name(&self, id: FutId) -> Option<&str> {
        self.slots.get(&id).map(|s| s.name.as_str())
    }

    pub fn find_by_name(&self, name: &str) -> Option<FutId> {
        self.slots
            .iter()
            .find(|(_, s)| s.name == name)
            .map(|(id, _)| *id)
    }

    /// Polls the future once (regardless of its flag). Panics propagate to the caller.
    pub fn poll(&mut self, id: FutId) -> PollResult {
        let Some(slot) = self.slots.get_mut(&id) else {
            return PollResult::Missing;
        };
        slot.flag.0.store(false, Ordering::SeqCst);
        let waker = Waker::from(slot.flag.clone());
        let mut cx = Context::from_waker(&waker);
        match slot.fut.as_mut().poll(&mut cx) {
            Poll::Ready(()) => {
                self.slots.remove(&id);
                PollResult::Done
            }
            Poll::Pending => PollResult::Pending,
        }
    }

    pub fn remove(&mut self, id: FutId) {
        self.slots.remove(&id);
    }

    pub fn clear(&mut self) {
        self.slots.clear();
    }

    pub fn len(&self) -> usize {
        self.slots.len()
    }
}

/// A stream backed by a queue the harness fills; never registers a waker (the harness polls the
/// consumer explicitly after pushing). `None` item ends the stream.
pub struct QueueStream<T> {
    pub queue: Rc<RefCell<std::collections::VecDeque<Option<T>>>>,
}

impl<T> QueueStream<T> {
    pub fn new() -> (Self, Rc<RefCell<std::collections::VecDeque<Option<T>>>>) {
        let queue = Rc::new(RefCell::new(std::collections::VecDeque::new()));
        (
            QueueStream {
                queue: queue.clone(),
            },
            queue,
        )
    }
}

impl<T> futures::Stream for QueueStream<T> {
    type Item = T;

    fn poll_next(self: Pin<&mut Self>, _cx: &mut Context<'_>) -> Poll<Option<T>> {
        match self.queue.borrow_mut().pop_front() {
            Some(Some(item)) => Poll::Ready(Some(item)),
            Some(None) => Poll::Ready(None),
            None => Poll::Pending,
        }
    }
}

impl<T> Unpin for QueueStream<T> {}
