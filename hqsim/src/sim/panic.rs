//! Panics are observations: a hook records the location and message in a thread-local, every
//! call into repository code goes through `catch`.

use std::cell::RefCell;
use std::panic::{AssertUnwindSafe, catch_unwind};
use std::sync::Once;

#[derive(Debug, Clone, serde::Serialize, serde::Deserialize, PartialEq, Eq)]
pub struct PanicInfo {
    pub file: String,
    pub line: u32,
    pub message: String,
}

impl PanicInfo {
    /// Location relative to the repository root, e.g. `crates/tako/src/internal/server/taskmap.rs:29`
    pub fn location(&self) -> String {
        let f = self
            .file
            .strip_prefix("/repo/")
            .unwrap_or(self.file.as_str());
        format!("{}:{}", f, self.line)
    }

    /// A panic is attributed to the repository when its location is in /repo, or in a dependency
    /// or the standard library while repository code was being executed (e.g. `Duration`
    /// subtraction overflow, `unwrap` on None report the caller's location thanks to
    /// `#[track_caller]`, but slice indexing etc. may not).
    pub fn in_harness(&self) -> bool {
        self.file.starts_with("/verif/") || self.file.starts_with("src/")
    }
}

thread_local! {
    static LAST_PANIC: RefCell<Option<PanicInfo>> = const { RefCell::new(None) };
    static QUIET: RefCell<bool> = const { RefCell::new(true) };
}

static INSTALL: Once = Once::new();

pub fn install_hook() {
    INSTALL.call_once(|| {
        let default = std::panic::take_hook();
        std::panic::set_hook(Box::new(move |info| {
            let (file, line) = info
                .location()
                .map(|l| (l.file().to_string(), l.line()))
                .unwrap_or_else(|| ("<unknown>".to_string(), 0));
            let message = if let Some(s) = info.payload().downcast_ref::<&str>() {
                s.to_string()
            } else if let Some(s) = info.payload().downcast_ref::<String>() {
                s.clone()
            } else {
                "<non-string panic payload>".to_string()
            };
            let quiet = QUIET.with(|q| *q.borrow());
            LAST_PANIC.with(|p| {
                *p.borrow_mut() = Some(PanicInfo {
                    file,
                    line,
                    message,
                })
            });
            if !quiet {
                default(info);
            }
        }));
    });
}

pub fn set_quiet(quiet: bool) {
    QUIET.with(|q| *q.borrow_mut() = quiet);
}

/// Runs `f`; a panic is returned as `Err(PanicInfo)`.
pub fn catch<T>(f: impl FnOnce() -> T) -> Result<T, PanicInfo> {
    LAST_PANIC.with(|p| *p.borrow_mut() = None);
    match catch_unwind(AssertUnwindSafe(f)) {
        Ok(v) => Ok(v),
        Err(_) => Err(LAST_PANIC
            .with(|p| p.borrow_mut().take())
            .unwrap_or(PanicInfo {
                file: "<unknown>".into(),
                line: 0,
                message: "panic without hook information".into(),
            })),
    }
}
