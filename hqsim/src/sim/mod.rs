pub mod exec;
pub mod panic;
pub mod rng;
