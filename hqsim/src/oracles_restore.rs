//! C10 / C11 (+ restart halves of C06, C07): compare a restarted server with the reference fold
//! of the journal that survived.

use std::collections::{BTreeMap, BTreeSet};
use std::path::Path;

use hyperqueue::server::job::JobTaskState;

use crate::engines::cluster::{TaskKey, World, tkey};
use crate::model::{Finding, MJob, MState, MTask, Model};
use crate::restore_ref::{RefState, RefTaskState, fold, record_boundaries};
use crate::spec::{CrashSpec, TaskProps};

#[derive(Debug, Clone)]
pub struct CutInfo {
    pub cut_len: u64,
    pub torn: bool,
    /// start of the partially written record (what the restart must truncate to)
    pub expected_truncate: Option<u64>,
    pub surviving_records: usize,
}

fn fnd(
    out: &mut Vec<Finding>,
    property: &'static str,
    oracle: &'static str,
    key: impl Into<String>,
    message: String,
    step: u64,
) {
    out.push(Finding {
        property,
        oracle,
        key: key.into(),
        message,
        step,
    });
}

/// What a restart from the first `cut_len` bytes of `full` must reproduce. `full` is a version
/// of the journal that extends at least to `cut_len` (its own last record may be torn). The
/// record boundaries come from reading the longer file, the reference state from folding a clean
/// copy that ends at the last boundary <= cut_len - so neither depends on how the code under
/// test treats a torn tail at `cut_len`.
pub fn restore_expectation(
    full: &Path,
    cut_len: u64,
    scratch: &Path,
) -> anyhow::Result<(RefState, CutInfo)> {
    let offsets = record_boundaries(full)?;
    // offsets = [start of rec 0, start of rec 1, ..., end of readable data]
    let mut last_boundary = offsets[0];
    let mut surviving = 0;
    for (i, o) in offsets.iter().enumerate().skip(1) {
        if *o <= cut_len {
            last_boundary = *o;
            surviving = i;
        }
    }
    let torn = cut_len > last_boundary;
    let clean = scratch.join("journal.clean");
    let bytes = std::fs::read(full)?;
    std::fs::write(&clean, &bytes[..last_boundary as usize])?;
    let reference = fold(&clean)?;
    let _ = std::fs::remove_file(&clean);
    Ok((
        reference,
        CutInfo {
            cut_len,
            torn,
            expected_truncate: if torn { Some(last_boundary) } else { None },
            surviving_records: surviving,
        },
    ))
}

pub fn compare_restore(
    reference: &RefState,
    world: &World,
    cut: &CutInfo,
    step: u64,
    out: &mut Vec<Finding>,
) {
    if let Some(p) = &world.dead {
        fnd(
            out,
            "C10",
            "restart-panics",
            p.location(),
            format!(
                "restart from a journal cut at byte {} ({} records, torn={}) panicked at {}: {}",
                cut.cut_len,
                cut.surviving_records,
                cut.torn,
                p.location(),
                p.message
            ),
            step,
        );
        fnd(
            out,
            "C09",
            "panic",
            p.location(),
            format!(
                "the server panicked while restarting from its journal (cut at byte {}) at {}: {}",
                cut.cut_len,
                p.location(),
                p.message
            ),
            step,
        );
        return;
    }
    let Some(info) = &world.last_restore else {
        return;
    };
    if let Some(e) = &info.error {
        fnd(
            out,
            "C10",
            "restart-fails",
            if cut.torn { "torn-tail" } else { "record-boundary" },
            format!(
                "restart from a journal cut at byte {} ({} records, torn={}) failed: {e}",
                cut.cut_len, cut.surviving_records, cut.torn
            ),
            step,
        );
        return;
    }
    if info.truncate_size != cut.expected_truncate {
        fnd(
            out,
            "C10",
            "torn-tail-truncation",
            "",
            format!(
                "journal cut at byte {}: the restart truncates to {:?}, the partially written record starts at {:?}",
                cut.cut_len, info.truncate_size, cut.expected_truncate
            ),
            step,
        );
    }
    let Some(inc) = &world.inc else { return };
    let state = inc.state_ref.get();

    // ---- job set
    let shown: BTreeSet<u32> = state.jobs().map(|j| j.job_id.as_num()).collect();
    let expected: BTreeSet<u32> = reference.jobs.keys().copied().collect();
    if shown != expected {
        fnd(
            out,
            "C10",
            "restored-job-set",
            "",
            format!(
                "unfinished jobs in the journal: {expected:?}, restored: {shown:?}"
            ),
            step,
        );
    }
    // ---- per job
    for job in state.jobs() {
        let jid = job.job_id.as_num();
        let Some(rj) = reference.jobs.get(&jid) else {
            continue;
        };
        if job.is_open() != rj.open {
            fnd(
                out,
                "C10",
                "restored-open-flag",
                "",
                format!("job {jid}: journal says open={}, restored open={}", rj.open, job.is_open()),
                step,
            );
        }
        let shown_tasks: BTreeMap<u32, &'static str> = job
            .iter_task_states()
            .map(|(id, st)| {
                (
                    id.as_num(),
                    match st {
                        JobTaskState::Waiting => "waiting",
                        JobTaskState::Running { .. } => "running",
                        JobTaskState::Finished { .. } => "finished",
                        JobTaskState::Failed { .. } => "failed",
                        JobTaskState::Canceled { .. } => "canceled",
                        JobTaskState::Aborted { .. } => "aborted",
                    },
                )
            })
            .collect();
        let expected_tasks: BTreeMap<u32, &'static str> = rj
            .tasks
            .iter()
            .map(|(id, t)| (*id, t.state.restored_kind()))
            .collect();
        if shown_tasks.keys().collect::<Vec<_>>() != expected_tasks.keys().collect::<Vec<_>>() {
            fnd(
                out,
                "C10",
                "restored-task-set",
                "",
                format!(
                    "job {jid}: tasks in the journal {:?}, restored {:?}",
                    expected_tasks.keys().collect::<Vec<_>>(),
                    shown_tasks.keys().collect::<Vec<_>>()
                ),
                step,
            );
        }
        for (id, kind) in &expected_tasks {
            if let Some(shown) = shown_tasks.get(id)
                && shown != kind
            {
                fnd(
                    out,
                    "C10",
                    "restored-task-outcome",
                    format!("{kind}-restored-as-{shown}"),
                    format!("task ({jid},{id}): journal says {kind}, restored as {shown}"),
                    step,
                );
            }
        }
        // counters agree with the task states
        let count = |k: &str| expected_tasks.values().filter(|x| **x == k).count() as u32;
        let c = &job.counters;
        let got = (
            c.n_running_tasks,
            c.n_finished_tasks,
            c.n_failed_tasks,
            c.n_canceled_tasks,
            c.n_aborted_tasks,
        );
        let want = (0, count("finished"), count("failed"), count("canceled"), count("aborted"));
        if got != want {
            fnd(
                out,
                "C10",
                "restored-counters",
                if rj.submits > 1 { "several-submits" } else { "" },
                format!(
                    "job {jid}: restored counters (running,finished,failed,canceled,aborted) = {got:?}, the recorded task outcomes give {want:?}"
                ),
                step,
            );
        }
    }

    // ---- tasks handed to the scheduler: every non-terminal task once, waiting, deps intact
    let mut handed: BTreeMap<TaskKey, usize> = BTreeMap::new();
    for t in &info.submitted {
        *handed.entry(t.task).or_default() += 1;
    }
    let mut expected_pending: BTreeSet<TaskKey> = BTreeSet::new();
    for (jid, j) in &reference.jobs {
        for (tid, t) in &j.tasks {
            if !t.state.is_terminal() {
                expected_pending.insert((*jid, *tid));
            }
        }
    }
    let handed_set: BTreeSet<TaskKey> = handed.keys().copied().collect();
    if handed_set != expected_pending {
        let missing: Vec<_> = expected_pending.difference(&handed_set).collect();
        let extra: Vec<_> = handed_set.difference(&expected_pending).collect();
        fnd(
            out,
            "C10",
            "pending-tasks-after-restart",
            if !extra.is_empty() { "terminal-task-resubmitted" } else { "pending-task-lost" },
            format!(
                "tasks without a recorded outcome that were not handed to the scheduler: {missing:?}; tasks with a recorded outcome that were handed to it again: {extra:?}"
            ),
            step,
        );
    }
    for (k, n) in &handed {
        if *n > 1 {
            fnd(
                out,
                "C10",
                "pending-task-submitted-twice",
                "",
                format!("task {k:?} was handed to the scheduler {n} times"),
                step,
            );
        }
    }
    let core = inc.server.snapshot();
    for t in &info.submitted {
        let k = t.task;
        let Some(rt) = reference.jobs.get(&k.0).and_then(|j| j.tasks.get(&k.1)) else {
            continue;
        };
        let rj = &reference.jobs[&k.0];
        // dependencies: the original ones minus those that finished successfully
        let mut want: Vec<TaskKey> = rt
            .deps
            .iter()
            .filter(|d| {
                rj.tasks
                    .get(d)
                    .is_none_or(|x| x.state != RefTaskState::Finished)
            })
            .map(|d| (k.0, *d))
            .collect();
        want.sort();
        let mut got = t.deps.clone();
        got.sort();
        if got != want {
            // A pending task with a dependency on a failed/canceled task. If the task was
            // submitted after the dependency had died this is the known late-dependent defect
            // (C03). If it already existed when the dependency died, the journal records the
            // death of the dependency without the abort of its dependent (C03 across a restart):
            // the dependent must not become runnable.
            let dead = |x: &crate::restore_ref::RefTask| {
                matches!(
                    x.state,
                    RefTaskState::Failed | RefTaskState::Canceled | RefTaskState::Aborted
                )
            };
            let dead_dep = rt.deps.iter().any(|d| rj.tasks.get(d).is_some_and(dead));
            let survived = rt.deps.iter().any(|d| {
                rj.tasks.get(d).is_some_and(|x| {
                    dead(x) && x.outcome_at.is_some_and(|o| o > rt.submitted_at)
                })
            });
            fnd(
                out,
                if survived { "C03" } else { "C10" },
                if survived {
                    "dependent-of-dead-task-runnable-after-restart"
                } else {
                    "restored-dependencies"
                },
                if survived {
                    ""
                } else if dead_dep {
                    "dependency-on-dead-task"
                } else {
                    ""
                },
                format!(
                    "task {k:?}: unfinished dependencies in the journal {want:?}, handed to the scheduler with {got:?}"
                ),
                step,
            );
        }
        // C06: the next execution gets an instance id above every recorded one
        let core_task = core.tasks.iter().find(|x| tkey(x.id) == k);
        // (the scheduler silently drops a dependency on a task it does not know yet: the order in
        // which the restored submits are handed over matters)
        if let Some(ct) = core_task
            && got == want
        {
            let mut kept: Vec<TaskKey> = ct.deps.iter().map(|d| tkey(*d)).collect();
            kept.sort();
            if kept != want {
                fnd(
                    out,
                    "C10",
                    "restored-dependencies",
                    "dropped-by-the-scheduler",
                    format!(
                        "task {k:?}: handed to the scheduler with its unfinished dependencies {want:?}, the scheduler keeps {kept:?}"
                    ),
                    step,
                );
            }
        }
        if let Some(ct) = core_task {
            if let Some(max) = rt.started_instances.iter().max()
                && ct.instance_id.as_num() <= *max
            {
                fnd(
                    out,
                    "C06",
                    "instance-after-restart",
                    "",
                    format!(
                        "task {k:?}: executions with instances {:?} are recorded, after the restart the scheduler holds instance {}",
                        rt.started_instances,
                        ct.instance_id
                    ),
                    step,
                );
            }
            // C07: the crash count survives
            if ct.crash_counter != rt.crash_count {
                let mn = rt.rq.is_multi_node();
                fnd(
                    out,
                    "C07",
                    "crash-count-after-restart",
                    if mn { "multi-node" } else { "" },
                    format!(
                        "task {k:?}: the journal records {} failure losses while it was running, the restarted scheduler counts {}",
                        rt.crash_count, ct.crash_counter
                    ),
                    step,
                );
            }
            match &ct.state {
                tako::verif::TaskStateSnapshot::Waiting { .. } => {}
                s => fnd(
                    out,
                    "C10",
                    "restored-task-not-waiting",
                    "",
                    format!("task {k:?} is {s:?} right after the restart"),
                    step,
                ),
            }
        }
    }

    // ---- C11: identifiers
    if let Some(max) = reference.job_ids_mentioned.iter().max()
        && info.job_id_counter <= *max
    {
        fnd(
            out,
            "C11",
            "job-id-counter",
            "",
            format!(
                "the journal mentions job {max}, the next job id after the restart is {}",
                info.job_id_counter
            ),
            step,
        );
    }
    if let Some(max) = reference.worker_ids_mentioned.iter().max()
        && info.worker_id_counter < *max
    {
        // the first id issued is counter + 1
        fnd(
            out,
            "C11",
            "worker-id-counter",
            "",
            format!(
                "the journal mentions worker {max}, the next worker id after the restart is {}",
                info.worker_id_counter + 1
            ),
            step,
        );
    }
    if let Some(max) = reference.queue_ids_mentioned.iter().max()
        && info.queue_id_counter <= *max
    {
        fnd(
            out,
            "C11",
            "queue-id-counter",
            "",
            format!(
                "the journal mentions allocation queue {max}, the next queue id after the restart is {}",
                info.queue_id_counter
            ),
            step,
        );
    }
    let restored_queues: BTreeSet<u32> = info.queues.iter().copied().collect();
    if restored_queues != reference.live_queues {
        fnd(
            out,
            "C10",
            "restored-queues",
            "",
            format!(
                "allocation queues alive in the journal {:?}, restored {:?}",
                reference.live_queues, restored_queues
            ),
            step,
        );
    }
    for (q, restored) in &info.queue_resources {
        let expected = reference.queue_resources.get(q);
        if expected != restored.as_ref() {
            fnd(
                out,
                "C10",
                "restored-queue-worker-resources",
                if restored.is_none() { "forgotten" } else { "different" },
                format!(
                    "allocation queue {q}: the journal records that its workers have {:?}, the restored queue knows {:?}",
                    expected, restored
                ),
                step,
            );
        }
    }
    if let Some(uid) = &reference.server_uid
        && *uid != info.server_uid
    {
        fnd(
            out,
            "C11",
            "server-uid-changed",
            "",
            format!("the journal belongs to server {uid}, the restarted server calls itself {}", info.server_uid),
            step,
        );
    }
}

/// The model after a restart: exactly what was durably recorded.
pub fn model_from_ref(reference: &RefState, step: u64) -> Model {
    let mut m = Model::default();
    for (jid, j) in &reference.jobs {
        let mut tasks = BTreeMap::new();
        for (tid, t) in &j.tasks {
            let state = match &t.state {
                RefTaskState::Waiting | RefTaskState::Running { .. } => MState::Waiting,
                RefTaskState::Finished => MState::Finished,
                RefTaskState::Failed => MState::Failed,
                RefTaskState::Canceled => MState::Canceled,
                RefTaskState::Aborted => MState::Aborted,
            };
            let terminal = state.is_terminal();
            tasks.insert(
                *tid,
                MTask {
                    deps: t.deps.clone(),
                    props: TaskProps {
                        priority: t.priority,
                        time_limit: t.time_limit_s,
                        crash_limit: match t.crash_limit {
                            tako::gateway::CrashLimit::NeverRestart => CrashSpec::Never,
                            tako::gateway::CrashLimit::MaxCrashes(n) => CrashSpec::Max(n),
                            tako::gateway::CrashLimit::Unlimited => CrashSpec::Unlimited,
                        },
                    },
                    rq: t.rq.clone(),
                    state,
                    crash_count: t.crash_count,
                    started_instances: t.started_instances.clone(),
                    submit_step: 0,
                    dead_dep_at_submit: false,
                    error: t.error.clone(),
                    terminal_step: if terminal { Some(0) } else { None },
                    ever_started: !t.started_instances.is_empty(),
                    started_since_waiting: false,
                },
            );
        }
        let mut job = MJob {
            id: *jid,
            open: j.open,
            max_fails: j.max_fails,
            tasks,
            completed_events: 0,
            n_failed: j.n_failed,
            submits: j.submits,
            limit_exceeded_step: None,
        };
        if job.limit_exceeded() {
            job.limit_exceeded_step = Some(step);
        }
        // tasks that depend on a dead task at restart (late-dependent defect) are marked
        let ids: Vec<u32> = job.tasks.keys().copied().collect();
        for id in ids {
            if !job.tasks[&id].state.is_terminal() && job.has_dead_ancestor(id) {
                job.tasks.get_mut(&id).unwrap().dead_dep_at_submit = true;
            }
        }
        m.jobs.insert(*jid, job);
    }
    m.job_ids_seen = reference.job_ids_mentioned.clone();
    m.worker_ids_seen = reference.worker_ids_mentioned.clone();
    m.queue_ids_seen = reference.queue_ids_mentioned.clone();
    if let Some(uid) = &reference.server_uid {
        m.server_uids.push(uid.clone());
    }
    m
}

/* ---------------------------------------------------------------------------------------- */
/* Restart summaries (C12 metamorphic comparison, C10 sweeps)                               */
/* ---------------------------------------------------------------------------------------- */

#[derive(Debug, Clone, PartialEq, Eq)]
pub struct RestartSummary {
    pub outcome: String,
    /// job -> (open, task -> outcome kind)
    pub jobs: BTreeMap<u32, (bool, BTreeMap<u32, &'static str>)>,
    /// pending task -> (remaining deps, next instance id, crash count)
    pub pending: BTreeMap<TaskKey, (Vec<TaskKey>, u32, u32)>,
    pub queues: BTreeSet<u32>,
    pub queue_resources: BTreeMap<u32, Option<String>>,
}

pub fn restart_summary(world: &World) -> RestartSummary {
    let mut s = RestartSummary {
        outcome: "ok".into(),
        jobs: BTreeMap::new(),
        pending: BTreeMap::new(),
        queues: BTreeSet::new(),
        queue_resources: BTreeMap::new(),
    };
    if let Some(p) = &world.dead {
        s.outcome = format!("panic at {}", p.location());
        return s;
    }
    if let Some(info) = &world.last_restore {
        if let Some(e) = &info.error {
            s.outcome = format!("error: {e}");
            return s;
        }
        s.queues = info.queues.iter().copied().collect();
        s.queue_resources = info.queue_resources.iter().cloned().collect();
    }
    let Some(inc) = &world.inc else { return s };
    let state = inc.state_ref.get();
    for job in state.jobs() {
        let tasks = job
            .iter_task_states()
            .map(|(id, st)| {
                (
                    id.as_num(),
                    match st {
                        JobTaskState::Waiting | JobTaskState::Running { .. } => "waiting",
                        JobTaskState::Finished { .. } => "finished",
                        JobTaskState::Failed { .. } => "failed",
                        JobTaskState::Canceled { .. } => "canceled",
                        JobTaskState::Aborted { .. } => "aborted",
                    },
                )
            })
            .collect();
        s.jobs.insert(job.job_id.as_num(), (job.is_open(), tasks));
    }
    let core = inc.server.snapshot();
    for t in &core.tasks {
        let mut deps: Vec<TaskKey> = t.deps.iter().map(|d| tkey(*d)).collect();
        deps.sort();
        s.pending
            .insert(tkey(t.id), (deps, t.instance_id.as_num(), t.crash_counter));
    }
    s
}

fn restart_from(world: &World, bytes: &[u8], tag: &str) -> World {
    World::from_journal(world.cfg.clone(), world.scratch.join(tag), bytes)
}

/// C12: restarting from the pruned journal == restarting from the journal before the prune.
pub fn check_prune(world: &World, step: u64, out: &mut Vec<Finding>) -> bool {
    let before = match std::fs::read(world.scratch.join("journal.before_prune")) {
        Ok(b) => b,
        Err(_) => return false,
    };
    let after = match std::fs::read(&world.journal_path) {
        Ok(b) => b,
        Err(_) => return false,
    };
    // the pruned file is a well-formed journal
    let tmp = world.scratch.join("journal.pruned_copy");
    let _ = std::fs::write(&tmp, &after);
    match record_boundaries(&tmp) {
        Err(e) => fnd(
            out,
            "C12",
            "pruned-journal-unreadable",
            "",
            format!("the pruned journal cannot be read: {e:?}"),
            step,
        ),
        Ok(offsets) => {
            if *offsets.last().unwrap() != after.len() as u64 {
                fnd(
                    out,
                    "C12",
                    "pruned-journal-has-partial-record",
                    "",
                    format!(
                        "the pruned journal has {} bytes but its records end at {}",
                        after.len(),
                        offsets.last().unwrap()
                    ),
                    step,
                );
            }
        }
    }
    let _ = std::fs::remove_file(&tmp);
    let wa = restart_from(world, &before, "prune_a");
    let wb = restart_from(world, &after, "prune_b");
    let a = restart_summary(&wa);
    let b = restart_summary(&wb);
    if a != b {
        let key = if a.outcome != b.outcome {
            "restart-outcome"
        } else if a.jobs.keys().ne(b.jobs.keys()) {
            "job-set"
        } else if a.jobs != b.jobs {
            "task-outcomes"
        } else if a.pending.keys().ne(b.pending.keys()) {
            "pending-set"
        } else if a.queues != b.queues {
            "queues"
        } else {
            // which component of the pending tasks differs
            // (a difference only in what the queues know about their workers comes last: it
            // is a known finding and must not hide a difference in the pending tasks)
            let mut k = if a.pending == b.pending {
                "queue-worker-resources"
            } else {
                "pending-details"
            };
            for (t, (da, ia, ca)) in &a.pending {
                if let Some((db, ib, cb)) = b.pending.get(t) {
                    if da != db {
                        k = "dependencies";
                    } else if ia != ib {
                        k = "instance-id";
                    } else if ca != cb {
                        k = "crash-count";
                    } else {
                        continue;
                    }
                    break;
                }
            }
            k
        };
        let detail = diff_summaries(&a, &b);
        fnd(
            out,
            "C12",
            "prune-changes-restart",
            key,
            format!(
                "restarting from the pruned journal differs from restarting from the journal before the prune: {detail}"
            ),
            step,
        );
    }
    true
}

fn diff_summaries(a: &RestartSummary, b: &RestartSummary) -> String {
    let mut parts = Vec::new();
    if a.outcome != b.outcome {
        parts.push(format!("outcome {} vs {}", a.outcome, b.outcome));
    }
    for (j, ja) in &a.jobs {
        match b.jobs.get(j) {
            None => parts.push(format!("job {j} only before the prune")),
            Some(jb) if ja != jb => parts.push(format!("job {j}: {ja:?} vs {jb:?}")),
            _ => {}
        }
    }
    for j in b.jobs.keys() {
        if !a.jobs.contains_key(j) {
            parts.push(format!("job {j} only after the prune"));
        }
    }
    for (t, pa) in &a.pending {
        match b.pending.get(t) {
            None => parts.push(format!("pending task {t:?} only before the prune")),
            Some(pb) if pa != pb => parts.push(format!(
                "task {t:?}: (deps, instance, crashes) {pa:?} vs {pb:?}"
            )),
            _ => {}
        }
    }
    for t in b.pending.keys() {
        if !a.pending.contains_key(t) {
            parts.push(format!("pending task {t:?} only after the prune"));
        }
    }
    if a.queue_resources != b.queue_resources {
        parts.push(format!(
            "worker resources known to the queues {:?} vs {:?}",
            a.queue_resources, b.queue_resources
        ));
    }
    if a.queues != b.queues {
        parts.push(format!("queues {:?} vs {:?}", a.queues, b.queues));
    }
    parts.truncate(6);
    parts.join("; ")
}

/// C10 on a complete (flushed) journal: restart from the whole file, and - for a sweep - from
/// every record boundary and `interior` seeded interior bytes per record.
pub fn check_journal_cuts(
    world: &World,
    bytes: &[u8],
    cuts: &[u64],
    step: u64,
    out: &mut Vec<Finding>,
) -> (usize, usize) {
    let full = world.scratch.join("journal.sweep");
    if std::fs::write(&full, bytes).is_err() {
        return (0, 0);
    }
    let mut done = 0;
    let mut torn = 0;
    for cut in cuts {
        let cut = (*cut).min(bytes.len() as u64);
        let Ok((reference, info)) = restore_expectation(&full, cut, &world.scratch) else {
            fnd(
                out,
                "HARNESS",
                "reference-fold-failed",
                "",
                format!("cannot fold the journal for cut {cut}"),
                step,
            );
            continue;
        };
        let w = restart_from(world, &bytes[..cut as usize], "sweep");
        compare_restore(&reference, &w, &info, step, out);
        done += 1;
        if info.torn {
            torn += 1;
        }
    }
    let _ = std::fs::remove_file(&full);
    (done, torn)
}

/* ---------------------------------------------------------------------------------------- */
/* C12: batched cancel records spanning several jobs                                        */
/* ---------------------------------------------------------------------------------------- */

/// The quantifier of C12 includes cancel records that span live and completed jobs. The running
/// server writes one batch per job, so such a journal is derived from the real one: a contiguous
/// run `JobCancel(A) TasksCanceled(A..) [JobCompleted(A)|JobIdle(A)] JobCancel(B) TasksCanceled(B..) ..`
/// (written by one multi-job cancel request) is rewritten to
/// `JobCancel(A) JobCancel(B) .. TasksCanceled(A.. B..) [JobCompleted(A)] ..`, jobs that are not
/// live at the prune first. The derived journal must restore like the original (otherwise the
/// derivation is not trusted and nothing is judged); then the real prune is applied to it with
/// the live sets of the real prune request and the two restarts are compared.
/// Returns Some(true) if a derived journal was judged.
pub fn check_prune_batched(
    world: &World,
    live_jobs: &tako::Set<tako::JobId>,
    live_workers: &tako::Set<tako::WorkerId>,
    step: u64,
    out: &mut Vec<Finding>,
) -> Option<bool> {
    use hyperqueue::server::event::Event;
    use hyperqueue::server::event::journal::{JournalReader, JournalWriter, verif_prune_journal};
    use hyperqueue::server::event::payload::EventPayload;

    let before_path = world.scratch.join("journal.before_prune");
    let before = std::fs::read(&before_path).ok()?;
    let mut reader = JournalReader::open(&before_path).ok()?;
    let events: Vec<Event> = (&mut reader).collect::<Result<Vec<_>, _>>().ok()?;
    drop(reader);

    struct Group {
        job: tako::JobId,
        cancel: Event,
        tasks: Vec<tako::TaskId>,
        time: Event,
        tail: Vec<Event>,
    }
    let mut result: Vec<Event> = Vec::with_capacity(events.len());
    let mut applied = false;
    let mut i = 0;
    while i < events.len() {
        // collect consecutive groups
        let mut groups: Vec<Group> = Vec::new();
        let mut j = i;
        loop {
            let Some(Event {
                payload: EventPayload::JobCancel { job_id, .. },
                ..
            }) = events.get(j)
            else {
                break;
            };
            let Some(
                tc @ Event {
                    payload: EventPayload::TasksCanceled { task_ids },
                    ..
                },
            ) = events.get(j + 1)
            else {
                break;
            };
            if task_ids.iter().any(|t| t.job_id() != *job_id) {
                break;
            }
            let mut g = Group {
                job: *job_id,
                cancel: events[j].clone(),
                tasks: task_ids.clone(),
                time: tc.clone(),
                tail: Vec::new(),
            };
            j += 2;
            while let Some(e) = events.get(j) {
                match &e.payload {
                    EventPayload::JobCompleted(id) | EventPayload::JobIdle(id) if id == job_id => {
                        g.tail.push(e.clone());
                        j += 1;
                    }
                    _ => break,
                }
            }
            groups.push(g);
        }
        if groups.len() >= 2 {
            applied = true;
            // jobs that are not live at the prune come first in the batch
            groups.sort_by_key(|g| live_jobs.contains(&g.job));
            for g in &groups {
                result.push(g.cancel.clone());
            }
            let mut merged = groups[0].time.clone();
            merged.payload = EventPayload::TasksCanceled {
                task_ids: groups.iter().flat_map(|g| g.tasks.iter().copied()).collect(),
            };
            result.push(merged);
            for g in &groups {
                result.extend(g.tail.iter().cloned());
            }
            i = j;
        } else {
            result.push(events[i].clone());
            i += 1;
        }
    }
    if !applied {
        return Some(false);
    }
    let t_path = world.scratch.join("journal.batched");
    let tp_path = world.scratch.join("journal.batched_pruned");
    let _ = std::fs::remove_file(&t_path);
    let _ = std::fs::remove_file(&tp_path);
    {
        let mut w = JournalWriter::create(&t_path).ok()?;
        for e in result {
            w.store(e).ok()?;
        }
        w.finish().ok()?;
    }
    {
        let mut r = JournalReader::open(&t_path).ok()?;
        let mut w = JournalWriter::create(&tp_path).ok()?;
        if let Err(e) = verif_prune_journal(&mut r, &mut w, live_jobs, live_workers) {
            fnd(
                out,
                "C12",
                "prune-fails",
                "batched-records",
                format!("pruning a journal with a cancel record spanning several jobs failed: {e:?}"),
                step,
            );
            return Some(true);
        }
        w.finish().ok()?;
    }
    let t_bytes = std::fs::read(&t_path).ok()?;
    let tp_bytes = std::fs::read(&tp_path).ok()?;
    let w0 = restart_from(world, &before, "prune_c");
    let wa = restart_from(world, &t_bytes, "prune_d");
    let s0 = restart_summary(&w0);
    let a = restart_summary(&wa);
    if s0 != a {
        // the derived journal is not equivalent to the original: do not judge
        return Some(false);
    }
    let wb = restart_from(world, &tp_bytes, "prune_e");
    let mut b = restart_summary(&wb);
    // (what the queues know about their workers is judged on the real journal)
    b.queue_resources = a.queue_resources.clone();
    if a != b {
        let detail = diff_summaries(&a, &b);
        fnd(
            out,
            "C12",
            "prune-changes-restart",
            "batched-cancel-record-spanning-jobs",
            format!(
                "journal derived from the real one by merging the cancel records of one multi-job cancel into one batch: restarting from its pruned version differs from restarting from it: {detail}"
            ),
            step,
        );
    }
    Some(true)
}
