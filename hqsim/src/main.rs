#![allow(dead_code)]
#![allow(clippy::too_many_arguments)]

mod engines;
mod genr;
mod model;
mod oracles;
mod oracles_worker;
mod run;
mod sim;
mod spec;

use genr::Profile;

fn arg_value(args: &[String], name: &str) -> Option<String> {
    args.iter()
        .position(|a| a == name)
        .and_then(|i| args.get(i + 1).cloned())
}

fn main() {
    sim::panic::install_hook();
    let args: Vec<String> = std::env::args().collect();
    let cmd = args.get(1).map(|s| s.as_str()).unwrap_or("");
    match cmd {
        "one" => {
            let seed: u64 = arg_value(&args, "--seed").and_then(|s| s.parse().ok()).unwrap_or(1);
            let profile = arg_value(&args, "--profile")
                .and_then(|s| Profile::parse(&s))
                .unwrap_or(Profile::General);
            let verbose = args.iter().any(|a| a == "-v");
            let r = run::run_seed(
                seed,
                profile,
                &run::RunOptions {
                    verbose,
                    tag: "one".into(),
                    force_journal: None,
                },
            );
            println!(
                "seed={} steps={} suffix={} quiescent={} sim_ms={} tasks={} jobs={} log_hash={:016x} panic={}",
                r.seed, r.steps, r.suffix_steps, r.quiescent, r.sim_ms, r.n_tasks, r.n_jobs, r.log_hash, r.aborted_by_panic
            );
            println!("probes: {:?}", r.probes.0);
            println!("faults: {:?}", r.faults);
            for f in &r.findings {
                println!("FINDING {} {} step={} : {}", f.property, f.signature(), f.step, f.message);
            }
        }
        "many" => {
            let from: u64 = arg_value(&args, "--from").and_then(|s| s.parse().ok()).unwrap_or(1);
            let n: u64 = arg_value(&args, "--n").and_then(|s| s.parse().ok()).unwrap_or(100);
            let profile = arg_value(&args, "--profile").and_then(|s| Profile::parse(&s));
            let start = std::time::Instant::now();
            let mut sigs: std::collections::BTreeMap<String, (u64, u64, String)> = Default::default();
            let mut probes = oracles::Probes::default();
            let mut steps = 0;
            for i in 0..n {
                let seed = from + i;
                let p = profile.unwrap_or(Profile::all()[(seed % 8) as usize]);
                let r = run::run_seed(
                    seed,
                    p,
                    &run::RunOptions {
                        verbose: false,
                        tag: "many".into(),
                        force_journal: None,
                    },
                );
                steps += r.steps + r.suffix_steps;
                probes.merge(&r.probes);
                let mut seen = std::collections::BTreeSet::new();
                for f in &r.findings {
                    let key = format!("{} {}", f.property, f.signature());
                    if seen.insert(key.clone()) {
                        let e = sigs.entry(key).or_insert((0, seed, f.message.clone()));
                        e.0 += 1;
                    }
                }
            }
            println!(
                "{} runs, {} steps in {:.1}s ({:.1} runs/s)",
                n,
                steps,
                start.elapsed().as_secs_f64(),
                n as f64 / start.elapsed().as_secs_f64()
            );
            for (k, (count, seed, msg)) in &sigs {
                println!("{count:5} x {k}  (first seed {seed}): {msg}");
            }
            println!("probes: {:?}", probes.0);
        }
        _ => {
            eprintln!("usage: hqsim one|many ...");
            std::process::exit(2);
        }
    }
}
