#![allow(dead_code)]
#![allow(clippy::too_many_arguments)]

mod engines;
mod genr;
mod model;
mod oracles;
mod oracles_restore;
mod oracles_worker;
mod restore_ref;
mod batch;
mod run;
mod shrink;
mod sim;
mod spec;

use genr::Profile;

fn arg_value(args: &[String], name: &str) -> Option<String> {
    args.iter()
        .position(|a| a == name)
        .and_then(|i| args.get(i + 1).cloned())
}

struct StderrLogger;

impl log::Log for StderrLogger {
    fn enabled(&self, _metadata: &log::Metadata) -> bool {
        true
    }
    fn log(&self, record: &log::Record) {
        eprintln!("[{} {}] {}", record.level(), record.target(), record.args());
    }
    fn flush(&self) {}
}

static LOGGER: StderrLogger = StderrLogger;

fn main() {
    sim::panic::install_hook();
    // debugging aid: HQSIM_LOG=debug prints the log messages of the code under test
    if let Ok(level) = std::env::var("HQSIM_LOG") {
        let _ = log::set_logger(&LOGGER);
        log::set_max_level(level.parse().unwrap_or(log::LevelFilter::Debug));
    }
    if std::env::var("HQSIM_LOUD").is_ok() {
        sim::panic::set_quiet(false);
    }
    let args: Vec<String> = std::env::args().collect();
    let cmd = args.get(1).map(|s| s.as_str()).unwrap_or("");
    match cmd {
        "one" => {
            let seed: u64 = arg_value(&args, "--seed").and_then(|s| s.parse().ok()).unwrap_or(1);
            let profile = arg_value(&args, "--profile")
                .and_then(|s| Profile::parse(&s))
                .unwrap_or(Profile::General);
            let verbose = args.iter().any(|a| a == "-v");
            let r = run::run_seed(
                seed,
                profile,
                &run::RunOptions {
                    verbose,
                    tag: "one".into(),
                    force_journal: None,
                    sweep_one_in: None,
                    sweep_interior: 0,
                },
            );
            println!(
                "seed={} steps={} suffix={} quiescent={} sim_ms={} tasks={} jobs={} log_hash={:016x} panic={}",
                r.seed, r.steps, r.suffix_steps, r.quiescent, r.sim_ms, r.n_tasks, r.n_jobs, r.log_hash, r.aborted_by_panic
            );
            println!("probes: {:?}", r.probes.0);
            println!("faults: {:?}", r.faults);
            for f in &r.findings {
                println!("FINDING {} {} step={} : {}", f.property, f.signature(), f.step, f.message);
            }
        }
        "many" => {
            let from: u64 = arg_value(&args, "--from").and_then(|s| s.parse().ok()).unwrap_or(1);
            let n: u64 = arg_value(&args, "--n").and_then(|s| s.parse().ok()).unwrap_or(100);
            let profile = arg_value(&args, "--profile").and_then(|s| Profile::parse(&s));
            let start = std::time::Instant::now();
            let mut sigs: std::collections::BTreeMap<String, (u64, u64, String)> = Default::default();
            let mut probes = oracles::Probes::default();
            let mut steps = 0;
            for i in 0..n {
                let seed = from + i;
                let p = profile.unwrap_or(Profile::all()[(seed % 8) as usize]);
                if args.iter().any(|a| a == "--list") {
                    println!("seed {seed} profile {}", p.name());
                }
                let r = run::run_seed(
                    seed,
                    p,
                    &run::RunOptions {
                        verbose: false,
                        tag: "many".into(),
                        force_journal: None,
                        sweep_one_in: None,
                        sweep_interior: 0,
                    },
                );
                steps += r.steps + r.suffix_steps;
                probes.merge(&r.probes);
                let mut seen = std::collections::BTreeSet::new();
                for f in &r.findings {
                    let key = format!("{} {}", f.property, f.signature());
                    if seen.insert(key.clone()) {
                        let e = sigs.entry(key).or_insert((0, seed, f.message.clone()));
                        e.0 += 1;
                    }
                }
            }
            println!(
                "{} runs, {} steps in {:.1}s ({:.1} runs/s)",
                n,
                steps,
                start.elapsed().as_secs_f64(),
                n as f64 / start.elapsed().as_secs_f64()
            );
            for (k, (count, seed, msg)) in &sigs {
                println!("{count:5} x {k}  (first seed {seed}): {msg}");
            }
            println!("probes: {:?}", probes.0);
        }
        "shard" => {
            let property = arg_value(&args, "--property").unwrap();
            let seed: u64 = arg_value(&args, "--seed").and_then(|s| s.parse().ok()).unwrap_or(batch::DEFAULT_SEED);
            let from: u64 = arg_value(&args, "--from").and_then(|s| s.parse().ok()).unwrap_or(0);
            let n: u64 = arg_value(&args, "--n").and_then(|s| s.parse().ok()).unwrap_or(1);
            let stride: u64 = arg_value(&args, "--stride").and_then(|s| s.parse().ok()).unwrap_or(1);
            let out = arg_value(&args, "--out").unwrap();
            let props = batch::cluster_properties();
            let cfg = props.iter().find(|p| p.id == property).expect("property");
            let shard = batch::run_shard(cfg, seed, from, n, stride, &format!("s{from}"));
            std::fs::write(&out, serde_json::to_string(&shard).unwrap()).unwrap();
        }
        "check" => {
            let property = arg_value(&args, "--property").unwrap();
            let tier = arg_value(&args, "--tier").unwrap_or_else(|| "quick".into());
            let seed: u64 = std::env::var("VERIF_SEED")
                .ok()
                .and_then(|s| s.parse().ok())
                .or_else(|| arg_value(&args, "--seed").and_then(|s| s.parse().ok()))
                .unwrap_or(batch::DEFAULT_SEED);
            let jobs: u64 = arg_value(&args, "--jobs")
                .and_then(|s| s.parse().ok())
                .unwrap_or_else(|| std::thread::available_parallelism().map(|n| n.get() as u64).unwrap_or(8));
            let verif_dir = std::path::PathBuf::from(
                arg_value(&args, "--verif-dir").unwrap_or_else(|| "/verif".into()),
            );
            let check_args = batch::CheckArgs {
                property: property.clone(),
                tier,
                seed,
                jobs,
                runs_override: arg_value(&args, "--runs").and_then(|s| s.parse().ok()),
                verif_dir,
            };
            let p = property.as_str();
            let code = if engines::auth::PROPERTIES.contains(&p) {
                engines::auth::check(&check_args)
            } else if engines::stream::PROPERTIES.contains(&p) {
                engines::stream::check(&check_args)
            } else if p == "C04" {
                // two parts: the worker state machines in cluster runs (task ends, cancels,
                // launch failures, kills around the allocator), then the allocator alone
                let cluster_code = batch::check_cluster(&check_args);
                let ev = check_args.verif_dir.join("evidence").join("C04.json");
                let cluster_ev: Option<serde_json::Value> = std::fs::read_to_string(&ev)
                    .ok()
                    .and_then(|t| serde_json::from_str(&t).ok());
                let alloc_code = engines::alloc::check(&check_args);
                if let (Some(c), Some(mut a)) = (
                    cluster_ev,
                    std::fs::read_to_string(&ev)
                        .ok()
                        .and_then(|t| serde_json::from_str::<serde_json::Value>(&t).ok()),
                ) {
                    let cv = c.get("violations").and_then(|v| v.as_u64()).unwrap_or(0);
                    let av = a.get("violations").and_then(|v| v.as_u64()).unwrap_or(0);
                    a["violations"] = serde_json::json!(cv + av);
                    let cw = c.get("wall_s").and_then(|v| v.as_f64()).unwrap_or(0.0);
                    let aw = a.get("wall_s").and_then(|v| v.as_f64()).unwrap_or(0.0);
                    a["wall_s"] = serde_json::json!(cw + aw);
                    if let Some(cov) = a.get_mut("coverage") {
                        cov["worker_state_machine_part"] = c.get("coverage").cloned().unwrap_or_default();
                    }
                    batch::write_json(&ev, &a);
                }
                cluster_code.max(alloc_code)
            } else if engines::alloc::PROPERTIES.contains(&p) {
                engines::alloc::check(&check_args)
            } else if engines::autoalloc::PROPERTIES.contains(&p) {
                engines::autoalloc::check(&check_args)
            } else {
                batch::check_cluster(&check_args)
            };
            std::process::exit(code);
        }
        "replay" => {
            let path = std::path::PathBuf::from(args.get(2).expect("replay file"));
            let verbose = args.iter().any(|a| a == "-v");
            // the engine is recorded in the file
            let engine = std::fs::read_to_string(&path)
                .ok()
                .and_then(|t| serde_json::from_str::<serde_json::Value>(&t).ok())
                .and_then(|v| v.get("engine").and_then(|e| e.as_str().map(|s| s.to_string())))
                .unwrap_or_else(|| "cluster".to_string());
            let code = match engine.as_str() {
                "auth" => engines::auth::replay(&path, verbose),
                "stream" => engines::stream::replay(&path, verbose),
                "alloc" => engines::alloc::replay(&path, verbose),
                "autoalloc" => engines::autoalloc::replay(&path, verbose),
                _ => batch::replay_file(&path, verbose),
            };
            std::process::exit(code);
        }
        "shrink" => {
            // hqsim shrink --seed S --profile P --target "C08 oracle@key" [--out file]
            let seed: u64 = arg_value(&args, "--seed").and_then(|s| s.parse().ok()).unwrap();
            let profile = arg_value(&args, "--profile").and_then(|s| Profile::parse(&s)).unwrap();
            let target = arg_value(&args, "--target").unwrap();
            let r = run::run_seed(seed, profile, &run::RunOptions { verbose: false, tag: "shrink".into(), force_journal: None, sweep_one_in: None, sweep_interior: 0 });
            let plan = r.plan.clone().unwrap();
            let (actions, stats) = shrink::shrink(&plan, seed, &r.trace, &target, "shrink", 2000, (None, 0));
            eprintln!("shrunk {} -> {} actions in {} replays", stats.from, stats.to, stats.replays);
            let rr = run::replay_actions(&plan, seed, &actions, &run::RunOptions { verbose: false, tag: "shrink".into(), force_journal: None, sweep_one_in: None, sweep_interior: 0 }, None);
            let msg = rr.findings.iter().find(|f| format!("{} {}", f.property, f.signature()) == target).map(|f| f.message.clone()).unwrap_or_default();
            let file = run::ReplayFile {
                engine: "cluster".into(),
                property: target.split(' ').next().unwrap().to_string(),
                seed,
                plan,
                actions,
                signature: target.clone(),
                message: msg,
                log_hash: format!("{:016x}", rr.log_hash),
                minimised: true,
                sweep_one_in: None,
                sweep_interior: 0,
            };
            let out = arg_value(&args, "--out").unwrap_or_else(|| "/verif/replays/manual.json".into());
            if let Some(p) = std::path::Path::new(&out).parent() { let _ = std::fs::create_dir_all(p); }
            std::fs::write(&out, serde_json::to_string_pretty(&file).unwrap()).unwrap();
            println!("{out}");
        }
        _ => {
            eprintln!("usage: hqsim one|many|shard|check|replay|shrink ...");
            std::process::exit(2);
        }
    }
}
