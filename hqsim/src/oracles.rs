//! Oracles of the cluster engine. Evaluated after every simulator step on the observation of the
//! step (E, wire messages, launch log L) and on snapshots of the real state (S).

use std::collections::{BTreeMap, BTreeSet};

use hyperqueue::server::event::payload::EventPayload;
use hyperqueue::server::job::JobTaskState;
use hyperqueue::transfer::messages::{CancelJobResponse, SubmitResponse, ToClientMessage};
use tako::gateway::{CrashLimit, LostWorkerReason};
use tako::verif::{
    CoreSnapshot, FromWorkerMessage, TaskStateSnapshot, ToWorkerMsg, WorkerAssignmentSnapshot,
    WorkerTaskUpdate,
};

use crate::engines::cluster::{ExecEnd, StepObs, StopKind, TaskKey, World, WorkerPhase, tkey};
use crate::model::*;
use crate::spec::*;

#[derive(Default, Debug, Clone, serde::Serialize)]
pub struct Probes(pub BTreeMap<String, u64>);

impl Probes {
    pub fn hit(&mut self, name: &str) {
        *self.0.entry(name.to_string()).or_insert(0) += 1;
    }
    pub fn add(&mut self, name: &str, n: u64) {
        *self.0.entry(name.to_string()).or_insert(0) += n;
    }
    pub fn merge(&mut self, other: &Probes) {
        for (k, v) in &other.0 {
            *self.0.entry(k.clone()).or_insert(0) += v;
        }
    }
    pub fn get(&self, name: &str) -> u64 {
        self.0.get(name).copied().unwrap_or(0)
    }
}

struct PendingSubmit {
    expectation: SubmitExpectation,
    max_fails: Option<u32>,
    /// the Submit event was seen (effects applied)
    applied_job: Option<u32>,
}

struct PendingCancel {
    /// per selected job in request order: tasks that were non-terminal when the request arrived
    expected: Vec<(u32, Option<Vec<u32>>)>,
    exact_selector: bool,
}

/// A worker processed CancelTasks for a task it was executing: the execution must observe it.
struct CancelObligation {
    worker: u32,
    task: TaskKey,
    instance: u32,
    step: u64,
    property: &'static str,
}

pub struct Checker {
    pub model: Model,
    pub probes: Probes,
    pub findings: Vec<Finding>,
    pending_submits: BTreeMap<u32, PendingSubmit>,
    pending_cancels: BTreeMap<u32, PendingCancel>,
    /// (worker, task) -> step at which the worker processed CancelTasks for the task
    worker_cancel_seen: BTreeMap<(u32, TaskKey), u64>,
    /// (worker, task) -> step of the last RetractResponse that contained the task
    worker_retracted: BTreeMap<(u32, TaskKey), u64>,
    /// (worker, task) -> step of the last ComputeTasks delivered to the worker with the task
    worker_got_task: BTreeMap<(u32, TaskKey), u64>,
    obligations: Vec<CancelObligation>,
    /// tasks that must never start: (task) -> reason
    must_not_start: BTreeMap<TaskKey, (&'static str, &'static str, u64, bool)>,
    /// launches already examined
    launches_seen: usize,
    /// JobCompleted seen in E per job (also for forgotten jobs)
    completed_jobs: BTreeSet<u32>,
    /// (client) -> job id a waiting client waits for
    pub waiting_clients: BTreeMap<u32, (u32, bool)>,
    pub in_fair_suffix: bool,
    /// tasks for which the current step must produce a failure because of a worker loss
    pub steps: u64,
    prev_core: Option<CoreSnapshot>,
    /// Tasks cancelled/aborted (by job) in the step in which a cancel was answered
    pub liveness_checked: bool,
    seen_signatures: BTreeSet<(&'static str, String)>,
    step_has_running_prefilled: bool,
    tainted_workers: BTreeSet<u32>,
}

fn fnd(
    out: &mut Vec<Finding>,
    property: &'static str,
    oracle: &'static str,
    key: impl Into<String>,
    message: String,
    step: u64,
) {
    out.push(Finding {
        property,
        oracle,
        key: key.into(),
        message,
        step,
    });
}

impl Checker {
    pub fn new() -> Self {
        Checker {
            model: Model::default(),
            probes: Probes::default(),
            findings: Vec::new(),
            pending_submits: BTreeMap::new(),
            pending_cancels: BTreeMap::new(),
            worker_cancel_seen: BTreeMap::new(),
            worker_retracted: BTreeMap::new(),
            worker_got_task: BTreeMap::new(),
            obligations: Vec::new(),
            must_not_start: BTreeMap::new(),
            launches_seen: 0,
            completed_jobs: BTreeSet::new(),
            waiting_clients: BTreeMap::new(),
            in_fair_suffix: false,
            steps: 0,
            prev_core: None,
            liveness_checked: false,
            seen_signatures: BTreeSet::new(),
            step_has_running_prefilled: false,
            tainted_workers: BTreeSet::new(),
        }
    }

    /// Must be called before executing a client request (the model's view *before* the step).
    pub fn before_client_op(&mut self, c: u32, op: &ClientOp) {
        match op {
            ClientOp::Submit {
                max_fails,
                job,
                spec,
                ..
            } => {
                let expectation = self.model.expect_submit(*job, spec);
                self.pending_submits.insert(
                    c,
                    PendingSubmit {
                        expectation,
                        max_fails: *max_fails,
                        applied_job: None,
                    },
                );
            }
            ClientOp::Cancel(sel) => {
                let jobs: Vec<u32> = match sel {
                    SelSpec::Ids(ids) => {
                        let mut v = ids.clone();
                        v.sort();
                        v.dedup();
                        v
                    }
                    // `All` = all jobs that are waiting or running; `LastN` depends on the id
                    // counter: both are checked through their per-job answers only
                    _ => Vec::new(),
                };
                let expected = jobs
                    .iter()
                    .map(|j| {
                        (
                            *j,
                            self.model.jobs.get(j).map(|mj| mj.non_terminal()),
                        )
                    })
                    .collect();
                self.pending_cancels.insert(
                    c,
                    PendingCancel {
                        expected,
                        exact_selector: matches!(sel, SelSpec::Ids(_)),
                    },
                );
            }
            _ => {}
        }
    }

    /// The main entry: digest one executed step.
    pub fn after_step(&mut self, world: &mut World, action: &Action, obs: &StepObs) {
        self.steps += 1;
        let step = world.step.get();
        let mut out: Vec<Finding> = Vec::new();
        if let Some(p) = &obs.panic
            && matches!(action, Action::CrashServer { .. })
            && !p.in_harness()
        {
            fnd(
                &mut out,
                "C10",
                "restart-panics",
                p.location(),
                format!("restart from the journal panicked at {}: {}", p.location(), p.message),
                step,
            );
            // a server that cannot start any more is a C09 matter as well
            fnd(
                &mut out,
                "C09",
                "panic",
                p.location(),
                format!("the server panicked while restarting from its journal at {}: {}", p.location(), p.message),
                step,
            );
            self.push_findings(out);
            return;
        }
        if let Some(p) = &obs.panic {
            if p.in_harness() {
                fnd(
                    &mut out,
                    "HARNESS",
                    "harness-panic",
                    p.location(),
                    format!("panic in harness code: {} at {}", p.message, p.location()),
                    step,
                );
            } else {
                fnd(
                    &mut out,
                    "C09",
                    "panic",
                    p.location(),
                    format!("panic at {}: {}", p.location(), p.message),
                    step,
                );
            }
            self.push_findings(out);
            return;
        }
        if obs.skipped {
            return;
        }

        // --- model snapshot before the events of this step (for cancel / max-fails oracles)
        let non_terminal_before: BTreeMap<u32, Vec<u32>> = self
            .model
            .jobs
            .iter()
            .map(|(id, j)| (*id, j.non_terminal()))
            .collect();
        let exceeded_before: BTreeSet<u32> = self
            .model
            .jobs
            .iter()
            .filter(|(_, j)| j.limit_exceeded())
            .map(|(id, _)| *id)
            .collect();

        if let Action::CrashServer { .. } = action {
            // the model is rebuilt from the surviving journal by `after_restore`, which the
            // driver calls next; nothing of the old incarnation can be compared any more
            self.pending_submits.clear();
            self.pending_cancels.clear();
            self.waiting_clients.clear();
            self.worker_cancel_seen.clear();
            self.worker_retracted.clear();
            self.worker_got_task.clear();
            self.obligations.clear();
            self.prev_core = None;
            self.tainted_workers.clear();
            self.model.lost_this_step.clear();
            return;
        }

        // --- E: listener stream and journal stream must agree on persisted records
        self.check_streams(obs, step, &mut out);

        // --- submit bookkeeping needs the request => handle Submit events here
        self.model.lost_this_step.clear();
        let mut step_canceled: BTreeMap<u32, Vec<Vec<u32>>> = BTreeMap::new();
        let mut step_aborted: BTreeMap<u32, BTreeSet<u32>> = BTreeMap::new();
        let mut step_terminal_events: Vec<(TaskKey, &'static str)> = Vec::new();
        for e in &obs.events {
            match &e.payload {
                EventPayload::Submit { job_id, .. } => {
                    let jid = job_id.as_num();
                    let c = match action {
                        Action::ClientSend { c, .. } => Some(*c),
                        _ => None,
                    };
                    let pending = c.and_then(|c| self.pending_submits.get_mut(&c));
                    match pending {
                        Some(p) => match &p.expectation {
                            SubmitExpectation::Accept { job, tasks } => {
                                if let Some(j) = job
                                    && *j != jid
                                {
                                    fnd(
                                        &mut out,
                                        "C13",
                                        "submit-wrong-job",
                                        "",
                                        format!("submit into job {j} was recorded for job {jid}"),
                                        step,
                                    );
                                }
                                if job.is_none() && self.model.job_ids_seen.contains(&jid) {
                                    fnd(
                                        &mut out,
                                        "C11",
                                        "job-id-reused",
                                        "submit",
                                        format!("job id {jid} issued twice"),
                                        step,
                                    );
                                }
                                self.model
                                    .apply_submit(jid, None, p.max_fails, tasks, step);
                                // tasks depending on an already dead task must never start
                                let dead: Vec<u32> = self.model.jobs[&jid]
                                    .tasks
                                    .iter()
                                    .filter(|(id, t)| {
                                        t.submit_step == step
                                            && tasks.iter().any(|x| x.0 == **id)
                                            && self.model.jobs[&jid].has_dead_ancestor(**id)
                                    })
                                    .map(|(id, _)| *id)
                                    .collect();
                                for id in dead {
                                    self.probes.hit("submit_on_dead_dependency");
                                    self.must_not_start.insert(
                                        (jid, id),
                                        ("C03", "late-dependent-of-dead-task", step, true),
                                    );
                                }
                                p.applied_job = Some(jid);
                            }
                            SubmitExpectation::Reject(why) => {
                                fnd(
                                    &mut out,
                                    "C13",
                                    "invalid-submit-accepted",
                                    *why,
                                    format!(
                                        "a submit that must be rejected ({why}) was recorded for job {jid}"
                                    ),
                                    step,
                                );
                            }
                        },
                        None => fnd(
                            &mut out,
                            "C13",
                            "submit-without-request",
                            "",
                            format!("Submit record for job {jid} without a matching request"),
                            step,
                        ),
                    }
                }
                EventPayload::TasksCanceled { task_ids } => {
                    let mut per_job: BTreeMap<u32, Vec<u32>> = BTreeMap::new();
                    for t in task_ids {
                        let k = tkey(*t);
                        per_job.entry(k.0).or_default().push(k.1);
                        step_terminal_events.push((k, "canceled"));
                    }
                    for (j, ids) in per_job {
                        step_canceled.entry(j).or_default().push(ids);
                    }
                }
                EventPayload::TasksAborted { task_ids } => {
                    for t in task_ids {
                        let k = tkey(*t);
                        step_aborted.entry(k.0).or_default().insert(k.1);
                        step_terminal_events.push((k, "aborted"));
                    }
                }
                EventPayload::TaskFinished { task_id } => {
                    step_terminal_events.push((tkey(*task_id), "finished"));
                    self.check_finish_has_execution(world, tkey(*task_id), step, &mut out);
                }
                EventPayload::TaskFailed { task_id, .. } => {
                    step_terminal_events.push((tkey(*task_id), "failed"));
                }
                EventPayload::TaskStarted {
                    task_id,
                    worker_ids,
                    ..
                } => {
                    let k = tkey(*task_id);
                    // C07: the crash count of a multi-node task follows its root worker, and the
                    // restore takes the first worker of the start record for the root
                    if worker_ids.len() > 1
                        && let Some(core) = world.core_snapshot()
                        && let Some(ct) = core.tasks.iter().find(|t| t.id == *task_id)
                        && let TaskStateSnapshot::RunningMultiNode(ws) = &ct.state
                        && ws.first() != worker_ids.first()
                    {
                        fnd(
                            &mut out,
                            "C07",
                            "start-record-names-wrong-root",
                            "",
                            format!(
                                "multi-node task {k:?} runs on {ws:?} (root first), its start is reported and journaled with workers {worker_ids:?}: after a restart the loss of the root is not counted"
                            ),
                            step,
                        );
                    }
                    if let Some((prop, oracle, since, _)) = self.must_not_start.get(&k) {
                        fnd(
                            &mut out,
                            prop,
                            oracle,
                            "started",
                            format!(
                                "task {k:?} was reported started although it must never start (since step {since})"
                            ),
                            step,
                        );
                    }
                }
                EventPayload::JobCompleted(j) => {
                    self.completed_jobs.insert(j.as_num());
                }
                _ => {}
            }
            self.model.on_event(&e.payload, step, &mut out);
        }

        // --- wire observations
        self.check_wire(world, obs, step, &mut out);

        // --- launches of this step (L)
        self.check_launches(world, step, &mut out);
        self.check_time_limits(world, action, step, &mut out);

        // --- C07: worker loss
        self.check_worker_loss(world, obs, step, &mut out);

        // --- C03 (b),(c) / C14: propagation and causes, evaluated at the end of the step
        self.check_propagation(
            &step_terminal_events,
            &step_aborted,
            &non_terminal_before,
            &exceeded_before,
            step,
            &mut out,
        );

        // --- client responses (C08 response, C13 submit atomicity, wait)
        self.check_responses(world, action, obs, &step_canceled, &non_terminal_before, step, &mut out);

        // --- state invariants on snapshots (C02 bijection, C05, C08 consistency, C13 counters)
        self.step_has_running_prefilled = matches!(
            &obs.server_processed,
            Some((_, FromWorkerMessage::TaskUpdate(ups)))
                if ups.iter().any(|u| matches!(u, WorkerTaskUpdate::RunningPrefilled(_)))
        );
        if matches!(action, Action::CrashServer { .. }) {
            self.tainted_workers.clear();
        }
        if world.dead.is_none() && world.inc.is_some() {
            self.check_state(world, action, obs, step, &mut out);
        }

        // --- obligations: a cancelled execution must observe the cancel
        self.check_obligations(world, action, step, &mut out);

        self.push_findings(out);
    }

    /// Only the first finding per signature is kept (the same inconsistency is usually seen
    /// again at every later step)
    fn push_findings(&mut self, out: Vec<Finding>) {
        for f in out {
            let key = (f.property, f.signature());
            if self.seen_signatures.insert(key) {
                self.findings.push(f);
            }
        }
    }

    fn check_streams(&mut self, obs: &StepObs, step: u64, out: &mut Vec<Finding>) {
        let persisted = |p: &EventPayload| {
            !matches!(
                p,
                EventPayload::JobIdle(_)
                    | EventPayload::TaskNotify(_)
                    | EventPayload::WorkerOverviewReceived(_)
            )
        };
        if obs.journal_events.is_empty() && obs.events.is_empty() {
            return;
        }
        let a: Vec<String> = obs
            .events
            .iter()
            .filter(|e| persisted(&e.payload))
            .map(|e| payload_digest(&e.payload))
            .collect();
        let b: Vec<String> = obs
            .journal_events
            .iter()
            .map(|e| payload_digest(&e.payload))
            .collect();
        // Without a journal nothing is handed to the journal channel
        if !b.is_empty() || obs.journal_events.len() == obs.events.len() {
            if a != b && !b.is_empty() {
                // ServerStart is emitted before the listener exists
                let b2: Vec<String> = b
                    .iter()
                    .filter(|s| !s.starts_with("ServerStart"))
                    .cloned()
                    .collect();
                if a != b2 {
                    fnd(
                        out,
                        "C01",
                        "journal-differs-from-clients",
                        "",
                        format!("clients saw {a:?}, the journal got {b:?}"),
                        step,
                    );
                }
            }
        }
    }

    fn check_finish_has_execution(
        &mut self,
        world: &World,
        k: TaskKey,
        step: u64,
        out: &mut Vec<Finding>,
    ) {
        // "a task is never reported finished unless a worker actually ran it to successful
        // completion": the worker the server had reported must have an execution of the task
        // that ended `Finished`.
        let Some(t) = self.model.task(k) else { return };
        let MState::Running { instance, workers } = &t.state else {
            return;
        };
        let root = workers.first().copied();
        let launches = world.launches.borrow();
        // (the instance id in TaskStarted is the server's current one; it can be ahead of the
        // execution's own id when the target of a pending redirect was lost meanwhile, so the
        // match is on task and worker only)
        let ok = launches.iter().any(|l| {
            l.task == k && Some(l.worker) == root && matches!(l.ended, Some((_, ExecEnd::Finished)))
        });
        if launches
            .iter()
            .any(|l| l.task == k && Some(l.worker) == root && l.instance != *instance && l.ended.is_some())
        {
            self.probes.hit("started_event_instance_differs_from_execution");
        }
        if !ok {
            fnd(
                out,
                "C01",
                "finished-without-successful-execution",
                "",
                format!(
                    "task {k:?} reported finished (instance {instance} on worker {root:?}) but no execution of it ended successfully there"
                ),
                step,
            );
        }
    }

    fn check_wire(&mut self, world: &World, obs: &StepObs, step: u64, out: &mut Vec<Finding>) {
        // C08 / C14: "any execution of a canceled task still in progress is stopped", "running
        // ones are told to stop": in the step in which the server announces the cancel / abort,
        // every worker it is connected to that is executing one of the tasks must be sent a
        // CancelTasks message naming it (whatever the server believes about where the task is).
        for ev in &obs.events {
            let (ids, property) = match &ev.payload {
                EventPayload::TasksCanceled { task_ids } => (task_ids, "C08"),
                EventPayload::TasksAborted { task_ids } => (task_ids, "C14"),
                _ => continue,
            };
            for (w, ws) in &world.workers {
                if !ws.server_connected || ws.sim.is_none() {
                    continue;
                }
                for (lt, li, stop, _instructed) in world.live_execs(*w) {
                    if stop.is_some() || !ids.iter().any(|t| tkey(*t) == lt) {
                        continue;
                    }
                    let told = obs.sent_to_workers.iter().any(|(tw, m)| {
                        tw == w
                            && matches!(m, ToWorkerMsg::CancelTasks(c) if c.ids.iter().any(|t| tkey(*t) == lt))
                    }) || self.worker_cancel_seen.contains_key(&(*w, lt));
                    // a cancel for it may already be on its way from an earlier step
                    let on_the_way = ws.s2w_contains_cancel(lt);
                    if !told && !on_the_way {
                        fnd(
                            out,
                            property,
                            "running-execution-not-told-to-stop",
                            "",
                            format!(
                                "the server announced the cancel/abort of {lt:?} while worker {w} (connected) is executing it (instance {li}) and did not send it a CancelTasks message for the task"
                            ),
                            step,
                        );
                    } else {
                        self.probes.hit("cancel_sent_to_executing_worker");
                    }
                }
            }
        }
        if let Some((w, msg)) = &obs.worker_processed {
            match msg {
                ToWorkerMsg::CancelTasks(m) => {
                    let live = world.live_execs(*w);
                    for t in &m.ids {
                        let k = tkey(*t);
                        self.worker_cancel_seen.insert((*w, k), step);
                        for (lt, li, _stop, instructed) in &live {
                            if *lt == k {
                                self.probes.hit("cancel_reaches_live_execution");
                                if !instructed {
                                    self.obligations.push(CancelObligation {
                                        worker: *w,
                                        task: k,
                                        instance: *li,
                                        step,
                                        property: "C08",
                                    });
                                }
                            }
                        }
                    }
                }
                ToWorkerMsg::ComputeTasks(m) => {
                    for t in &m.tasks {
                        let k = tkey(t.id);
                        self.worker_got_task.insert((*w, k), step);
                        if t.resource_rq_variant.is_none() {
                            self.probes.hit("prefill_delivered");
                        }
                    }
                }
                ToWorkerMsg::RetractTasks(_) => self.probes.hit("retract_delivered"),
                _ => {}
            }
        }
        for (w, msg) in &obs.sent_to_server {
            if let FromWorkerMessage::RetractResponse(r) = msg {
                for t in &r.retracted {
                    self.worker_retracted.insert((*w, tkey(*t)), step);
                    self.probes.hit("retract_confirmed");
                }
            }
            if let FromWorkerMessage::TaskUpdate(ups) = msg {
                for u in ups {
                    match u {
                        WorkerTaskUpdate::RejectRequest { .. } => self.probes.hit("reject_sent"),
                        WorkerTaskUpdate::EnableRequest { .. } => self.probes.hit("enable_sent"),
                        WorkerTaskUpdate::RunningPrefilled(_) => {
                            self.probes.hit("running_prefilled")
                        }
                        _ => {}
                    }
                }
            }
        }
        if let Some((_w, FromWorkerMessage::TaskUpdate(ups))) = &obs.server_processed {
            // probes about the state in which updates arrive
            if let Some(prev) = &self.prev_core {
                for u in ups {
                    let (id, what) = match u {
                        WorkerTaskUpdate::Finished { task_id } => (*task_id, "finished"),
                        WorkerTaskUpdate::Failed { task_id, .. } => (*task_id, "failed"),
                        WorkerTaskUpdate::Running(m) | WorkerTaskUpdate::RunningPrefilled(m) => {
                            (m.task_id, "running")
                        }
                        WorkerTaskUpdate::RejectRequest { task_id, .. } => (*task_id, "reject"),
                        WorkerTaskUpdate::EnableRequest { .. } => continue,
                    };
                    let st = prev.tasks.iter().find(|t| t.id == id).map(|t| &t.state);
                    let name = match st {
                        None => "unknown",
                        Some(TaskStateSnapshot::Waiting { .. }) => "waiting",
                        Some(TaskStateSnapshot::Assigned { .. }) => "assigned",
                        Some(TaskStateSnapshot::Prefilled { .. }) => "prefilled",
                        Some(TaskStateSnapshot::Retracting { .. }) => {
                            if prev.redirects.iter().any(|r| r.0 == id) {
                                "retracting_redirect"
                            } else {
                                "retracting"
                            }
                        }
                        Some(TaskStateSnapshot::Running { .. }) => "running",
                        Some(TaskStateSnapshot::RunningMultiNode(_)) => "mn",
                        Some(TaskStateSnapshot::Finished) => "finished",
                    };
                    self.probes.hit(&format!("{what}_in_{name}"));
                }
            }
        }
        let _ = out;
    }

    /// C01, last clause: a task that runs longer than its time limit is stopped. The worker
    /// starts the timer when it first polls the handling future of the execution; when the
    /// simulated clock has passed (first poll + limit of the submit) the timer must have fired
    /// (the future is woken), and once the future was polled after that moment the execution must
    /// have been told to stop (or be over).
    fn check_time_limits(&mut self, world: &World, action: &Action, step: u64, out: &mut Vec<Finding>) {
        let now = world.now_ms.get();
        let launches = world.launches.borrow();
        for l in launches.iter() {
            if l.ended.is_some() || l.launch_failed || l.stop_seen.is_some() {
                continue;
            }
            let (Some(tl), Some(p)) = (l.time_limit_ms, l.first_poll_ms) else {
                continue;
            };
            if now < p + tl {
                continue;
            }
            // still executing, not told to stop, end not yet decided by the simulator
            let live = world.live_execs(l.worker).iter().any(|(t, i, stop, end_sent)| {
                *t == l.task && *i == l.instance && stop.is_none() && !*end_sent
            });
            if !live {
                continue;
            }
            let name = World::task_fut_name(l.worker, l.task, l.instance);
            let woken = world
                .exec
                .find_by_name(&name)
                .map(|id| world.exec.is_woken(id));
            let polled_now = matches!(action, Action::PollTask { w, job, task, instance }
                if *w == l.worker && (*job, *task) == l.task && *instance == l.instance);
            self.probes.hit("executions_at_time_limit");
            if woken == Some(false) {
                fnd(
                    out,
                    "C01",
                    "ran-past-time-limit",
                    if polled_now { "not-stopped-when-polled" } else { "timer-not-fired" },
                    format!(
                        "execution of {:?} (instance {}) on worker {} started its timer at {} ms, the task's time limit is {} ms, now is {} ms: it was neither told to stop nor is its timer due",
                        l.task, l.instance, l.worker, p, tl, now
                    ),
                    step,
                );
            }
        }
    }

    fn check_launches(&mut self, world: &mut World, step: u64, out: &mut Vec<Finding>) {
        let n = world.launches.borrow().len();
        for seq in self.launches_seen..n {
            // fill in the time limit from the model (the launcher cannot see it)
            let (w, k, inst) = {
                let l = &world.launches.borrow()[seq];
                (l.worker, l.task, l.instance)
            };
            let tl = self
                .model
                .task(k)
                .and_then(|t| t.props.time_limit)
                .map(|s| s * 1000);
            world.launches.borrow_mut()[seq].time_limit_ms = tl;
            self.probes.hit("launches");
            let launches = world.launches.borrow();
            let l = &launches[seq];
            if l.launch_failed {
                self.probes.hit("launch_failures");
            }
            // C03 (a): every dependency finished successfully
            if let Some(t) = self.model.task(k) {
                let job = &self.model.jobs[&k.0];
                for d in &t.deps {
                    let ds = job.tasks.get(d).map(|x| &x.state);
                    if ds != Some(&MState::Finished) {
                        fnd(
                            out,
                            "C03",
                            "launched-before-dependency",
                            if t.dead_dep_at_submit {
                                "dependency-dead-at-submit"
                            } else {
                                ""
                            },
                            format!(
                                "task {k:?} launched on worker {w} while dependency {d} is {:?}",
                                ds.map(|s| s.kind())
                            ),
                            step,
                        );
                    }
                }
                if t.state.is_terminal() {
                    // Legal only if the worker has not yet processed the cancel (in flight)
                    self.probes.hit("launch_of_terminal_task_inflight");
                }
            } else if self.model.forgotten.contains(&k.0) {
                // a task of a canceled and already forgotten job that was still on the wire
                self.probes.hit("launch_of_forgotten_job_task_inflight");
            } else {
                fnd(
                    out,
                    "C01",
                    "launch-of-unknown-task",
                    "",
                    format!("worker {w} launched unknown task {k:?}"),
                    step,
                );
            }
            // C05: the worker that starts an execution has enough lifetime left for the time
            // request of the variant it runs (placement decisions are judged when they are made;
            // a task pre-sent to a worker's backlog is only placed for good when it is started)
            if let Some(t) = self.model.task(k)
                && let Some(v) = t.rq.variants.get(l.rv as usize)
                && v.min_time > 0
                && v.n_nodes == 0
                && let Some(wsim) = world.workers.get(&w)
                && let Some(limit) = wsim.time_limit_ms
            {
                self.probes.hit("launch_with_time_request_on_limited_worker");
                if l.at_ms + v.min_time * 1000 > wsim.start_ms + limit {
                    fnd(
                        out,
                        "C05",
                        "started-without-enough-lifetime",
                        "",
                        format!(
                            "worker {w} started {k:?} (instance {inst}) which asks for {} s although the worker ends in {} ms",
                            v.min_time,
                            (wsim.start_ms + limit).saturating_sub(l.at_ms)
                        ),
                        step,
                    );
                }
            }
            // C08 / C14: a worker that processed the cancel never starts the task afterwards
            if let Some(s) = self.worker_cancel_seen.get(&(w, k)) {
                let prop = match self.model.task(k).map(|t| &t.state) {
                    Some(MState::Aborted) => "C14",
                    _ => "C08",
                };
                fnd(
                    out,
                    prop,
                    "launch-after-cancel-processed",
                    "",
                    format!(
                        "worker {w} launched task {k:?} (instance {inst}) at step {step} after it processed CancelTasks for it at step {s}"
                    ),
                    step,
                );
            }
            // C06: after the worker confirmed giving the task back it must not start it, unless
            // it was sent again
            if let Some(rs) = self.worker_retracted.get(&(w, k)) {
                let again = self
                    .worker_got_task
                    .get(&(w, k))
                    .is_some_and(|g| g > rs);
                if !again {
                    fnd(
                        out,
                        "C06",
                        "launch-after-retract-confirmed",
                        "",
                        format!(
                            "worker {w} launched task {k:?} after it confirmed retracting it at step {rs}"
                        ),
                        step,
                    );
                }
            }
            // C06: instance ids strictly increase over executions
            for e in launches.iter().take(seq) {
                if e.task == k && e.instance >= inst && !e.non_durable {
                    fnd(
                        out,
                        "C06",
                        "instance-not-increasing",
                        "launch",
                        format!(
                            "task {k:?} launched with instance {inst} on worker {w} after an execution with instance {} on worker {}",
                            e.instance, e.worker
                        ),
                        step,
                    );
                    break;
                }
            }
            // C06: no other live execution on a connected worker
            for e in launches.iter().take(seq) {
                if e.task == k && e.ended.is_none() && !e.launch_failed && e.worker != w {
                    let other_connected = world
                        .workers
                        .get(&e.worker)
                        .is_some_and(|x| x.server_connected && x.phase == WorkerPhase::Up);
                    if other_connected {
                        fnd(
                            out,
                            "C06",
                            "two-live-executions",
                            "",
                            format!(
                                "task {k:?} launched on worker {w} (instance {inst}) while it is still executing on connected worker {} (instance {})",
                                e.worker, e.instance
                            ),
                            step,
                        );
                    }
                }
            }
            // C03 (d) etc: tasks that must never start
            // (a launch of a task that was already on the wire when it was canceled/aborted is
            // legal; only tasks that were never sent count here)
            if let Some((prop, oracle, since, true)) = self.must_not_start.get(&k) {
                fnd(
                    out,
                    prop,
                    oracle,
                    "launched",
                    format!(
                        "task {k:?} was launched on worker {w} although it must never start (since step {since})"
                    ),
                    step,
                );
            }
        }
        self.launches_seen = n;
    }

    fn check_worker_loss(
        &mut self,
        world: &World,
        obs: &StepObs,
        step: u64,
        out: &mut Vec<Finding>,
    ) {
        let lost = std::mem::take(&mut self.model.lost_this_step);
        // The situation of the known multi-node finding: the lost worker was the root of a
        // multi-node task whose start had not been reported yet (tako already counts it as
        // running). Only there may the server's crash count be one ahead.
        let mut mn_root_unreported: BTreeSet<TaskKey> = BTreeSet::new();
        if let Some(prev) = &self.prev_core {
            for (w, _, _) in &lost {
                for t in &prev.tasks {
                    if let TaskStateSnapshot::RunningMultiNode(ws) = &t.state
                        && ws.first().map(|x| x.as_num()) == Some(*w)
                    {
                        let k = tkey(t.id);
                        let reported = self
                            .model
                            .task(k)
                            .is_some_and(|mt| matches!(mt.state, MState::Running { .. }));
                        if !reported {
                            mn_root_unreported.insert(k);
                        }
                    }
                }
            }
        }
        for (w, reason, running) in &lost {
            self.probes.hit(&format!("worker_lost_{reason:?}"));
            if let Some((ow, oreason)) = &obs.worker_removed
                && ow == w
                && oreason != reason
            {
                fnd(
                    out,
                    "C07",
                    "loss-reason-mismatch",
                    "",
                    format!("worker {w} removed with {oreason:?} but announced as {reason:?}"),
                    step,
                );
            }
            for (k, _inst) in running {
                self.probes.hit("loss_with_running_task");
                let Some(t) = self.model.task(*k) else { continue };
                let limit = t.props.crash_limit.to_limit();
                let must_fail = match limit {
                    CrashLimit::NeverRestart => true,
                    CrashLimit::MaxCrashes(n) => {
                        reason_is_failure(*reason) && t.crash_count >= n as u32
                    }
                    CrashLimit::Unlimited => false,
                };
                match (&t.state, must_fail) {
                    (MState::Failed, true) => {
                        self.probes.hit("crash_limit_failure");
                        let text = t.error.clone().unwrap_or_default();
                        if !(text.contains("lost") || text.contains("crash")) {
                            fnd(
                                out,
                                "C07",
                                "crash-failure-without-explanation",
                                "",
                                format!("task {k:?} failed after worker loss with error {text:?}"),
                                step,
                            );
                        }
                    }
                    (MState::Waiting, false) => {
                        self.probes.hit("restart_after_loss");
                    }
                    // max-fails of the job tripped by a sibling's crash failure in this step,
                    // or a cancel... (only the former can happen inside this step)
                    (MState::Aborted, false)
                        if self.model.jobs[&k.0].limit_exceeded() => {}
                    (MState::Aborted, true)
                        if self.model.jobs[&k.0].limit_exceeded() => {}
                    (s, mf) => {
                        fnd(
                            out,
                            "C07",
                            "wrong-outcome-after-loss",
                            format!("{}-expected-{}", s.kind(), if mf { "failed" } else { "waiting" }),
                            format!(
                                "worker {w} lost ({reason:?}) while {k:?} was running: crash count {} limit {:?}: expected {} but the task is {}",
                                t.crash_count,
                                limit,
                                if mf { "failed" } else { "waiting" },
                                s.kind()
                            ),
                            step,
                        );
                    }
                }
            }
        }
        // "Tasks that were only queued on the lost worker are rescheduled without penalty":
        // a loss-related failure of a task that was not reported running
        if !lost.is_empty() {
            for e in &obs.events {
                if let EventPayload::TaskFailed { task_id, error } = &e.payload
                    && (error.contains("lost worker") || error.contains("worker that was lost"))
                {
                    let k = tkey(*task_id);
                    let was_running = lost.iter().any(|(_, _, r)| r.iter().any(|(t, _)| *t == k));
                    if !was_running {
                        let mn = mn_root_unreported.contains(&k);
                        fnd(
                            out,
                            "C07",
                            "queued-task-failed-by-loss",
                            if mn { "multi-node-root-lost-before-start-reported" } else { "" },
                            format!("task {k:?} failed because of a worker loss ({error}) although the server had not reported it as running"),
                            step,
                        );
                    }
                }
            }
        }
        if !lost.is_empty()
            && let Some(core) = world.core_snapshot()
        {
            // crash counter in the core == model (for tasks still known to the core)
            let mut resync: Vec<(TaskKey, u32)> = Vec::new();
            for t in &core.tasks {
                let k = tkey(t.id);
                if let Some(mt) = self.model.task(k)
                    && mt.crash_count != t.crash_counter
                {
                    // the difference is reported once; later expectations (does the next loss
                    // reach the limit?) continue from the server's count so that the same root
                    // cause is not reported again under other names
                    resync.push((k, t.crash_counter));
                    fnd(
                        out,
                        "C07",
                        "crash-count-differs",
                        if mn_root_unreported.contains(&k) && t.crash_counter == mt.crash_count + 1 {
                            "multi-node-root-lost-before-start-reported"
                        } else {
                            ""
                        },
                        format!(
                            "task {k:?}: crash count in the server {} != {} lost-while-running failures",
                            t.crash_counter, mt.crash_count
                        ),
                        step,
                    );
                }
            }
            for (k, c) in resync {
                if let Some(mt) = self.model.task_mut(k) {
                    mt.crash_count = c;
                }
            }
        }
    }

    #[allow(clippy::too_many_arguments)]
    fn check_propagation(
        &mut self,
        terminal_events: &[(TaskKey, &'static str)],
        step_aborted: &BTreeMap<u32, BTreeSet<u32>>,
        non_terminal_before: &BTreeMap<u32, Vec<u32>>,
        exceeded_before: &BTreeSet<u32>,
        step: u64,
        out: &mut Vec<Finding>,
    ) {
        // (b) dependents of a task that failed / was canceled / aborted in this step
        for (k, what) in terminal_events {
            if *what == "finished" {
                continue;
            }
            let Some(job) = self.model.jobs.get(&k.0) else { continue };
            // dependents that are reached without passing through a task that was submitted on
            // an already dead dependency (the known late-dependent finding: such a task lost its
            // dependencies at submit, what happens below it is a consequence)
            let clean: BTreeSet<u32> = {
                let mut out_set: BTreeSet<u32> = BTreeSet::new();
                let mut changed = true;
                while changed {
                    changed = false;
                    for (id, t) in &job.tasks {
                        if out_set.contains(id) || t.dead_dep_at_submit {
                            continue;
                        }
                        if t.deps.iter().any(|x| *x == k.1 || out_set.contains(x)) {
                            out_set.insert(*id);
                            changed = true;
                        }
                    }
                }
                out_set
            };
            for d in job.dependents(k.1) {
                let dt = &job.tasks[&d];
                if !dt.state.is_terminal() {
                    let key = if clean.contains(&d) {
                        what.to_string()
                    } else {
                        format!("{what}-through-late-dependent")
                    };
                    fnd(
                        out,
                        "C03",
                        "dependent-survives-dead-dependency",
                        &key,
                        format!(
                            "task {k:?} {what} at step {step} but its dependent {d} is still {}",
                            dt.state.kind()
                        ),
                        step,
                    );
                } else if dt.state == MState::Finished && dt.terminal_step == Some(step) {
                    // cannot happen in the same step
                } else if dt.terminal_step == Some(step) && dt.ever_started && dt.submit_step < step {
                    fnd(
                        out,
                        "C03",
                        "dependent-was-started",
                        "",
                        format!("dependent {d} of dead task {k:?} had been started"),
                        step,
                    );
                }
                if dt.terminal_step == Some(step) {
                    self.probes.hit("dependent_aborted");
                }
            }
        }
        // (c) every abort has a cause
        for (j, ids) in step_aborted {
            let Some(job) = self.model.jobs.get(j) else { continue };
            for id in ids {
                let by_dep = job.has_dead_ancestor(*id);
                let by_limit = job.limit_exceeded();
                if !by_dep && !by_limit {
                    fnd(
                        out,
                        if job.max_fails.is_some() { "C14" } else { "C03" },
                        "abort-without-cause",
                        "",
                        format!(
                            "task ({j},{id}) aborted without a failed/canceled dependency and with {} failures (limit {:?})",
                            job.n_failed, job.max_fails
                        ),
                        step,
                    );
                }
            }
        }
        // C14: the step in which the limit is first exceeded aborts everything non-terminal
        // (and so does every later failure while the number is above the limit: tasks
        // submitted into the open job after the limit was exceeded run until then)
        for (j, job) in &self.model.jobs {
            let first = !exceeded_before.contains(j);
            let failed_now = terminal_events
                .iter()
                .any(|(k, what)| k.0 == *j && *what == "failed");
            if job.limit_exceeded() && (first || failed_now) {
                self.probes.hit(if first {
                    "max_fails_tripped"
                } else {
                    "max_fails_failure_above_limit"
                });
                let before = non_terminal_before.get(j).cloned().unwrap_or_default();
                for id in before {
                    let st = &job.tasks[&id].state;
                    if !st.is_terminal() {
                        fnd(
                            out,
                            "C14",
                            "limit-exceeded-task-survives",
                            if first { "" } else { "later-failure" },
                            format!(
                                "job {j}: {} failures exceed the limit {:?} but task {id} is still {}",
                                job.n_failed,
                                job.max_fails,
                                st.kind()
                            ),
                            step,
                        );
                    }
                }
                // tasks of the job never start afterwards
                for (id, t) in &job.tasks {
                    if t.state == MState::Aborted && t.terminal_step == Some(step) {
                        self.must_not_start
                            .entry((*j, *id))
                            .or_insert(("C14", "started-after-limit", step, false));
                    }
                }
            }
        }
    }

    #[allow(clippy::too_many_arguments)]
    fn check_responses(
        &mut self,
        world: &mut World,
        action: &Action,
        obs: &StepObs,
        step_canceled: &BTreeMap<u32, Vec<Vec<u32>>>,
        non_terminal_before: &BTreeMap<u32, Vec<u32>>,
        step: u64,
        out: &mut Vec<Finding>,
    ) {
        // C13: the server never hangs up on a client that waits for its job
        let mut hung_up: Vec<u32> = Vec::new();
        for (c, (job, got)) in &self.waiting_clients {
            if let Some(cl) = world.clients.get(c)
                && cl.closed
                && !cl.closed_by_client
                && !*got
            {
                fnd(
                    out,
                    "C13",
                    "wait-missed-completion",
                    "connection-closed-by-server",
                    format!(
                        "client {c} submitted job {job} with wait; the server closed its connection before it had received the completion report (job completed so far: {})",
                        self.completed_jobs.contains(job)
                    ),
                    step,
                );
                hung_up.push(*c);
            }
        }
        for c in hung_up {
            self.waiting_clients.remove(&c);
        }
        // C08: the step in which the server handles a cancel request
        if let Action::ClientSend {
            c,
            op: ClientOp::Cancel(_),
        } = action
            && let Some(p) = self.pending_cancels.get(c)
            && p.exact_selector
        {
            for (j, expected) in &p.expected {
                let got = step_canceled.get(j).cloned().unwrap_or_default();
                match expected {
                    None => {
                        if !got.is_empty() {
                            fnd(
                                out,
                                "C08",
                                "cancel-of-unknown-job-had-effect",
                                "",
                                format!("cancel of unknown job {j} recorded {got:?}"),
                                step,
                            );
                        }
                    }
                    Some(exp) => {
                        if exp.is_empty() {
                            self.probes.hit("cancel_noop");
                            if !got.is_empty() {
                                fnd(
                                    out,
                                    "C08",
                                    "repeated-cancel-had-effect",
                                    "",
                                    format!(
                                        "cancel of job {j} without unfinished tasks recorded {got:?}"
                                    ),
                                    step,
                                );
                            }
                        } else {
                            self.probes.hit("cancel_effective");
                            let mut e = exp.clone();
                            e.sort();
                            let ok = got.len() == 1 && {
                                let mut g = got[0].clone();
                                g.sort();
                                g == e
                            };
                            if !ok {
                                fnd(
                                    out,
                                    "C08",
                                    "cancel-record-mismatch",
                                    "",
                                    format!(
                                        "cancel of job {j}: unfinished tasks were {e:?} but the records of the step are {got:?}"
                                    ),
                                    step,
                                );
                            }
                            for id in exp {
                                self.must_not_start
                                    .entry((*j, *id))
                                    .or_insert(("C08", "started-after-cancel", step, false));
                            }
                        }
                    }
                }
            }
            // tasks of other jobs are unaffected: no terminal record for any task outside the
            // selected jobs in this step
            let selected: BTreeSet<u32> = p.expected.iter().map(|x| x.0).collect();
            for e in &obs.events {
                let other: Option<u32> = match &e.payload {
                    EventPayload::TasksCanceled { task_ids }
                    | EventPayload::TasksAborted { task_ids } => task_ids
                        .iter()
                        .map(|t| t.job_id().as_num())
                        .find(|j| !selected.contains(j)),
                    EventPayload::TaskFailed { task_id, .. }
                    | EventPayload::TaskFinished { task_id }
                    | EventPayload::TaskStarted { task_id, .. } => {
                        Some(task_id.job_id().as_num()).filter(|j| !selected.contains(j))
                    }
                    _ => None,
                };
                if let Some(j) = other {
                    fnd(
                        out,
                        "C08",
                        "cancel-affected-other-job",
                        "",
                        format!("cancel of jobs {selected:?} produced a task record for job {j}"),
                        step,
                    );
                }
            }
        }
        let _ = non_terminal_before;

        for (c, resp) in &obs.responses {
            let mut became_streaming = false;
            let outstanding = world.clients.get(c).and_then(|cl| cl.outstanding.clone());
            match resp {
                ToClientMessage::Event(e) => {
                    // forwarded to a waiting client
                    if let Some((job, done)) = self.waiting_clients.get_mut(c)
                        && let EventPayload::JobCompleted(j) = &e.payload
                        && j.as_num() == *job
                    {
                        *done = true;
                        self.probes.hit("wait_got_completion");
                    }
                    continue;
                }
                ToClientMessage::SubmitResponse(r) => {
                    let pending = self.pending_submits.remove(c);
                    let is_wait = matches!(
                        outstanding,
                        Some(ClientOp::Submit { wait: true, .. })
                    );
                    match (r, pending) {
                        (SubmitResponse::Ok { job, .. }, Some(p)) => {
                            self.probes.hit("submit_ok");
                            let jid = job.info.id.as_num();
                            if p.applied_job != Some(jid) {
                                fnd(
                                    out,
                                    "C13",
                                    "submit-ok-without-record",
                                    "",
                                    format!("submit answered Ok for job {jid} but the recorded job is {:?}", p.applied_job),
                                    step,
                                );
                            }
                            if let SubmitExpectation::Accept { tasks, .. } = &p.expectation {
                                // the answer lists all tasks of the job at that moment; the new
                                // ones must be among them
                                let listed: BTreeSet<u32> =
                                    job.tasks.iter().map(|(id, _)| id.as_num()).collect();
                                for (id, ..) in tasks {
                                    if !listed.contains(id) {
                                        fnd(
                                            out,
                                            "C13",
                                            "submit-response-misses-task",
                                            "",
                                            format!("submit response for job {jid} does not list task {id}"),
                                            step,
                                        );
                                    }
                                }
                            }
                            if is_wait {
                                became_streaming = true;
                                self.waiting_clients.insert(*c, (jid, false));
                                self.probes.hit("submit_wait");
                                if self.completed_jobs.contains(&jid) {
                                    self.probes.hit("wait_registered_after_completion");
                                }
                            }
                        }
                        (SubmitResponse::Ok { job, .. }, None) => fnd(
                            out,
                            "C13",
                            "submit-response-without-request",
                            "",
                            format!("unexpected submit response for job {}", job.info.id),
                            step,
                        ),
                        (_rejected, Some(p)) => {
                            self.probes.hit("submit_rejected");
                            if let SubmitExpectation::Accept { .. } = &p.expectation {
                                fnd(
                                    out,
                                    "C13",
                                    "valid-submit-rejected",
                                    "",
                                    format!("a valid submit was rejected: {r:?}"),
                                    step,
                                );
                            }
                            if p.applied_job.is_some() {
                                fnd(
                                    out,
                                    "C13",
                                    "rejected-submit-had-effect",
                                    "",
                                    format!("submit rejected ({r:?}) after it was recorded"),
                                    step,
                                );
                            }
                        }
                        (_, None) => {}
                    }
                }
                ToClientMessage::CancelJobResponse(rs) => {
                    if let Some(p) = self.pending_cancels.remove(c) {
                        for (j, r) in rs {
                            let j = j.as_num();
                            let exp = p.expected.iter().find(|x| x.0 == j);
                            match (r, exp) {
                                (CancelJobResponse::Canceled(ids, _), Some((_, Some(e)))) => {
                                    let mut a: Vec<u32> = ids.iter().map(|x| x.as_num()).collect();
                                    a.sort();
                                    let mut b = e.clone();
                                    b.sort();
                                    if a != b {
                                        fnd(
                                            out,
                                            "C08",
                                            "cancel-response-mismatch",
                                            "",
                                            format!("cancel of job {j} answered {a:?}, unfinished tasks were {b:?}"),
                                            step,
                                        );
                                    }
                                }
                                (CancelJobResponse::InvalidJob, Some((_, None))) => {}
                                (CancelJobResponse::InvalidJob, Some((_, Some(_)))) => fnd(
                                    out,
                                    "C08",
                                    "cancel-response-mismatch",
                                    "invalid",
                                    format!("cancel of known job {j} answered InvalidJob"),
                                    step,
                                ),
                                (CancelJobResponse::Canceled(ids, _), Some((_, None))) => {
                                    if !ids.is_empty() {
                                        fnd(
                                            out,
                                            "C08",
                                            "cancel-response-mismatch",
                                            "unknown",
                                            format!("cancel of unknown job {j} answered {ids:?}"),
                                            step,
                                        )
                                    }
                                }
                                _ => {}
                            }
                        }
                    }
                }
                ToClientMessage::ForgetJobResponse(_) => {
                    // forgotten jobs leave the state: take them out of the model's live jobs
                    if let Some(inc) = &world.inc {
                        let state = inc.state_ref.get();
                        let gone: Vec<u32> = self
                            .model
                            .jobs
                            .keys()
                            .copied()
                            .filter(|j| state.get_job((*j).into()).is_none())
                            .collect();
                        for j in gone {
                            let mj = &self.model.jobs[&j];
                            if mj.open || !mj.all_terminal() {
                                fnd(
                                    out,
                                    "C13",
                                    "forgot-unfinished-job",
                                    "",
                                    format!("job {j} was forgotten while open={} non-terminal={:?}", mj.open, mj.non_terminal()),
                                    step,
                                );
                            }
                            self.probes.hit("job_forgotten");
                            self.model.forgotten.insert(j);
                            self.model.jobs.remove(&j);
                        }
                    }
                }
                ToClientMessage::Error(e) => {
                    self.probes.hit("error_response");
                    let _ = e;
                }
                _ => {}
            }
            world.client_answered(*c, became_streaming);
        }
    }

    fn check_state(
        &mut self,
        world: &World,
        action: &Action,
        obs: &StepObs,
        step: u64,
        out: &mut Vec<Finding>,
    ) {
        let inc = world.inc.as_ref().unwrap();
        let core = inc.server.snapshot();
        let state = inc.state_ref.get();

        // ---- C13: counters, job state, completion; C01: JobDetail == M
        let mut state_non_terminal: BTreeSet<TaskKey> = BTreeSet::new();
        for job in state.jobs() {
            let jid = job.job_id.as_num();
            let mut running = 0;
            let mut finished = 0;
            let mut failed = 0;
            let mut canceled = 0;
            let mut aborted = 0;
            for (tid, st) in job.iter_task_states() {
                let kind = match st {
                    JobTaskState::Waiting => {
                        state_non_terminal.insert((jid, tid.as_num()));
                        "waiting"
                    }
                    JobTaskState::Running { .. } => {
                        running += 1;
                        state_non_terminal.insert((jid, tid.as_num()));
                        "running"
                    }
                    JobTaskState::Finished { .. } => {
                        finished += 1;
                        "finished"
                    }
                    JobTaskState::Failed { .. } => {
                        failed += 1;
                        "failed"
                    }
                    JobTaskState::Canceled { .. } => {
                        canceled += 1;
                        "canceled"
                    }
                    JobTaskState::Aborted { .. } => {
                        aborted += 1;
                        "aborted"
                    }
                };
                match self.model.task((jid, tid.as_num())) {
                    None => fnd(
                        out,
                        "C13",
                        "task-not-in-model",
                        "",
                        format!("job {jid} shows task {tid} that no accepted submit created"),
                        step,
                    ),
                    Some(mt) => {
                        if mt.state.kind() != kind {
                            fnd(
                                out,
                                "C01",
                                "shown-state-differs-from-history",
                                format!("{}-vs-{}", kind, mt.state.kind()),
                                format!(
                                    "task ({jid},{tid}) is shown as {kind} but the reported history says {}",
                                    mt.state.kind()
                                ),
                                step,
                            );
                        }
                    }
                }
            }
            let c = &job.counters;
            if (c.n_running_tasks, c.n_finished_tasks, c.n_failed_tasks, c.n_canceled_tasks, c.n_aborted_tasks)
                != (running, finished, failed, canceled, aborted)
            {
                fnd(
                    out,
                    "C13",
                    "counters-differ-from-tasks",
                    "",
                    format!(
                        "job {jid}: counters {:?} but tasks are running={running} finished={finished} failed={failed} canceled={canceled} aborted={aborted}",
                        c
                    ),
                    step,
                );
            } else {
                // job_status contains an assertion; evaluate it like a client would
                let info = job.make_job_info(false);
                let status = hyperqueue::client::status::job_status(&info);
                use hyperqueue::client::status::Status;
                let waiting = job.n_tasks() - running - finished - failed - canceled - aborted;
                let expected = if running > 0 {
                    Status::Running
                } else if waiting > 0 {
                    Status::Waiting
                } else if failed > 0 {
                    Status::Failed
                } else if aborted > 0 {
                    Status::Aborted
                } else if canceled > 0 {
                    Status::Canceled
                } else if job.is_open() {
                    Status::Opened
                } else {
                    Status::Finished
                };
                if status != expected {
                    fnd(
                        out,
                        "C13",
                        "job-status-rule",
                        "",
                        format!("job {jid}: status {status:?}, documented rule gives {expected:?}"),
                        step,
                    );
                }
            }
            if let Some(mj) = self.model.jobs.get(&jid) {
                if mj.open != job.is_open() {
                    fnd(
                        out,
                        "C13",
                        "open-flag-differs",
                        "",
                        format!("job {jid}: shown open={} history says open={}", job.is_open(), mj.open),
                        step,
                    );
                }
                let should_be_complete = !mj.open && mj.all_terminal() && !mj.tasks.is_empty();
                let should_be_complete_empty = !mj.open && mj.tasks.is_empty();
                if should_be_complete && mj.completed_events == 0 {
                    fnd(
                        out,
                        "C13",
                        "completion-not-reported",
                        "",
                        format!("job {jid} is closed with all tasks terminal but was never reported completed"),
                        step,
                    );
                }
                if (should_be_complete || should_be_complete_empty)
                    != job.completion_date.is_some()
                    && !should_be_complete_empty
                {
                    fnd(
                        out,
                        "C13",
                        "completion-date",
                        "",
                        format!(
                            "job {jid}: completion date set={} but closed-and-terminal={}",
                            job.completion_date.is_some(),
                            should_be_complete
                        ),
                        step,
                    );
                }
                if mj.tasks.len() != job.n_tasks() as usize {
                    fnd(
                        out,
                        "C13",
                        "task-set-differs",
                        "",
                        format!(
                            "job {jid}: shows {} tasks, accepted submits created {}",
                            job.n_tasks(),
                            mj.tasks.len()
                        ),
                        step,
                    );
                }
            } else if !self.model.forgotten.contains(&jid) {
                fnd(
                    out,
                    "C13",
                    "job-not-in-model",
                    "",
                    format!("state contains job {jid} unknown to the history"),
                    step,
                );
            }
        }
        for jid in self.model.jobs.keys() {
            if state.get_job((*jid).into()).is_none() {
                fnd(
                    out,
                    "C13",
                    "job-missing",
                    "",
                    format!("job {jid} is missing from the server state"),
                    step,
                );
            }
        }

        // ---- C02: unfinished tasks shown to the user == tasks the scheduler knows about
        let core_tasks: BTreeSet<TaskKey> = core.tasks.iter().map(|t| tkey(t.id)).collect();
        if core_tasks != state_non_terminal {
            let phantom: Vec<_> = state_non_terminal.difference(&core_tasks).collect();
            let orphan: Vec<_> = core_tasks.difference(&state_non_terminal).collect();
            fnd(
                out,
                "C02",
                "job-core-bijection",
                if !phantom.is_empty() { "phantom" } else { "orphan" },
                format!(
                    "unfinished tasks shown to the user but unknown to the scheduler: {phantom:?}; known to the scheduler but not unfinished for the user: {orphan:?}"
                ),
                step,
            );
        }

        // ---- C05 / C08: consistency of the core, recomputed from the snapshot
        self.check_core_consistency(&core, step, out);

        // ---- C05: placements made by a scheduling round
        if matches!(action, Action::Schedule)
            && let Some(prev) = self.prev_core.take()
        {
            self.check_round(world, &prev, &core, obs, step, out);
        }

        // ---- C04 on every worker inside the cluster
        for ws in world.workers.values() {
            if let Some(sim) = &ws.sim {
                let snap = sim.snapshot();
                let spec = &world.cfg.workers[ws.spec_index as usize];
                let n0 = out.len();
                crate::oracles_worker::check_worker_resources(
                    ws.id, spec, &snap, &core.resource_names, step, out,
                );
                // C08: "the resources reserved for it are released" also holds on the worker:
                // a loss of conservation in the step in which a canceled execution ended
                let conservation_lost = out[n0..]
                    .iter()
                    .any(|f| f.property == "C04" && f.oracle.starts_with("not-conserved"));
                if conservation_lost {
                    let canceled_now = world.launches.borrow().iter().find_map(|l| {
                        (l.worker == ws.id
                            && matches!(l.ended, Some((s, ExecEnd::Canceled)) if s == step))
                        .then_some(l.task)
                    });
                    if let Some(k) = canceled_now {
                        fnd(
                            out,
                            "C08",
                            "resources-not-released-after-cancel",
                            "worker",
                            format!(
                                "worker {}: the execution of the canceled task {k:?} ended in this step and the worker's allocator still holds resources that no running task owns",
                                ws.id
                            ),
                            step,
                        );
                    }
                }
            }
        }
        self.prev_core = Some(core);
    }

    fn check_core_consistency(&mut self, core: &CoreSnapshot, step: u64, out: &mut Vec<Finding>) {
        let tasks: BTreeMap<TaskKey, &tako::verif::TaskSnapshot> =
            core.tasks.iter().map(|t| (tkey(t.id), t)).collect();
        let redirects: BTreeMap<TaskKey, (u32, u8)> = core
            .redirects
            .iter()
            .map(|(t, w, v)| (tkey(*t), (w.as_num(), v.as_num())))
            .collect();
        let mut consistency = |ok: bool, key: &str, msg: String| {
            if !ok {
                fnd(out, "C08", "core-consistency", key, msg, step);
            }
        };
        // queues
        let mut ready: BTreeSet<TaskKey> = BTreeSet::new();
        let mut prefill_q: BTreeSet<TaskKey> = BTreeSet::new();
        for q in &core.queues {
            for (_, ids) in &q.ready {
                for t in ids {
                    let k = tkey(*t);
                    ready.insert(k);
                    match tasks.get(&k) {
                        None => consistency(
                            false,
                            "stale-id-in-ready-queue",
                            format!("ready queue {} contains {k:?} which is not a task of the scheduler", q.resource_rq_id),
                        ),
                        Some(t) => {
                            let ok = match &t.state {
                                TaskStateSnapshot::Waiting { unfinished_deps } => *unfinished_deps == 0,
                                // a prefilled task being taken back stays visible to the solver
                                TaskStateSnapshot::Retracting { .. } => true,
                                _ => false,
                            };
                            if matches!(t.state, TaskStateSnapshot::Retracting { .. }) {
                                self.probes.hit("retracting_in_ready_queue");
                            }
                            consistency(
                                ok,
                                "ready-queue-holds-non-ready-task",
                                format!("ready queue holds {k:?} in state {:?}", t.state),
                            );
                            consistency(
                                t.resource_rq_id == q.resource_rq_id,
                                "task-in-wrong-queue",
                                format!("{k:?} with request {} is in queue {}", t.resource_rq_id, q.resource_rq_id),
                            );
                        }
                    }
                }
            }
            if let Some((_, ids)) = &q.prefill {
                for t in ids {
                    let k = tkey(*t);
                    prefill_q.insert(k);
                    match tasks.get(&k) {
                        None => consistency(
                            false,
                            "stale-id-in-prefill-set",
                            format!("prefill set of queue {} contains {k:?} which is not a task", q.resource_rq_id),
                        ),
                        Some(t) => consistency(
                            matches!(t.state, TaskStateSnapshot::Prefilled { .. }),
                            "prefill-set-holds-other-state",
                            format!("prefill set holds {k:?} in state {:?}", t.state),
                        ),
                    }
                }
            }
        }
        // per task
        let workers: BTreeMap<u32, &tako::verif::WorkerSnapshot> =
            core.workers.iter().map(|w| (w.id.as_num(), w)).collect();
        for (k, t) in &tasks {
            match &t.state {
                TaskStateSnapshot::Waiting { unfinished_deps } => {
                    consistency(
                        (*unfinished_deps == 0) == ready.contains(k),
                        "waiting-task-vs-ready-queue",
                        format!("{k:?} waits for {unfinished_deps} dependencies, in ready queue: {}", ready.contains(k)),
                    );
                    let n = t
                        .deps
                        .iter()
                        .filter(|d| {
                            tasks
                                .get(&tkey(**d))
                                .is_some_and(|x| x.state != TaskStateSnapshot::Finished)
                        })
                        .count() as u32;
                    consistency(
                        n == *unfinished_deps,
                        "unfinished-deps-count",
                        format!("{k:?} counts {unfinished_deps} unfinished dependencies, {n} of its dependencies are unfinished tasks"),
                    );
                }
                TaskStateSnapshot::Assigned { worker_id, .. }
                | TaskStateSnapshot::Running { worker_id, .. } => {
                    let w = worker_id.as_num();
                    let ok = workers.get(&w).is_some_and(|ws| match &ws.assignment {
                        WorkerAssignmentSnapshot::Sn { assigned, .. } => assigned.contains(&t.id),
                        _ => false,
                    });
                    consistency(
                        ok,
                        "placed-task-not-in-worker-set",
                        format!("{k:?} is {:?} but worker {w} does not list it", t.state),
                    );
                }
                TaskStateSnapshot::Prefilled { worker_id } => {
                    let w = worker_id.as_num();
                    let ok = workers.get(&w).is_some_and(|ws| match &ws.assignment {
                        WorkerAssignmentSnapshot::Sn { prefilled, .. } => prefilled.contains(&t.id),
                        _ => false,
                    });
                    consistency(
                        ok && prefill_q.contains(k),
                        "prefilled-task-bookkeeping",
                        format!("{k:?} is prefilled on {w}: in worker set {ok}, in queue prefill set {}", prefill_q.contains(k)),
                    );
                }
                TaskStateSnapshot::Retracting { worker_id } => {
                    consistency(
                        workers.contains_key(&worker_id.as_num()),
                        "retracting-from-unknown-worker",
                        format!("{k:?} is being retracted from unknown worker {worker_id}"),
                    );
                }
                TaskStateSnapshot::RunningMultiNode(ws) => {
                    for (i, w) in ws.iter().enumerate() {
                        let ok = workers.get(&w.as_num()).is_some_and(|x| match &x.assignment {
                            WorkerAssignmentSnapshot::Mn { task_id, is_root } => {
                                *task_id == t.id && *is_root == (i == 0)
                            }
                            _ => false,
                        });
                        consistency(
                            ok,
                            "mn-task-worker-bookkeeping",
                            format!("{k:?} runs on {ws:?} but worker {w} is not reserved for it"),
                        );
                    }
                }
                TaskStateSnapshot::Finished => {}
            }
            for c in &t.consumers {
                consistency(
                    tasks.contains_key(&tkey(*c)),
                    "stale-consumer",
                    format!("{k:?} lists consumer {c} which is not a task"),
                );
            }
        }
        for (k, (w, _)) in &redirects {
            match tasks.get(k) {
                None => consistency(false, "stale-redirect", format!("redirect for {k:?} which is not a task")),
                Some(t) => consistency(
                    matches!(t.state, TaskStateSnapshot::Retracting { .. }),
                    "redirect-of-non-retracting-task",
                    format!("redirect of {k:?} to {w} while it is {:?}", t.state),
                ),
            }
            consistency(
                workers.contains_key(w),
                "redirect-to-unknown-worker",
                format!("redirect of {k:?} to unknown worker {w}"),
            );
        }
        // per worker: sets only hold matching tasks; C05 resource accounting
        for (wid, ws) in &workers {
            match &ws.assignment {
                WorkerAssignmentSnapshot::Sn {
                    assigned,
                    prefilled,
                    free,
                } => {
                    let mut used: Vec<u64> = vec![0; ws.resources.len().max(free.len())];
                    let mut all_taken: Vec<bool> = vec![false; used.len()];
                    for t in assigned {
                        let k = tkey(*t);
                        let rv = match tasks.get(&k).map(|x| &x.state) {
                            Some(TaskStateSnapshot::Assigned { worker_id, rv_id })
                            | Some(TaskStateSnapshot::Running { worker_id, rv_id })
                                if worker_id.as_num() == *wid =>
                            {
                                Some(rv_id.as_num())
                            }
                            Some(TaskStateSnapshot::Retracting { .. })
                                if redirects.get(&k).is_some_and(|r| r.0 == *wid) =>
                            {
                                Some(redirects[&k].1)
                            }
                            other => {
                                fnd(
                                    out,
                                    "C08",
                                    "core-consistency",
                                    "worker-set-holds-foreign-task",
                                    format!("worker {wid} lists {k:?} as assigned but the task is {other:?}"),
                                    step,
                                );
                                None
                            }
                        };
                        if let (Some(rv), Some(ts)) = (rv, tasks.get(&k)) {
                            let rqv = &core.requests[ts.resource_rq_id.as_num() as usize];
                            let rq = &rqv.requests()[rv as usize];
                            for e in rq.entries() {
                                let r = e.resource_id.as_num() as usize;
                                if r >= used.len() {
                                    used.resize(r + 1, 0);
                                    all_taken.resize(r + 1, false);
                                }
                                match e.request.amount_or_none_if_all() {
                                    Some(a) => used[r] += a.total_fractions(),
                                    None => {
                                        used[r] += ws.resources.get(r).copied().unwrap_or(0).max(1);
                                        all_taken[r] = true;
                                    }
                                }
                            }
                        }
                    }
                    for (r, u) in used.iter().enumerate() {
                        let total = ws.resources.get(r).copied().unwrap_or(0);
                        if *u > total {
                            // A worker hands the resources of an ending task over to a task from
                            // its prefilled backlog; if the ended task had been canceled the
                            // server has already given those resources to somebody else.
                            let key = if self.step_has_running_prefilled
                                || self.tainted_workers.contains(wid)
                            {
                                self.tainted_workers.insert(*wid);
                                "prefilled-task-started-into-reassigned-resources"
                            } else {
                                ""
                            };
                            fnd(
                                out,
                                "C05",
                                "worker-overbooked",
                                key,
                                format!(
                                    "worker {wid}: tasks placed on it request {u} of resource {} ({}), it provides {total}",
                                    r,
                                    core.resource_names.get(r).cloned().unwrap_or_default()
                                ),
                                step,
                            );
                        } else if let Some(f) = free.get(r)
                            && *f != total - *u
                        {
                            fnd(
                                out,
                                "C05",
                                "free-resources-drift",
                                if self.tainted_workers.contains(wid) {
                                    "after-prefilled-task-started-into-reassigned-resources"
                                } else {
                                    ""
                                },
                                format!(
                                    "worker {wid} resource {r}: server believes {f} is free, total {total} minus placed {u} = {}",
                                    total - *u
                                ),
                                step,
                            );
                        }
                    }
                    for t in prefilled {
                        let k = tkey(*t);
                        let ok = matches!(
                            tasks.get(&k).map(|x| &x.state),
                            Some(TaskStateSnapshot::Prefilled { worker_id }) if worker_id.as_num() == *wid
                        );
                        if !ok {
                            fnd(
                                out,
                                "C08",
                                "core-consistency",
                                "worker-prefill-set-holds-foreign-task",
                                format!("worker {wid} lists {k:?} as prefilled but the task is {:?}", tasks.get(&k).map(|x| &x.state)),
                                step,
                            );
                        }
                    }
                }
                WorkerAssignmentSnapshot::Mn { task_id, .. } => {
                    let k = tkey(*task_id);
                    let ok = matches!(
                        tasks.get(&k).map(|x| &x.state),
                        Some(TaskStateSnapshot::RunningMultiNode(ws)) if ws.iter().any(|w| w.as_num() == *wid)
                    );
                    if !ok {
                        fnd(
                            out,
                            "C08",
                            "core-consistency",
                            "worker-reserved-for-foreign-task",
                            format!("worker {wid} is reserved for {k:?} but the task is {:?}", tasks.get(&k).map(|x| &x.state)),
                            step,
                        );
                    }
                }
            }
        }
    }

    /// C05: what one scheduling round placed
    fn check_round(
        &mut self,
        world: &World,
        prev: &CoreSnapshot,
        core: &CoreSnapshot,
        obs: &StepObs,
        step: u64,
        out: &mut Vec<Finding>,
    ) {
        self.probes.hit("scheduling_rounds");
        let now_ms = world.now_ms.get();
        let prev_tasks: BTreeMap<TaskKey, &tako::verif::TaskSnapshot> =
            prev.tasks.iter().map(|t| (tkey(t.id), t)).collect();
        let prev_workers: BTreeMap<u32, &tako::verif::WorkerSnapshot> =
            prev.workers.iter().map(|w| (w.id.as_num(), w)).collect();
        let workers: BTreeMap<u32, &tako::verif::WorkerSnapshot> =
            core.workers.iter().map(|w| (w.id.as_num(), w)).collect();
        let mut placed = 0;
        for t in &core.tasks {
            let k = tkey(t.id);
            let before = prev_tasks.get(&k).map(|x| &x.state);
            let placement: Option<(u32, u8)> = match &t.state {
                TaskStateSnapshot::Assigned { worker_id, rv_id }
                    if !matches!(before, Some(TaskStateSnapshot::Assigned { .. })) =>
                {
                    Some((worker_id.as_num(), rv_id.as_num()))
                }
                TaskStateSnapshot::Retracting { .. } => {
                    let now = core.redirects.iter().find(|r| r.0 == t.id);
                    let was = prev.redirects.iter().find(|r| r.0 == t.id);
                    match (now, was) {
                        (Some(n), w) if w.map(|w| (w.1, w.2)) != Some((n.1, n.2)) => {
                            self.probes.hit("redirect_decided");
                            Some((n.1.as_num(), n.2.as_num()))
                        }
                        _ => None,
                    }
                }
                _ => None,
            };
            if let Some((w, rv)) = placement {
                placed += 1;
                let rqv = &core.requests[t.resource_rq_id.as_num() as usize];
                let rq = &rqv.requests()[rv as usize];
                let Some(ws) = workers.get(&w) else {
                    fnd(out, "C05", "placed-on-unknown-worker", "", format!("{k:?} placed on unknown worker {w}"), step);
                    continue;
                };
                for e in rq.entries() {
                    let r = e.resource_id.as_num() as usize;
                    let total = ws.resources.get(r).copied().unwrap_or(0);
                    let need = e
                        .request
                        .amount_or_none_if_all()
                        .map(|a| a.total_fractions())
                        .unwrap_or(1);
                    if need > total {
                        fnd(
                            out,
                            "C05",
                            "placed-on-incapable-worker",
                            "",
                            format!(
                                "{k:?} needs {need} of {} but was placed on worker {w} which provides {total}",
                                core.resource_names.get(r).cloned().unwrap_or_default()
                            ),
                            step,
                        );
                    }
                }
                // remaining lifetime
                let min_time_ms = rq.min_time().as_millis() as u64;
                if let Some(wsim) = world.workers.get(&w)
                    && let Some(limit) = wsim.time_limit_ms
                    && now_ms + min_time_ms > wsim.start_ms + limit
                {
                    fnd(
                        out,
                        "C05",
                        "placed-without-enough-lifetime",
                        "",
                        format!(
                            "{k:?} needs {min_time_ms} ms but worker {w} ends in {} ms",
                            (wsim.start_ms + limit).saturating_sub(now_ms)
                        ),
                        step,
                    );
                }
                if ws.blocked_requests.contains(&(t.resource_rq_id, rv.into())) {
                    self.probes.hit("placed_on_blocking_worker");
                }
            }
            // multi-node grants
            if let TaskStateSnapshot::RunningMultiNode(ws) = &t.state
                && !matches!(before, Some(TaskStateSnapshot::RunningMultiNode(_)))
            {
                self.probes.hit("mn_granted");
                let rqv = &core.requests[t.resource_rq_id.as_num() as usize];
                let n = rqv.requests()[0].n_nodes() as usize;
                let distinct: BTreeSet<u32> = ws.iter().map(|w| w.as_num()).collect();
                if ws.len() != n || distinct.len() != n {
                    fnd(
                        out,
                        "C05",
                        "mn-wrong-worker-count",
                        "",
                        format!("{k:?} asks for {n} nodes and got {ws:?}"),
                        step,
                    );
                }
                let mn_min_time_ms = rqv.requests()[0].min_time().as_millis() as u64;
                for w in ws {
                    if let Some(wsim) = world.workers.get(&w.as_num())
                        && let Some(limit) = wsim.time_limit_ms
                        && mn_min_time_ms > 0
                        && now_ms + mn_min_time_ms > wsim.start_ms + limit
                    {
                        fnd(
                            out,
                            "C05",
                            "placed-without-enough-lifetime",
                            "multi-node-member",
                            format!(
                                "multi-node task {k:?} needs {mn_min_time_ms} ms but its worker {w} ends in {} ms",
                                (wsim.start_ms + limit).saturating_sub(now_ms)
                            ),
                            step,
                        );
                    }
                }
                let groups: BTreeSet<&str> = ws
                    .iter()
                    .filter_map(|w| workers.get(&w.as_num()).map(|x| x.group.as_str()))
                    .collect();
                if groups.len() > 1 {
                    fnd(
                        out,
                        "C05",
                        "mn-across-groups",
                        "",
                        format!("{k:?} got workers {ws:?} from groups {groups:?}"),
                        step,
                    );
                }
                for w in ws {
                    if let Some(pw) = prev_workers.get(&w.as_num()) {
                        let busy = match &pw.assignment {
                            WorkerAssignmentSnapshot::Sn { assigned, .. } => !assigned.is_empty(),
                            WorkerAssignmentSnapshot::Mn { .. } => true,
                        };
                        if busy {
                            fnd(
                                out,
                                "C05",
                                "mn-on-busy-worker",
                                "",
                                format!("{k:?} got worker {w} which had {:?}", pw.assignment),
                                step,
                            );
                        }
                        if let WorkerAssignmentSnapshot::Sn { prefilled, .. } = &pw.assignment
                            && !prefilled.is_empty()
                        {
                            self.probes.hit("mn_on_worker_with_prefilled_backlog");
                        }
                    }
                }
            }
        }
        if placed > 0 {
            self.probes.hit("rounds_with_placements");
        }
        self.check_priorities(world, prev, core, obs, step, out);
    }

    /// C15: the statement, literally, on one scheduling round inside the property's domain.
    fn check_priorities(
        &mut self,
        world: &World,
        prev: &CoreSnapshot,
        core: &CoreSnapshot,
        obs: &StepObs,
        step: u64,
        out: &mut Vec<Finding>,
    ) {
        if obs.scheduler != Some(tako::verif::SimSchedulerResult::Done) {
            self.probes.hit("c15_round_not_optimal");
            return;
        }
        let prio = |t: &tako::verif::TaskSnapshot| -> i64 {
            format!("{}", t.user_priority).parse::<i64>().unwrap_or(0)
        };
        // ---- domain: the ready queue before the round
        let ready: Vec<&tako::verif::TaskSnapshot> = prev
            .tasks
            .iter()
            .filter(|t| matches!(t.state, TaskStateSnapshot::Waiting { unfinished_deps: 0 }))
            .collect();
        if ready.is_empty() {
            return;
        }
        if prev.tasks.iter().any(|t| {
            matches!(
                t.state,
                TaskStateSnapshot::Prefilled { .. } | TaskStateSnapshot::Retracting { .. }
            )
        }) {
            self.probes.hit("c15_round_with_prefill_or_retract_skipped");
            return;
        }
        let mut classes: BTreeSet<u32> = BTreeSet::new();
        let mut levels: BTreeSet<i64> = BTreeSet::new();
        for t in &ready {
            let rqv = &prev.requests[t.resource_rq_id.as_num() as usize];
            if rqv.requests().len() != 1 || rqv.requests()[0].is_multi_node() {
                self.probes.hit("c15_round_outside_domain");
                return;
            }
            classes.insert(t.resource_rq_id.as_num());
            levels.insert(prio(t));
        }
        if levels.len() > 8 {
            return;
        }
        let now_ms = world.now_ms.get();
        struct W<'a> {
            id: u32,
            snap: &'a tako::verif::WorkerSnapshot,
            free: Vec<u64>,
            life_left_ms: Option<u64>,
        }
        let mut workers: Vec<W> = Vec::new();
        for ws in &prev.workers {
            let wid = ws.id.as_num();
            if ws.stop_reason.is_some() || self.tainted_workers.contains(&wid) {
                continue;
            }
            let WorkerAssignmentSnapshot::Sn { free, .. } = &ws.assignment else {
                continue;
            };
            let life = world.workers.get(&wid).and_then(|w| {
                w.time_limit_ms
                    .map(|l| (w.start_ms + l).saturating_sub(now_ms))
            });
            workers.push(W {
                id: wid,
                snap: ws,
                free: free.clone(),
                life_left_ms: life,
            });
        }
        if workers.is_empty() {
            return;
        }
        self.probes.hit("c15_rounds_in_domain");
        let amounts = |t: &tako::verif::TaskSnapshot, total: &[u64]| -> Vec<(usize, u64)> {
            let rq = &prev.requests[t.resource_rq_id.as_num() as usize].requests()[0];
            rq.entries()
                .iter()
                .map(|e| {
                    let r = e.resource_id.as_num() as usize;
                    (
                        r,
                        e.request
                            .amount_or_none_if_all()
                            .map(|a| a.total_fractions())
                            .unwrap_or_else(|| total.get(r).copied().unwrap_or(0).max(1)),
                    )
                })
                .collect()
        };
        let min_time_ms = |t: &tako::verif::TaskSnapshot| -> u64 {
            prev.requests[t.resource_rq_id.as_num() as usize].requests()[0]
                .min_time()
                .as_millis() as u64
        };
        let uses_all = |t: &tako::verif::TaskSnapshot| -> bool {
            prev.requests[t.resource_rq_id.as_num() as usize].requests()[0]
                .entries()
                .iter()
                .any(|e| e.request.amount_or_none_if_all().is_none())
        };
        // capable by total resources and lifetime
        let capable = |w: &W, t: &tako::verif::TaskSnapshot| -> bool {
            amounts(t, &w.snap.resources)
                .iter()
                .all(|(r, a)| w.snap.resources.get(*r).copied().unwrap_or(0) >= *a)
                && w.life_left_ms.is_none_or(|l| l >= min_time_ms(t))
        };
        let after: BTreeMap<TaskKey, &tako::verif::TaskSnapshot> =
            core.tasks.iter().map(|t| (tkey(t.id), t)).collect();
        // D: dispatched in this round, per worker; Q: still ready afterwards
        let mut dispatched: BTreeMap<u32, Vec<&tako::verif::TaskSnapshot>> = BTreeMap::new();
        let mut left: Vec<&tako::verif::TaskSnapshot> = Vec::new();
        for t in &ready {
            match after.get(&tkey(t.id)).map(|x| &x.state) {
                Some(TaskStateSnapshot::Assigned { worker_id, .. }) => {
                    dispatched.entry(worker_id.as_num()).or_default().push(t)
                }
                Some(TaskStateSnapshot::Waiting { unfinished_deps: 0 }) => left.push(t),
                _ => {}
            }
        }
        if dispatched.is_empty() || left.is_empty() {
            return;
        }
        self.probes.hit("c15_rounds_with_dispatch_and_leftover");
        let heterogeneous = workers
            .iter()
            .any(|w| w.snap.resources != workers[0].snap.resources);
        let busy = workers.iter().any(|w| w.free != w.snap.resources);
        #[allow(clippy::type_complexity)]
        let mut deferred: Option<(
            String,
            tako::TaskId,
            i64,
            tako::resources::ResourceRqId,
            u32,
            Vec<u64>,
            Vec<tako::TaskId>,
        )> = None;
        for h in &left {
            let ph = prio(h);
            for w in &workers {
                let Some(dw) = dispatched.get(&w.id) else {
                    continue;
                };
                if !dw.iter().any(|l| prio(l) < ph) {
                    continue;
                }
                if !capable(w, h) {
                    continue;
                }
                // A worker that has soft-rejected the request of h ("blocked request") still has
                // room for it by the server's books: the scheduler then keeps the worker's free
                // resources for h instead of handing them to lower-priority tasks. Judged like
                // any other worker, keyed apart.
                let blocked_here = w
                    .snap
                    .blocked_requests
                    .contains(&(h.resource_rq_id, 0.into()));
                // free before the round minus what tasks of priority >= h's take there
                let mut free = w.free.clone();
                let mut all_blocked = false;
                for d in dw.iter().filter(|d| prio(d) >= ph) {
                    for (r, a) in amounts(d, &w.snap.resources) {
                        if r < free.len() {
                            free[r] = free[r].saturating_sub(a);
                        }
                    }
                    if uses_all(d) {
                        all_blocked = true;
                    }
                }
                let fits = !all_blocked
                    && amounts(h, &w.snap.resources).iter().all(|(r, a)| {
                        let f = free.get(*r).copied().unwrap_or(0);
                        if uses_all(h) {
                            // `all` needs the whole resource
                            f >= *a && w.free.get(*r) == w.snap.resources.get(*r)
                        } else {
                            f >= *a
                        }
                    });
                if !fits {
                    continue;
                }
                // the stated exception: another worker could run h but is too busy now
                // (every worker the scheduler sees counts here, also one whose books are
                // off because of a known finding, or one that holds a multi-node task)
                let excused = prev.workers.iter().any(|o| {
                    // (a worker that was told to stop is still a candidate for the scheduler
                    // until it disconnects; the statement's domain has no such workers, so it
                    // counts for the excuse)
                    if o.id.as_num() == w.id {
                        return false;
                    }
                    let cap = amounts(h, &o.resources)
                        .iter()
                        .all(|(r, a)| o.resources.get(*r).copied().unwrap_or(0) >= *a);
                    let free_now = match &o.assignment {
                        WorkerAssignmentSnapshot::Sn { free, .. } => amounts(h, &o.resources)
                            .iter()
                            .all(|(r, a)| free.get(*r).copied().unwrap_or(0) >= *a),
                        WorkerAssignmentSnapshot::Mn { .. } => false,
                    };
                    // a worker that has reported the request as blocked is too busy to start it
                    // even if the server's books show room
                    let free_now = free_now
                        && !o.blocked_requests.contains(&(h.resource_rq_id, 0.into()));
                    cap && !free_now
                });
                if excused {
                    self.probes.hit("c15_excused_by_busy_capable_worker");
                    continue;
                }
                let lower: Vec<_> = dw.iter().filter(|l| prio(l) < ph).map(|l| l.id).collect();
                let pure = dw.iter().all(|l| prio(l) < ph);
                let same_class = dw
                    .iter()
                    .any(|l| prio(l) < ph && l.resource_rq_id == h.resource_rq_id);
                let _ = (heterogeneous, busy);
                let any_all = uses_all(h) || dw.iter().any(|d| uses_all(d));
                // The scheduler's encoding lets, per worker, as many tasks of a lower class run
                // as fit beside the maximal number of tasks of the waiting higher class ("gap"),
                // whatever else is placed there (known approximation). Is this inversion of
                // that kind? Recomputed here from the free resources before the round.
                let within_gap = !any_all && {
                    let ha = amounts(h, &w.snap.resources);
                    let max_h = ha
                        .iter()
                        .filter(|(_, a)| *a > 0)
                        .map(|(r, a)| w.free.get(*r).copied().unwrap_or(0) / *a)
                        .min()
                        .unwrap_or(0);
                    let mut rem = w.free.clone();
                    for (r, a) in &ha {
                        if *r < rem.len() {
                            rem[*r] = rem[*r].saturating_sub(max_h * *a);
                        }
                    }
                    // per lower class on this worker: all its tasks dispatched here
                    let mut per_class: BTreeMap<u32, (u64, &tako::verif::TaskSnapshot)> =
                        BTreeMap::new();
                    for l in dw.iter().filter(|l| prio(l) < ph) {
                        per_class.entry(l.resource_rq_id.as_num()).or_insert((0, *l));
                    }
                    for d in dw.iter() {
                        if let Some(e) = per_class.get_mut(&d.resource_rq_id.as_num()) {
                            e.0 += 1;
                        }
                    }
                    per_class.iter().all(|(class, (count, l))| {
                        let gap = amounts(l, &w.snap.resources)
                            .iter()
                            .filter(|(_, a)| *a > 0)
                            .map(|(r, a)| rem.get(*r).copied().unwrap_or(0) / *a)
                            .min()
                            .unwrap_or(0);
                        // the encoding's limit is per worker: (tasks of the class that are not
                        // lower than the waiting one, counted for the whole queue) + gap
                        let not_lower = ready
                            .iter()
                            .filter(|t| t.resource_rq_id.as_num() == *class && prio(t) >= ph)
                            .count() as u64;
                        *count <= not_lower + gap
                    })
                };
                let key = format!(
                    "w{}-c{}-l{}-{}-{}{}{}{}",
                    workers.len().min(4),
                    classes.len().min(4),
                    levels.len().min(4),
                    if pure { "pure" } else { "mixed" },
                    if same_class { "sameclass" } else { "crossclass" },
                    if any_all { "-all" } else { "" },
                    if same_class || any_all {
                        ""
                    } else if within_gap {
                        "-withingap"
                    } else {
                        "-beyondgap"
                    },
                    // (an inversion involving the `all` policy, or one within the gap, happens
                    // on idle workers too: whether the request was blocked there adds nothing to
                    // its description)
                    if blocked_here && !any_all && !(within_gap && !same_class) {
                        "-requestblockedthere"
                    } else {
                        ""
                    }
                );
                if blocked_here {
                    self.probes.hit("c15_inversion_on_worker_that_blocked_the_request");
                }
                // an inversion of the known kind must not hide another one of the same round
                if within_gap && !same_class {
                    if deferred.is_none() {
                        deferred = Some((key, h.id, ph, h.resource_rq_id, w.id, w.free.clone(), lower));
                    }
                    continue;
                }
                fnd(
                    out,
                    "C15",
                    "lower-priority-dispatched-over-fitting-higher",
                    key,
                    format!(
                        "round at step {step}: task {} (priority {ph}, request {}) stays ready although it fits on worker {} (free {:?}) once the lower-priority tasks {lower:?} dispatched there are left out; {} workers, {} request classes, {} priority levels",
                        h.id,
                        h.resource_rq_id,
                        w.id,
                        w.free,
                        workers.len(),
                        classes.len(),
                        levels.len()
                    ),
                    step,
                );
                return;
            }
        }
        if let Some((key, hid, ph, hrq, wid, wfree, lower)) = deferred {
            fnd(
                out,
                "C15",
                "lower-priority-dispatched-over-fitting-higher",
                key,
                format!(
                    "round at step {step}: task {hid} (priority {ph}, request {hrq}) stays ready although it fits on worker {wid} (free {wfree:?}) once the lower-priority tasks {lower:?} dispatched there are left out (their number is within what fits beside the maximal number of tasks of the waiting class); {} workers, {} request classes, {} priority levels",
                    workers.len(),
                    classes.len(),
                    levels.len()
                ),
                step,
            );
        }
    }

    fn check_obligations(
        &mut self,
        world: &World,
        action: &Action,
        step: u64,
        out: &mut Vec<Finding>,
    ) {
        // An obligation is resolved when the handling future of the execution was polled after
        // the cancel was processed: then the execution has seen the stop (or it ended).
        let launches = world.launches.borrow();
        let polled: Option<(u32, TaskKey, u32)> = match action {
            Action::PollTask {
                w,
                job,
                task,
                instance,
            } => Some((*w, (*job, *task), *instance)),
            _ => None,
        };
        let mut keep = Vec::new();
        for o in std::mem::take(&mut self.obligations) {
            let l = launches
                .iter()
                .find(|l| l.worker == o.worker && l.task == o.task && l.instance == o.instance);
            let Some(l) = l else { continue };
            let worker_gone = world
                .workers
                .get(&o.worker)
                .is_none_or(|w| w.sim.is_none());
            if worker_gone || l.ended.is_some() {
                continue;
            }
            // (a stop for the time limit that fired just before also stops the execution)
            if l.stop_seen.is_some() {
                self.probes.hit("cancel_observed_by_execution");
                continue;
            }
            if polled == Some((o.worker, o.task, o.instance)) && step > o.step {
                fnd(
                    out,
                    o.property,
                    "execution-not-stopped",
                    "",
                    format!(
                        "worker {} processed CancelTasks for {:?} at step {} but its execution (instance {}) was not told to stop",
                        o.worker, o.task, o.step, o.instance
                    ),
                    step,
                );
                continue;
            }
            keep.push(o);
        }
        self.obligations = keep;
    }

    /// Right after a `CrashServer` step: compare the restarted server with the reference fold
    /// of what survived (C10, C11, restart halves of C06/C07) and restart the model from it.
    pub fn after_restore(&mut self, world: &mut World) -> Option<crate::restore_ref::RefState> {
        let step = world.step.get();
        let full = world.scratch.join("journal.full");
        let cut_len = std::fs::metadata(world.cut_journal_path())
            .map(|m| m.len())
            .unwrap_or(0);
        let (reference, cut) =
            match crate::oracles_restore::restore_expectation(&full, cut_len, &world.scratch) {
                Ok(x) => x,
                Err(e) => {
                    self.push_findings(vec![Finding {
                        property: "HARNESS",
                        oracle: "reference-fold-failed",
                        key: String::new(),
                        message: format!("the reference fold cannot read the journal: {e:?}"),
                        step,
                    }]);
                    return None;
                }
            };
        let mut out = Vec::new();
        crate::oracles_restore::compare_restore(&reference, world, &cut, step, &mut out);
        self.probes.hit("restarts");
        if cut.torn {
            self.probes.hit("restart_with_torn_record");
        }
        if reference
            .jobs
            .values()
            .any(|j| j.tasks.values().any(|t| matches!(t.state, crate::restore_ref::RefTaskState::Running { .. })))
        {
            self.probes.hit("restart_with_running_tasks");
        }
        if reference.jobs.values().any(|j| j.open && j.submits >= 2) {
            self.probes.hit("restart_of_open_job_with_2+_submits");
        }
        if reference.jobs.values().any(|j| j.submits >= 2) {
            self.probes.hit("restart_of_job_with_2+_submits");
        }
        if reference.jobs.values().any(|j| {
            j.tasks.values().any(|t| {
                t.state == crate::restore_ref::RefTaskState::Failed && t.started_instances.is_empty()
            })
        }) {
            self.probes.hit("restart_with_task_failed_before_start");
        }
        if reference.jobs.values().any(|j| j.tasks.values().any(|t| t.crash_count > 0)) {
            self.probes.hit("restart_with_crash_counts");
        }
        if !reference.jobs.is_empty() {
            self.probes.hit("restart_with_unfinished_jobs");
        }
        if !reference.completed_jobs.is_empty() {
            self.probes.hit("restart_with_completed_jobs");
        }
        if !reference.queue_ids_mentioned.is_empty() {
            self.probes.hit("restart_with_queue_ids");
            if reference.queue_ids_mentioned.iter().max() > reference.live_queues.iter().max() {
                self.probes.hit("restart_with_highest_queue_removed");
            }
        }
        if let Some(max) = reference.job_ids_mentioned.iter().max()
            && !reference.jobs.contains_key(max)
        {
            self.probes.hit("restart_with_highest_job_completed");
        }
        if !reference.worker_ids_mentioned.is_empty() {
            self.probes.hit("restart_with_worker_ids");
        }
        if reference.finished_without_record > 0 {
            self.probes.hit("restart_with_finished_job_lacking_completion_record");
        }
        // the model continues from what was durably recorded
        self.model = crate::oracles_restore::model_from_ref(&reference, step);
        self.must_not_start.clear();
        self.completed_jobs.clear();
        for (jid, j) in &self.model.jobs {
            for (tid, t) in &j.tasks {
                if t.state.is_terminal() {
                    // "finished tasks are not run again, failed and canceled ones stay so"
                    self.must_not_start.insert(
                        (*jid, *tid),
                        ("C10", "task-with-recorded-outcome-runs-again", step, true),
                    );
                } else if t.dead_dep_at_submit {
                    self.must_not_start.insert(
                        (*jid, *tid),
                        ("C03", "late-dependent-of-dead-task", step, true),
                    );
                }
            }
        }
        // executions from before the crash whose start record did not survive cannot be known
        // to the new server (the durability narrowing of C06)
        {
            let mut launches = world.launches.borrow_mut();
            for l in launches.iter_mut() {
                let durable = reference
                    .jobs
                    .get(&l.task.0)
                    .and_then(|j| j.tasks.get(&l.task.1))
                    .is_some_and(|t| t.started_instances.contains(&l.instance));
                if !durable {
                    l.non_durable = true;
                }
            }
        }
        // state invariants of the fresh incarnation against the fresh model
        if world.dead.is_none() && world.inc.is_some() {
            let obs = StepObs::default();
            self.check_state(world, &Action::JournalStep, &obs, step, &mut out);
        }
        self.push_findings(out);
        Some(reference)
    }

    /// The journal thread executed a prune in the last step (C12).
    pub fn after_prune(&mut self, world: &World) {
        let step = world.step.get();
        let mut out = Vec::new();
        if crate::oracles_restore::check_prune(world, step, &mut out) {
            self.probes.hit("prunes");
            if let Some((jobs, workers)) = world.last_prune_live.borrow().as_ref() {
                match crate::oracles_restore::check_prune_batched(world, jobs, workers, step, &mut out) {
                    Some(true) => self.probes.hit("prune_of_derived_journal_with_batch_spanning_jobs"),
                    Some(false) => {}
                    None => self.probes.hit("prune_batched_variant_not_built"),
                }
            }
            let live = self.model.jobs.values().filter(|j| !(j.all_terminal() && !j.open)).count();
            if live > 0 && self.completed_jobs.len() > 0 {
                self.probes.hit("prune_with_live_and_completed_jobs");
            }
            if self.model.jobs.values().any(|j| j.tasks.values().any(|t| t.crash_count > 0 && !t.state.is_terminal())) {
                self.probes.hit("prune_with_crash_counted_pending_task");
            }
            if self.model.jobs.values().any(|j| j.tasks.values().any(|t| !t.started_instances.is_empty() && !t.state.is_terminal())) {
                self.probes.hit("prune_with_restarted_pending_task");
            }
        }
        self.push_findings(out);
    }

    /// End of the run: a graceful stop (everything flushed) and a restart from the complete
    /// journal; `cuts`: additional crash points to try on that journal (C10 sweep).
    pub fn final_journal_check(&mut self, world: &mut World, sweep: Option<(u64, u32)>) {
        if world.dead.is_some() || !world.cfg.journal {
            return;
        }
        let Some(bytes) = world.flush_journal_now() else {
            return;
        };
        let step = world.step.get();
        let mut cuts: Vec<u64> = vec![bytes.len() as u64];
        if let Some((seed, interior)) = sweep {
            let tmp = world.scratch.join("journal.bounds");
            if std::fs::write(&tmp, &bytes).is_ok()
                && let Ok(offsets) = crate::restore_ref::record_boundaries(&tmp)
            {
                let mut rng = crate::sim::rng::Rng::new(seed);
                for w in offsets.windows(2) {
                    cuts.push(w[0]);
                    let len = w[1] - w[0];
                    for _ in 0..interior.min(len.saturating_sub(1) as u32) {
                        cuts.push(w[0] + 1 + rng.below(len - 1));
                    }
                }
            }
            let _ = std::fs::remove_file(&tmp);
            cuts.sort();
            cuts.dedup();
        }
        let mut out = Vec::new();
        let (done, torn) =
            crate::oracles_restore::check_journal_cuts(world, &bytes, &cuts, step, &mut out);
        self.probes.add("journal_cuts_checked", done as u64);
        self.probes.add("journal_cuts_torn", torn as u64);
        if sweep.is_some() {
            self.probes.hit("journal_sweeps");
        }
        self.probes.hit("final_restart_checks");
        self.push_findings(out);
    }

    /// End of run (after the fair suffix): bounded liveness and leftovers.
    pub fn at_quiescence(&mut self, world: &World, quiescent: bool, out_of_budget: bool) {
        let step = world.step.get();
        let mut out = Vec::new();
        if world.dead.is_some() || world.inc.is_none() {
            return;
        }
        self.liveness_checked = true;
        if !quiescent {
            if out_of_budget {
                fnd(
                    &mut out,
                    "C02",
                    "no-quiescence-within-bound",
                    "",
                    "the system did not come to rest within the fair-suffix step bound".to_string(),
                    step,
                );
            }
            self.push_findings(out);
            return;
        }
        self.probes.hit("quiescent_runs");
        // unresolved cancel obligations: the execution never even got woken
        for o in &self.obligations {
            let launches = world.launches.borrow();
            let l = launches
                .iter()
                .find(|l| l.worker == o.worker && l.task == o.task && l.instance == o.instance);
            if let Some(l) = l
                && l.ended.is_none()
                && l.stop_seen.is_none()
                && world.workers.get(&o.worker).is_some_and(|w| w.sim.is_some())
            {
                fnd(
                    &mut out,
                    o.property,
                    "execution-not-stopped",
                    "quiescence",
                    format!(
                        "worker {} processed CancelTasks for {:?} at step {} but its execution is still running untouched at quiescence",
                        o.worker, o.task, o.step
                    ),
                    step,
                );
            }
        }
        let core = world.core_snapshot().unwrap();
        let now_ms = world.now_ms.get();
        // C02 liveness: every non-terminal task waits for a dependency or cannot run anywhere
        let connected: Vec<&crate::engines::cluster::WorkerSim> = world
            .workers
            .values()
            .filter(|w| w.server_connected && w.phase == WorkerPhase::Up)
            .collect();
        for (jid, job) in &self.model.jobs {
            for (tid, t) in &job.tasks {
                if t.state.is_terminal() {
                    continue;
                }
                let k = (*jid, *tid);
                if let MState::Running { .. } = t.state {
                    fnd(
                        &mut out,
                        "C02",
                        "task-running-at-rest",
                        "",
                        format!("at rest task {k:?} is still shown as running"),
                        step,
                    );
                    continue;
                }
                let waits_for_dep = t.deps.iter().any(|d| {
                    job.tasks
                        .get(d)
                        .is_some_and(|x| x.state != MState::Finished)
                });
                if waits_for_dep {
                    continue;
                }
                // independent runnable-somewhere test
                let mut runnable_on = None;
                for v in &t.rq.variants {
                    if v.n_nodes > 0 {
                        // a group with >= n connected workers that have enough lifetime
                        let mut per_group: BTreeMap<&str, u32> = BTreeMap::new();
                        for w in &connected {
                            let spec = &world.cfg.workers[w.spec_index as usize];
                            let life_ok = w
                                .time_limit_ms
                                .is_none_or(|l| now_ms + v.min_time * 1000 <= w.start_ms + l);
                            let stopping = core
                                .workers
                                .iter()
                                .find(|x| x.id.as_num() == w.id)
                                .is_some_and(|x| x.stop_reason.is_some());
                            if life_ok && !stopping {
                                *per_group.entry(spec.group.as_str()).or_default() += 1;
                            }
                        }
                        if per_group.values().any(|n| *n >= v.n_nodes) {
                            runnable_on = Some(0);
                        }
                        continue;
                    }
                    for w in &connected {
                        let spec = &world.cfg.workers[w.spec_index as usize];
                        let res_ok = v.entries.iter().all(|e| {
                            let total = spec.total(&e.resource);
                            match e.policy {
                                PolicySpec::All => total > 0,
                                _ => e.amount <= total,
                            }
                        });
                        // strict policies may be refused forever on a worker whose groups can
                        // never hold the amount compactly: only count plainly satisfiable ones
                        let strict = v.entries.iter().any(|e| {
                            matches!(e.policy, PolicySpec::ForceCompact | PolicySpec::ForceTight)
                        });
                        let life_ok = w
                            .time_limit_ms
                            .is_none_or(|l| now_ms + v.min_time * 1000 <= w.start_ms + l);
                        let stopping = core
                            .workers
                            .iter()
                            .find(|x| x.id.as_num() == w.id)
                            .is_some_and(|x| x.stop_reason.is_some());
                        if res_ok && life_ok && !strict && !stopping {
                            runnable_on = Some(w.id);
                        }
                    }
                }
                if let Some(w) = runnable_on {
                    fnd(
                        &mut out,
                        "C02",
                        "runnable-task-stuck",
                        if t.rq.is_multi_node() { "multi-node" } else { "single-node" },
                        format!(
                            "at rest task {k:?} ({:?}) is waiting although it has no unfinished dependency and connected worker {w} can run it",
                            t.rq
                        ),
                        step,
                    );
                } else {
                    self.probes.hit("task_not_runnable_anywhere");
                }
            }
            if !job.open && job.all_terminal() && !job.tasks.is_empty() && job.completed_events == 0 {
                fnd(
                    &mut out,
                    "C02",
                    "closed-job-not-completed",
                    "",
                    format!("job {jid} is closed and all its tasks are terminal but it was not completed"),
                    step,
                );
            }
        }
        // C13: waiting clients got the completion report
        for (c, (job, got)) in &self.waiting_clients {
            let completed = self.completed_jobs.contains(job);
            let Some(cl) = world.clients.get(c) else {
                continue;
            };
            // a client that hung up itself is not owed anything
            if cl.closed_by_client || *got {
                continue;
            }
            if completed {
                fnd(
                    &mut out,
                    "C13",
                    "wait-missed-completion",
                    if cl.closed { "connection-closed-by-server" } else { "" },
                    format!("client {c} submitted job {job} with wait; the job completed but the client never received the completion report"),
                    step,
                );
            } else if cl.closed {
                fnd(
                    &mut out,
                    "C13",
                    "wait-missed-completion",
                    "connection-closed-by-server-before-completion",
                    format!("client {c} submitted job {job} with wait; the server closed the connection although the job has not completed"),
                    step,
                );
            }
        }
        // C02: a request shape blocked on the server although the worker would take it now
        // (at rest nothing is executing, so a worker that once refused a request for lack of
        // free resources must have enabled it again; a ready task of that class is stuck)
        for ws in &core.workers {
            if ws.blocked_requests.is_empty() {
                continue;
            }
            self.probes.hit("blocked_request_at_rest");
            let idle = match &ws.assignment {
                WorkerAssignmentSnapshot::Sn { free, .. } => *free == ws.resources,
                WorkerAssignmentSnapshot::Mn { .. } => false,
            };
            let up = world
                .workers
                .get(&ws.id.as_num())
                .is_some_and(|w| w.server_connected && w.phase == WorkerPhase::Up);
            if !idle || !up || ws.stop_reason.is_some() {
                continue;
            }
            let life_left_ms = world.workers.get(&ws.id.as_num()).and_then(|w| {
                w.time_limit_ms
                    .map(|l| (w.start_ms + l).saturating_sub(world.now_ms.get()))
            });
            for (rq, rv) in &ws.blocked_requests {
                // (a worker that has too little lifetime left for the time request refuses it
                // for good: that refusal is never withdrawn, and rightly so)
                let min_time_ms = core
                    .requests
                    .get(rq.as_num() as usize)
                    .and_then(|rqv| rqv.requests().get(rv.as_num() as usize))
                    .map(|r| r.min_time().as_millis() as u64)
                    .unwrap_or(0);
                if life_left_ms.is_some_and(|l| l < min_time_ms) {
                    self.probes.hit("refusal_for_lack_of_lifetime_at_rest");
                    continue;
                }
                let stuck = core.tasks.iter().find(|t| {
                    t.resource_rq_id == *rq
                        && matches!(t.state, TaskStateSnapshot::Waiting { unfinished_deps: 0 })
                });
                if let Some(t) = stuck {
                    fnd(
                        &mut out,
                        "C02",
                        "runnable-task-stuck",
                        "request-blocked-on-idle-worker",
                        format!(
                            "at rest worker {} is idle but the server still holds its refusal of request {rq} variant {rv}: task {} of that class stays ready",
                            ws.id, t.id
                        ),
                        step,
                    );
                    break;
                }
            }
        }
        self.push_findings(out);
    }
}

pub fn payload_digest(p: &EventPayload) -> String {
    match p {
        EventPayload::Submit {
            job_id, closed_job, ..
        } => format!("Submit({job_id},{closed_job})"),
        EventPayload::WorkerConnected(w, _) => format!("WorkerConnected({w})"),
        EventPayload::TaskFailed { task_id, error } => format!("TaskFailed({task_id},{error})"),
        other => format!("{other:?}"),
    }
}

pub fn lost_reason_name(r: LostWorkerReason) -> &'static str {
    match r {
        LostWorkerReason::Stopped => "stopped",
        LostWorkerReason::ConnectionLost => "connection-lost",
        LostWorkerReason::HeartbeatLost => "heartbeat-lost",
        LostWorkerReason::IdleTimeout => "idle-timeout",
        LostWorkerReason::TimeLimitReached => "time-limit",
    }
}
