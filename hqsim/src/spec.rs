//! Serializable description of a simulated run: cluster, workload, actions.
//! Everything a replay needs is in these types; converting them into HyperQueue's own message
//! types happens in `to_*` functions so that the replay file stays readable JSON.

use serde::{Deserialize, Serialize};
use std::path::PathBuf;
use std::time::Duration;

use hyperqueue::common::arraydef::IntArray;
use hyperqueue::transfer::messages::{
    JobDescription, JobSubmitDescription, JobTaskDescription, LocalResourceRqId, PinMode,
    SubmitRequest, TaskDescription, TaskKind, TaskKindProgram, TaskWithDependencies,
};
use tako::gateway::{
    CrashLimit, ResourceRequest, ResourceRequestEntry, ResourceRequestVariants,
};
use tako::program::{ProgramDefinition, StdioDef};
use tako::resources::{
    AllocationRequest, ResourceAmount, ResourceDescriptor, ResourceDescriptorItem,
    ResourceDescriptorKind, ResourceIndex,
};
use tako::worker::{ServerLostPolicy, WorkerConfiguration};
use tako::{JobId, JobTaskId, UserPriority};

/* ---------------------------------------------------------------------------------------- */
/* Cluster                                                                                  */
/* ---------------------------------------------------------------------------------------- */

#[derive(Debug, Clone, Serialize, Deserialize, PartialEq, Eq)]
pub enum ResKindSpec {
    /// indices 0..n
    Range(u32),
    /// explicit labels
    List(Vec<String>),
    /// groups of the given sizes, labels are consecutive numbers
    Groups(Vec<u32>),
    /// amount in fractions (1 unit = 10_000)
    Sum(u64),
}

impl ResKindSpec {
    pub fn total_fractions(&self) -> u64 {
        match self {
            ResKindSpec::Range(n) => *n as u64 * 10_000,
            ResKindSpec::List(v) => v.len() as u64 * 10_000,
            ResKindSpec::Groups(g) => g.iter().map(|x| *x as u64).sum::<u64>() * 10_000,
            ResKindSpec::Sum(f) => *f,
        }
    }

    pub fn n_groups(&self) -> usize {
        match self {
            ResKindSpec::Groups(g) => g.len(),
            _ => 1,
        }
    }

    pub fn to_kind(&self) -> ResourceDescriptorKind {
        match self {
            ResKindSpec::Range(n) => ResourceDescriptorKind::Range {
                start: ResourceIndex::new(0),
                end: ResourceIndex::new(n - 1),
            },
            ResKindSpec::List(v) => ResourceDescriptorKind::list(v.clone()).unwrap(),
            ResKindSpec::Groups(sizes) => {
                let mut i = 0;
                let groups: Vec<Vec<String>> = sizes
                    .iter()
                    .map(|s| {
                        (0..*s)
                            .map(|_| {
                                i += 1;
                                (i - 1).to_string()
                            })
                            .collect()
                    })
                    .collect();
                ResourceDescriptorKind::groups(groups).unwrap()
            }
            ResKindSpec::Sum(f) => ResourceDescriptorKind::Sum {
                size: amount_from_fractions(*f),
            },
        }
    }
}

pub fn amount_from_fractions(f: u64) -> ResourceAmount {
    ResourceAmount::new((f / 10_000) as u32, (f % 10_000) as u32)
}

#[derive(Debug, Clone, Serialize, Deserialize, PartialEq, Eq)]
pub struct WorkerSpec {
    pub resources: Vec<(String, ResKindSpec)>,
    pub group: String,
    /// seconds
    pub time_limit: Option<u64>,
    /// Coupling weights: (resource idx, group idx, resource idx, group idx, weight)
    #[serde(default)]
    pub coupling: Vec<(u8, u8, u8, u8, u16)>,
}

impl WorkerSpec {
    pub fn descriptor(&self) -> ResourceDescriptor {
        let mut weights: Vec<tako::resources::ResourceDescriptorCouplingItem> = self
            .coupling
            .iter()
            .map(|(r1, g1, r2, g2, w)| {
                let mut item = tako::resources::ResourceDescriptorCouplingItem {
                    resource1_idx: *r1,
                    group1_idx: (*g1).into(),
                    resource2_idx: *r2,
                    group2_idx: (*g2).into(),
                    weight: *w,
                };
                item.normalize();
                item
            })
            .collect();
        weights.sort();
        ResourceDescriptor::new(
            self.resources
                .iter()
                .map(|(name, kind)| ResourceDescriptorItem {
                    name: name.clone(),
                    kind: kind.to_kind(),
                })
                .collect(),
            tako::resources::ResourceDescriptorCoupling { weights },
        )
    }

    pub fn configuration(&self, index: usize) -> WorkerConfiguration {
        WorkerConfiguration {
            resources: self.descriptor(),
            listen_address: format!("simhost{index}:1"),
            hostname: format!("simhost{index}"),
            group: self.group.clone(),
            work_dir: PathBuf::from("/sim/work"),
            heartbeat_interval: Duration::from_secs(8),
            overview_configuration: Default::default(),
            idle_timeout: None,
            time_limit: self.time_limit.map(Duration::from_secs),
            retract_check_interval: Duration::from_secs(10),
            on_server_lost: ServerLostPolicy::Stop,
            min_utilization: 0.0,
            extra: Default::default(),
        }
    }

    pub fn total(&self, name: &str) -> u64 {
        self.resources
            .iter()
            .find(|(n, _)| n == name)
            .map(|(_, k)| k.total_fractions())
            .unwrap_or(0)
    }
}

/* ---------------------------------------------------------------------------------------- */
/* Requests                                                                                 */
/* ---------------------------------------------------------------------------------------- */

#[derive(Debug, Clone, Copy, Serialize, Deserialize, PartialEq, Eq, Hash, PartialOrd, Ord)]
pub enum PolicySpec {
    Compact,
    Tight,
    Scatter,
    ForceCompact,
    ForceTight,
    All,
}

#[derive(Debug, Clone, Serialize, Deserialize, PartialEq, Eq, Hash)]
pub struct EntrySpec {
    pub resource: String,
    pub policy: PolicySpec,
    /// fractions (ignored for All)
    pub amount: u64,
}

impl EntrySpec {
    pub fn to_policy(&self) -> AllocationRequest {
        let a = amount_from_fractions(self.amount);
        match self.policy {
            PolicySpec::Compact => AllocationRequest::Compact(a),
            PolicySpec::Tight => AllocationRequest::Tight(a),
            PolicySpec::Scatter => AllocationRequest::Scatter(a),
            PolicySpec::ForceCompact => AllocationRequest::ForceCompact(a),
            PolicySpec::ForceTight => AllocationRequest::ForceTight(a),
            PolicySpec::All => AllocationRequest::All,
        }
    }
}

#[derive(Debug, Clone, Serialize, Deserialize, PartialEq, Eq, Hash)]
pub struct VariantSpec {
    pub n_nodes: u32,
    pub entries: Vec<EntrySpec>,
    /// seconds
    pub min_time: u64,
}

#[derive(Debug, Clone, Serialize, Deserialize, PartialEq, Eq, Hash)]
pub struct RqSpec {
    pub variants: Vec<VariantSpec>,
}

impl RqSpec {
    pub fn cpus(n: u32) -> Self {
        RqSpec {
            variants: vec![VariantSpec {
                n_nodes: 0,
                entries: vec![EntrySpec {
                    resource: "cpus".into(),
                    policy: PolicySpec::Compact,
                    amount: n as u64 * 10_000,
                }],
                min_time: 0,
            }],
        }
    }

    pub fn is_multi_node(&self) -> bool {
        self.variants.iter().any(|v| v.n_nodes > 0)
    }

    pub fn to_gateway(&self) -> ResourceRequestVariants {
        ResourceRequestVariants::new(
            self.variants
                .iter()
                .map(|v| ResourceRequest {
                    n_nodes: v.n_nodes,
                    resources: v
                        .entries
                        .iter()
                        .map(|e| ResourceRequestEntry {
                            resource: e.resource.clone(),
                            policy: e.to_policy(),
                        })
                        .collect(),
                    min_time: Duration::from_secs(v.min_time),
                    weight: Default::default(),
                })
                .collect(),
        )
    }
}

#[derive(Debug, Clone, Copy, Serialize, Deserialize, PartialEq, Eq)]
pub enum CrashSpec {
    Never,
    Max(u16),
    Unlimited,
}

impl CrashSpec {
    pub fn to_limit(&self) -> CrashLimit {
        match self {
            CrashSpec::Never => CrashLimit::NeverRestart,
            CrashSpec::Max(n) => CrashLimit::MaxCrashes(*n),
            CrashSpec::Unlimited => CrashLimit::Unlimited,
        }
    }
}

#[derive(Debug, Clone, Serialize, Deserialize, PartialEq, Eq)]
pub struct TaskProps {
    pub priority: i32,
    /// seconds
    pub time_limit: Option<u64>,
    pub crash_limit: CrashSpec,
}

#[derive(Debug, Clone, Serialize, Deserialize, PartialEq, Eq)]
pub struct GraphTaskSpec {
    pub id: u32,
    pub rq: u32,
    pub deps: Vec<u32>,
    pub props: TaskProps,
}

#[derive(Debug, Clone, Serialize, Deserialize, PartialEq, Eq)]
pub enum SubmitSpec {
    Array {
        /// None => empty id array (server assigns)
        ids: Option<Vec<u32>>,
        /// number of entries (None = no entries)
        entries: Option<u32>,
        rq: RqSpec,
        props: TaskProps,
    },
    Graph {
        rqs: Vec<RqSpec>,
        tasks: Vec<GraphTaskSpec>,
    },
}

impl SubmitSpec {
    pub fn task_count_hint(&self) -> usize {
        match self {
            SubmitSpec::Array { ids, entries, .. } => ids
                .as_ref()
                .map(|i| i.len())
                .or(entries.map(|e| e as usize))
                .unwrap_or(1),
            SubmitSpec::Graph { tasks, .. } => tasks.len(),
        }
    }
}

fn task_description(props: &TaskProps) -> TaskDescription {
    TaskDescription {
        kind: TaskKind::ExternalProgram(TaskKindProgram {
            program: ProgramDefinition {
                args: vec!["sim-task".into()],
                env: Default::default(),
                stdout: StdioDef::Null,
                stderr: StdioDef::Null,
                stdin: Vec::new(),
                cwd: PathBuf::from("/sim/cwd"),
            },
            pin_mode: PinMode::None,
            task_dir: false,
        }),
        time_limit: props.time_limit.map(Duration::from_secs),
        priority: UserPriority::new(props.priority),
        crash_limit: props.crash_limit.to_limit(),
    }
}

pub fn to_submit_request(
    name: &str,
    max_fails: Option<u32>,
    job_id: Option<u32>,
    spec: &SubmitSpec,
) -> SubmitRequest {
    let task_desc = match spec {
        SubmitSpec::Array {
            ids,
            entries,
            rq,
            props,
        } => JobTaskDescription::Array {
            ids: match ids {
                None => IntArray::new_empty(),
                Some(ids) => {
                    let mut v = ids.clone();
                    v.sort();
                    v.dedup();
                    IntArray::from_sorted_ids(v.into_iter())
                }
            },
            entries: entries.map(|n| {
                (0..n)
                    .map(|i| format!("entry{i}").into_bytes().into_iter().collect())
                    .collect()
            }),
            resource_rq: rq.to_gateway(),
            task_desc: task_description(props),
        },
        SubmitSpec::Graph { rqs, tasks } => JobTaskDescription::Graph {
            resource_rqs: rqs.iter().map(|r| r.to_gateway()).collect(),
            tasks: tasks
                .iter()
                .map(|t| TaskWithDependencies {
                    id: JobTaskId::new(t.id),
                    resource_rq_id: LocalResourceRqId::new(t.rq),
                    task_desc: task_description(&t.props),
                    task_deps: t.deps.iter().map(|d| JobTaskId::new(*d)).collect(),
                })
                .collect(),
        },
    };
    SubmitRequest {
        job_desc: JobDescription {
            name: name.to_string(),
            max_fails,
        },
        submit_desc: JobSubmitDescription {
            task_desc,
            submit_dir: PathBuf::from("/sim/submit"),
            stream_path: None,
        },
        job_id: job_id.map(JobId::new),
    }
}

/* ---------------------------------------------------------------------------------------- */
/* Client operations                                                                        */
/* ---------------------------------------------------------------------------------------- */

#[derive(Debug, Clone, Serialize, Deserialize, PartialEq, Eq)]
pub enum SelSpec {
    All,
    LastN(u32),
    Ids(Vec<u32>),
}

#[derive(Debug, Clone, Serialize, Deserialize, PartialEq, Eq)]
pub enum ClientOp {
    Submit {
        name: String,
        max_fails: Option<u32>,
        /// Some = attach to an open job
        job: Option<u32>,
        spec: SubmitSpec,
        /// `hq submit --wait`: Submit(.., Some(StreamEvents{LiveEvents, JOB_EVENTS}))
        wait: bool,
    },
    Open {
        name: String,
        max_fails: Option<u32>,
    },
    Close(SelSpec),
    Cancel(SelSpec),
    Forget(SelSpec),
    JobInfo(SelSpec),
    JobDetail(SelSpec),
    StopWorker(SelSpec),
    WorkerInfo(SelSpec),
    WorkerList,
    Explain {
        job: u32,
        task: u32,
    },
    Prune,
    Flush,
    ServerInfo,
    /// Disconnect (drop the connection); a streaming client ends its stream this way
    Disconnect,
}

/* ---------------------------------------------------------------------------------------- */
/* Task ends, faults, actions                                                               */
/* ---------------------------------------------------------------------------------------- */

#[derive(Debug, Clone, Copy, Serialize, Deserialize, PartialEq, Eq)]
pub enum EndSpec {
    /// program exits with 0
    Finished,
    /// program fails
    Failed,
    /// the task reacts to the stop signal it has received (kill => Canceled / Timeouted)
    ObeyStop,
}

#[derive(Debug, Clone, Copy, Serialize, Deserialize, PartialEq, Eq)]
pub enum LossReasonSpec {
    ConnectionLost,
    HeartbeatLost,
}

#[derive(Debug, Clone, Serialize, Deserialize, PartialEq, Eq)]
pub enum Action {
    /// Deliver the oldest server->worker message of worker `w` (worker processes it)
    ToWorker { w: u32 },
    /// Deliver the oldest worker->server message of worker `w` (server processes it)
    ToServer { w: u32 },
    /// One scheduling round (only if the server asked for scheduling)
    Schedule,
    /// Poll the task-handling future of `task` on worker `w` (it was woken)
    PollTask { w: u32, job: u32, task: u32, instance: u32 },
    /// The program of `task` on `w` ends
    EndTask { w: u32, job: u32, task: u32, instance: u32, end: EndSpec },
    /// Client `c` sends its next request
    ClientSend { c: u32, op: ClientOp },
    /// Poll the connection future of client `c`
    PollClient { c: u32 },
    /// The journal thread takes one message from its queue and processes it
    JournalStep,
    /// Advance simulated time by `ms` milliseconds (timers fire; woken futures become pollable)
    Advance { ms: u64 },
    /// A new worker (index into `RunConfig::workers`) connects
    AddWorker { spec: u32 },
    /// The connection of worker `w` dies; the server will still see the first `keep`
    /// worker->server messages in flight, then notices the loss with `reason`
    KillWorker { w: u32, reason: LossReasonSpec, keep: u32 },
    /// The server notices that the connection of `w` is gone (all kept messages consumed)
    NoticeLoss { w: u32 },
    /// Worker `w` reaches its time limit (it sends Stop(TimeLimitReached) and shuts down)
    WorkerTimeLimit { w: u32 },
    /// The periodic retract check of worker `w` runs (its timer must have fired)
    PollRetractCheck { w: u32 },
    /// The server process dies; the journal keeps `keep_bytes` bytes; a new server restores
    CrashServer { keep_bytes: Option<u64> },
    /// The (stubbed) autoalloc service creates (next free id) or removes (`id`) an allocation
    /// queue and records it through the real event streamer
    QueueEvent { create: bool, id: u32 },
    /// A scheduling pass of the real autoalloc code (`perform_submits`): worker query against
    /// the real core; the batch system of the cluster engine refuses every submission
    AutoallocTick,
}
