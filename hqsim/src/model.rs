//! The reference model M: jobs -> tasks -> states, dependencies, crash counts. It is driven only
//! by accepted client requests and by the observable event log E; it never calls the code under
//! test.

use std::collections::{BTreeMap, BTreeSet};

use hyperqueue::server::event::payload::EventPayload;
use tako::gateway::LostWorkerReason;

use crate::engines::cluster::{TaskKey, tkey};
use crate::spec::*;

#[derive(Debug, Clone, PartialEq, Eq)]
pub enum MState {
    Waiting,
    Running { instance: u32, workers: Vec<u32> },
    Finished,
    Failed,
    Canceled,
    Aborted,
}

impl MState {
    pub fn is_terminal(&self) -> bool {
        !matches!(self, MState::Waiting | MState::Running { .. })
    }
    pub fn kind(&self) -> &'static str {
        match self {
            MState::Waiting => "waiting",
            MState::Running { .. } => "running",
            MState::Finished => "finished",
            MState::Failed => "failed",
            MState::Canceled => "canceled",
            MState::Aborted => "aborted",
        }
    }
}

#[derive(Debug, Clone)]
pub struct MTask {
    pub deps: Vec<u32>,
    pub props: TaskProps,
    pub rq: RqSpec,
    pub state: MState,
    pub crash_count: u32,
    pub started_instances: Vec<u32>,
    pub submit_step: u64,
    /// a dependency of this task was already failed/canceled/aborted when it was submitted
    pub dead_dep_at_submit: bool,
    /// error text of TaskFailed
    pub error: Option<String>,
    pub terminal_step: Option<u64>,
    /// the task was started at least once in this or an earlier server incarnation
    pub ever_started: bool,
    /// a start was reported since the task was (re-)queued the last time
    pub started_since_waiting: bool,
}

impl MTask {
    /// Was a start reported for the task since it last became waiting?
    pub fn ever_started_current_instance(&self) -> bool {
        self.started_since_waiting
    }
}

#[derive(Debug, Clone)]
pub struct MJob {
    pub id: u32,
    pub open: bool,
    pub max_fails: Option<u32>,
    pub tasks: BTreeMap<u32, MTask>,
    pub completed_events: u32,
    pub n_failed: u32,
    pub submits: u32,
    /// step at which the failure limit was exceeded
    pub limit_exceeded_step: Option<u64>,
}

impl MJob {
    pub fn all_terminal(&self) -> bool {
        self.tasks.values().all(|t| t.state.is_terminal())
    }
    pub fn non_terminal(&self) -> Vec<u32> {
        self.tasks
            .iter()
            .filter(|(_, t)| !t.state.is_terminal())
            .map(|(id, _)| *id)
            .collect()
    }
    pub fn limit_exceeded(&self) -> bool {
        self.max_fails.is_some_and(|m| self.n_failed > m)
    }
    /// Is some (transitive) dependency of `task` failed, canceled or aborted?
    pub fn has_dead_ancestor(&self, task: u32) -> bool {
        let mut seen = BTreeSet::new();
        let mut stack = vec![task];
        while let Some(t) = stack.pop() {
            let Some(mt) = self.tasks.get(&t) else { continue };
            for d in &mt.deps {
                if seen.insert(*d) {
                    if let Some(dt) = self.tasks.get(d)
                        && matches!(
                            dt.state,
                            MState::Failed | MState::Canceled | MState::Aborted
                        )
                    {
                        return true;
                    }
                    stack.push(*d);
                }
            }
        }
        false
    }
    /// All transitive dependents of `task`
    pub fn dependents(&self, task: u32) -> BTreeSet<u32> {
        let mut out = BTreeSet::new();
        let mut changed = true;
        while changed {
            changed = false;
            for (id, t) in &self.tasks {
                if out.contains(id) {
                    continue;
                }
                if t.deps.iter().any(|d| *d == task || out.contains(d)) {
                    out.insert(*id);
                    changed = true;
                }
            }
        }
        out
    }
}

/// What the model expects from a submit request
#[derive(Debug, Clone, PartialEq, Eq)]
pub enum SubmitExpectation {
    Reject(&'static str),
    /// (existing job or None for a new one, task ids with deps)
    Accept {
        job: Option<u32>,
        tasks: Vec<(u32, Vec<u32>, TaskProps, RqSpec)>,
    },
}

#[derive(Debug, Clone, serde::Serialize)]
pub struct Finding {
    pub property: &'static str,
    pub oracle: &'static str,
    /// oracle-specific key that, together with property and oracle, forms the signature
    pub key: String,
    pub message: String,
    pub step: u64,
}

impl Finding {
    pub fn signature(&self) -> String {
        format!("{}@{}", self.oracle, self.key)
    }
}

#[derive(Debug, Clone, Default)]
pub struct Model {
    pub jobs: BTreeMap<u32, MJob>,
    pub forgotten: BTreeSet<u32>,
    /// every job id ever observed (including forgotten ones and ones from before a crash)
    pub job_ids_seen: BTreeSet<u32>,
    pub worker_ids_seen: BTreeSet<u32>,
    pub queue_ids_seen: BTreeSet<u32>,
    pub connected_workers: BTreeSet<u32>,
    /// Workers lost in the current step with the reason, and the tasks that were running there
    pub lost_this_step: Vec<(u32, LostWorkerReason, Vec<(TaskKey, u32)>)>,
    pub server_uids: Vec<String>,
}

pub fn reason_is_failure(r: LostWorkerReason) -> bool {
    // written from the statement: "lost due to a failure (not a stop, idle timeout or time limit)"
    matches!(
        r,
        LostWorkerReason::ConnectionLost | LostWorkerReason::HeartbeatLost
    )
}

impl Model {
    pub fn task(&self, k: TaskKey) -> Option<&MTask> {
        self.jobs.get(&k.0).and_then(|j| j.tasks.get(&k.1))
    }

    pub fn task_mut(&mut self, k: TaskKey) -> Option<&mut MTask> {
        self.jobs.get_mut(&k.0).and_then(|j| j.tasks.get_mut(&k.1))
    }

    pub fn non_terminal_tasks(&self) -> BTreeSet<TaskKey> {
        let mut out = BTreeSet::new();
        for (jid, j) in &self.jobs {
            for (tid, t) in &j.tasks {
                if !t.state.is_terminal() {
                    out.insert((*jid, *tid));
                }
            }
        }
        out
    }

    /// Decide from the statement what a submit must do.
    pub fn expect_submit(&self, job: Option<u32>, spec: &SubmitSpec) -> SubmitExpectation {
        let existing: Option<&MJob> = match job {
            Some(j) => match self.jobs.get(&j) {
                Some(mj) => Some(mj),
                None => return SubmitExpectation::Reject("unknown job"),
            },
            None => None,
        };
        if let Some(mj) = existing
            && !mj.open
        {
            return SubmitExpectation::Reject("closed job");
        }
        let existing_ids: BTreeSet<u32> = existing
            .map(|j| j.tasks.keys().copied().collect())
            .unwrap_or_default();
        let mut tasks = Vec::new();
        match spec {
            SubmitSpec::Array {
                ids,
                entries,
                rq,
                props,
            } => {
                let ids: Vec<u32> = match ids {
                    Some(ids) => {
                        let mut v = ids.clone();
                        v.sort();
                        v.dedup();
                        v
                    }
                    None => {
                        let n = entries.unwrap_or(1);
                        let start = existing_ids.iter().max().map(|m| m + 1).unwrap_or(0);
                        (start..start + n).collect()
                    }
                };
                for id in &ids {
                    if existing_ids.contains(id) {
                        return SubmitExpectation::Reject("duplicate id");
                    }
                }
                for id in ids {
                    tasks.push((id, Vec::new(), props.clone(), rq.clone()));
                }
            }
            SubmitSpec::Graph { rqs, tasks: ts } => {
                let mut seen = BTreeSet::new();
                for t in ts {
                    if existing_ids.contains(&t.id) || !seen.insert(t.id) {
                        return SubmitExpectation::Reject("duplicate id");
                    }
                }
                // a dependency is a task of the job or a task listed earlier in this submit
                // (documented: the submit is rejected otherwise; the scheduler takes the tasks
                // in the listed order)
                let mut listed: BTreeSet<u32> = BTreeSet::new();
                for t in ts {
                    listed.insert(t.id);
                    for d in &t.deps {
                        if *d == t.id || (!listed.contains(d) && !existing_ids.contains(d)) {
                            return SubmitExpectation::Reject("invalid dependency");
                        }
                    }
                }
                for t in ts {
                    tasks.push((
                        t.id,
                        t.deps.clone(),
                        t.props.clone(),
                        rqs[t.rq as usize].clone(),
                    ));
                }
            }
        }
        SubmitExpectation::Accept { job, tasks }
    }

    pub fn apply_submit(
        &mut self,
        job_id: u32,
        name_open: Option<bool>,
        max_fails: Option<u32>,
        tasks: &[(u32, Vec<u32>, TaskProps, RqSpec)],
        step: u64,
    ) {
        self.job_ids_seen.insert(job_id);
        let job = self.jobs.entry(job_id).or_insert_with(|| MJob {
            id: job_id,
            open: name_open.unwrap_or(false),
            max_fails,
            tasks: BTreeMap::new(),
            completed_events: 0,
            n_failed: 0,
            submits: 0,
            limit_exceeded_step: None,
        });
        job.submits += 1;
        for (id, deps, props, rq) in tasks {
            let dead_dep = deps.iter().any(|d| {
                job.tasks.get(d).is_some_and(|t| {
                    matches!(t.state, MState::Failed | MState::Canceled | MState::Aborted)
                })
            });
            job.tasks.insert(
                *id,
                MTask {
                    deps: deps.clone(),
                    props: props.clone(),
                    rq: rq.clone(),
                    state: MState::Waiting,
                    crash_count: 0,
                    started_instances: Vec::new(),
                    submit_step: step,
                    dead_dep_at_submit: dead_dep,
                    error: None,
                    terminal_step: None,
                    ever_started: false,
                    started_since_waiting: false,
                },
            );
        }
    }

    /// Feed one event of E. Returns findings of the per-task automaton (C01), job completion
    /// (C13), instance ids (C06).
    pub fn on_event(&mut self, payload: &EventPayload, step: u64, out: &mut Vec<Finding>) {
        let mut bad = |property: &'static str, oracle: &'static str, key: String, message: String| {
            out.push(Finding {
                property,
                oracle,
                key,
                message,
                step,
            })
        };
        match payload {
            EventPayload::WorkerConnected(w, _) => {
                let w = w.as_num();
                if !self.worker_ids_seen.insert(w) {
                    bad(
                        "C11",
                        "worker-id-reused",
                        "connect".into(),
                        format!("worker id {w} issued twice"),
                    );
                }
                self.connected_workers.insert(w);
            }
            EventPayload::WorkerLost(w, reason) => {
                let w = w.as_num();
                self.connected_workers.remove(&w);
                let mut running = Vec::new();
                for (jid, j) in self.jobs.iter_mut() {
                    for (tid, t) in j.tasks.iter_mut() {
                        if let MState::Running { instance, workers } = &mut t.state {
                            if workers.first() == Some(&w) {
                                running.push(((*jid, *tid), *instance));
                                t.state = MState::Waiting;
                                t.started_since_waiting = false;
                                if reason_is_failure(*reason) {
                                    t.crash_count += 1;
                                }
                            } else {
                                // a non-root node of a multi-node task: it keeps running
                                workers.retain(|x| *x != w);
                            }
                        }
                    }
                }
                self.lost_this_step.push((w, *reason, running));
            }
            EventPayload::WorkerOverviewReceived(_) => {}
            EventPayload::Submit { .. } => { /* handled by the driver (needs the request) */ }
            EventPayload::JobOpen(job_id, desc) => {
                let id = job_id.as_num();
                if !self.job_ids_seen.insert(id) {
                    bad(
                        "C11",
                        "job-id-reused",
                        "open".into(),
                        format!("job id {id} issued twice"),
                    );
                }
                self.jobs.insert(
                    id,
                    MJob {
                        id,
                        open: true,
                        max_fails: desc.max_fails,
                        tasks: BTreeMap::new(),
                        completed_events: 0,
                        n_failed: 0,
                        submits: 0,
                        limit_exceeded_step: None,
                    },
                );
            }
            EventPayload::JobClose(job_id) => {
                if let Some(j) = self.jobs.get_mut(&job_id.as_num()) {
                    j.open = false;
                }
            }
            EventPayload::JobCompleted(job_id) => {
                let id = job_id.as_num();
                match self.jobs.get_mut(&id) {
                    None => bad(
                        "C13",
                        "completed-unknown-job",
                        "".into(),
                        format!("JobCompleted for unknown job {id}"),
                    ),
                    Some(j) => {
                        j.completed_events += 1;
                        if j.completed_events > 1 {
                            bad(
                                "C13",
                                "completed-twice",
                                "".into(),
                                format!("job {id} reported completed {} times", j.completed_events),
                            );
                        }
                        if j.open || !j.all_terminal() {
                            bad(
                                "C13",
                                "completed-early",
                                format!("open={}", j.open),
                                format!(
                                    "job {id} reported completed while open={} non-terminal={:?}",
                                    j.open,
                                    j.non_terminal()
                                ),
                            );
                        }
                    }
                }
            }
            EventPayload::JobIdle(_) => {}
            EventPayload::JobCancel { job_id, .. } => {
                // "repeating the cancel changes nothing": a cancel that finds nothing to cancel
                // is not announced
                if let Some(job) = self.jobs.get(&job_id.as_num())
                    && !job.tasks.is_empty()
                    && job.all_terminal()
                {
                    bad(
                        "C08",
                        "repeated-cancel-has-effect",
                        "job-cancel-announced".into(),
                        format!(
                            "JobCancel announced for job {} although none of its tasks can be canceled any more",
                            job_id.as_num()
                        ),
                    );
                }
            }
            EventPayload::TaskStarted {
                task_id,
                instance_id,
                worker_ids,
                ..
            } => {
                let k = tkey(*task_id);
                let inst = instance_id.as_num();
                let ws: Vec<u32> = worker_ids.iter().map(|w| w.as_num()).collect();
                match self.task_mut(k) {
                    None => bad(
                        "C01",
                        "event-for-unknown-task",
                        "started".into(),
                        format!("TaskStarted for unknown task {k:?}"),
                    ),
                    Some(t) => {
                        match &t.state {
                            MState::Waiting => {}
                            MState::Running { .. } => bad(
                                "C01",
                                "double-start",
                                "".into(),
                                format!("TaskStarted for {k:?} which is already running"),
                            ),
                            s => bad(
                                "C01",
                                "event-after-terminal",
                                format!("started-after-{}", s.kind()),
                                format!("TaskStarted for {k:?} after it was {}", s.kind()),
                            ),
                        }
                        if let Some(max) = t.started_instances.iter().max()
                            && inst <= *max
                        {
                            bad(
                                "C06",
                                "instance-not-increasing",
                                "event".into(),
                                format!(
                                    "task {k:?} started with instance {inst}, earlier instances {:?}",
                                    t.started_instances
                                ),
                            );
                        }
                        if !t.state.is_terminal() {
                            t.state = MState::Running {
                                instance: inst,
                                workers: ws,
                            };
                        }
                        t.started_instances.push(inst);
                        t.ever_started = true;
                        t.started_since_waiting = true;
                    }
                }
            }
            EventPayload::TaskFinished { task_id } => {
                let k = tkey(*task_id);
                match self.task_mut(k) {
                    None => bad(
                        "C01",
                        "event-for-unknown-task",
                        "finished".into(),
                        format!("TaskFinished for unknown task {k:?}"),
                    ),
                    Some(t) => match &t.state {
                        MState::Running { .. } => {
                            t.state = MState::Finished;
                            t.terminal_step = Some(step);
                        }
                        MState::Waiting => {
                            bad(
                                "C01",
                                "finish-without-start",
                                "".into(),
                                format!("TaskFinished for {k:?} which is not running"),
                            );
                            t.state = MState::Finished;
                            t.terminal_step = Some(step);
                        }
                        s => bad(
                            "C01",
                            "event-after-terminal",
                            format!("finished-after-{}", s.kind()),
                            format!("TaskFinished for {k:?} after it was {}", s.kind()),
                        ),
                    },
                }
                self.check_limit(k.0, step);
            }
            EventPayload::TaskFailed { task_id, error } => {
                let k = tkey(*task_id);
                match self.task_mut(k) {
                    None => bad(
                        "C01",
                        "event-for-unknown-task",
                        "failed".into(),
                        format!("TaskFailed for unknown task {k:?}"),
                    ),
                    Some(t) => match &t.state {
                        MState::Running { .. } | MState::Waiting => {
                            t.state = MState::Failed;
                            t.error = Some(error.clone());
                            t.terminal_step = Some(step);
                            if let Some(j) = self.jobs.get_mut(&k.0) {
                                j.n_failed += 1;
                            }
                        }
                        s => bad(
                            "C01",
                            "event-after-terminal",
                            format!("failed-after-{}", s.kind()),
                            format!("TaskFailed for {k:?} after it was {}", s.kind()),
                        ),
                    },
                }
                self.check_limit(k.0, step);
            }
            EventPayload::TasksCanceled { task_ids } | EventPayload::TasksAborted { task_ids } => {
                let canceled = matches!(payload, EventPayload::TasksCanceled { .. });
                for task_id in task_ids {
                    let k = tkey(*task_id);
                    match self.task_mut(k) {
                        None => bad(
                            "C01",
                            "event-for-unknown-task",
                            if canceled { "canceled" } else { "aborted" }.into(),
                            format!("cancel/abort record for unknown task {k:?}"),
                        ),
                        Some(t) => match &t.state {
                            MState::Running { .. } | MState::Waiting => {
                                t.state = if canceled {
                                    MState::Canceled
                                } else {
                                    MState::Aborted
                                };
                                t.terminal_step = Some(step);
                            }
                            s => bad(
                                "C01",
                                "event-after-terminal",
                                format!(
                                    "{}-after-{}",
                                    if canceled { "canceled" } else { "aborted" },
                                    s.kind()
                                ),
                                format!(
                                    "{} record for {k:?} after it was {}",
                                    if canceled { "cancel" } else { "abort" },
                                    s.kind()
                                ),
                            ),
                        },
                    }
                }
            }
            EventPayload::AllocationQueueCreated(id, _) => {
                if !self.queue_ids_seen.insert(*id) {
                    bad(
                        "C11",
                        "queue-id-reused",
                        "".into(),
                        format!("allocation queue id {id} issued twice"),
                    );
                }
            }
            EventPayload::AllocationQueueRemoved(..)
            | EventPayload::AllocationQueued { .. }
            | EventPayload::AllocationStarted(..)
            | EventPayload::AllocationFinished(..) => {}
            EventPayload::ServerStart { server_uid } => {
                self.server_uids.push(server_uid.clone());
            }
            EventPayload::ServerStop | EventPayload::TaskNotify(_) => {}
        }
    }

    fn check_limit(&mut self, job: u32, step: u64) {
        if let Some(j) = self.jobs.get_mut(&job)
            && j.limit_exceeded()
            && j.limit_exceeded_step.is_none()
        {
            j.limit_exceeded_step = Some(step);
        }
    }
}
