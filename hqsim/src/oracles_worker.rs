//! C04: worker resources are exclusive and conserved. Works on the plain snapshot of a real
//! `WorkerState` (running tasks with their allocations, pools, concise mirror).

use std::collections::BTreeMap;

use tako::resources::ResourceRequestVariants;
use tako::verif::{PoolKind, WorkerStateSnapshot};

use crate::model::Finding;
use crate::spec::*;

const UNIT: u64 = 10_000;

fn fnd(out: &mut Vec<Finding>, oracle: &'static str, key: &str, message: String, step: u64) {
    out.push(Finding {
        property: "C04",
        oracle,
        key: key.to_string(),
        message,
        step,
    });
}

/// (group index, label) of every index of a resource, by index number
fn index_groups(kind: &ResKindSpec) -> Vec<u32> {
    match kind {
        ResKindSpec::Range(n) => vec![0; *n as usize],
        ResKindSpec::List(v) => vec![0; v.len()],
        ResKindSpec::Groups(sizes) => {
            if sizes.len() == 1 {
                return vec![0; sizes[0] as usize];
            }
            let mut out = Vec::new();
            for (g, s) in sizes.iter().enumerate() {
                for _ in 0..*s {
                    out.push(g as u32);
                }
            }
            out
        }
        ResKindSpec::Sum(_) => Vec::new(),
    }
}

pub fn check_worker_resources(
    worker: u32,
    spec: &WorkerSpec,
    snap: &WorkerStateSnapshot,
    resource_names: &[String],
    step: u64,
    out: &mut Vec<Finding>,
) {
    check_worker_resources_rq(worker, spec, snap, resource_names, None, step, out)
}

pub fn check_worker_resources_rq(
    worker: u32,
    spec: &WorkerSpec,
    snap: &WorkerStateSnapshot,
    resource_names: &[String],
    requests: Option<&[ResourceRequestVariants]>,
    step: u64,
    out: &mut Vec<Finding>,
) {
    // held[resource][index] = fractions held; held_sum[resource] = total amount held
    let mut held: BTreeMap<u32, BTreeMap<u32, u64>> = BTreeMap::new();
    let mut held_amount: BTreeMap<u32, u64> = BTreeMap::new();
    for rt in &snap.running {
        for (rid, amount, indices) in &rt.allocation {
            *held_amount.entry(*rid).or_default() += *amount;
            let name = resource_names
                .get(*rid as usize)
                .cloned()
                .unwrap_or_default();
            let kind = spec.resources.iter().find(|(n, _)| *n == name).map(|x| &x.1);
            let Some(kind) = kind else {
                fnd(
                    out,
                    "allocation-of-unknown-resource",
                    "",
                    format!("worker {worker}: task {} holds resource {name} the worker does not have", rt.task_id),
                    step,
                );
                continue;
            };
            let groups = index_groups(kind);
            // shape of the allocation: whole indices + at most one fractional index
            if !matches!(kind, ResKindSpec::Sum(_)) {
                let whole = indices.iter().filter(|i| i.2 == 0).count() as u64;
                let fractional: Vec<&(u32, u32, u32)> = indices.iter().filter(|i| i.2 != 0).collect();
                if fractional.len() > 1 {
                    fnd(
                        out,
                        "fraction-from-several-indices",
                        "",
                        format!("worker {worker}: task {} holds fractions of several indices of {name}: {indices:?}", rt.task_id),
                        step,
                    );
                }
                let frac_sum: u64 = fractional.iter().map(|i| i.2 as u64).sum();
                if whole * UNIT + frac_sum != *amount {
                    fnd(
                        out,
                        "allocation-amount-differs-from-indices",
                        "",
                        format!("worker {worker}: task {} holds amount {amount} of {name} but indices {indices:?}", rt.task_id),
                        step,
                    );
                }
                if *amount % UNIT != frac_sum % UNIT {
                    fnd(
                        out,
                        "fraction-differs-from-request",
                        "",
                        format!("worker {worker}: task {} amount {amount} of {name}, fractional index {fractional:?}", rt.task_id),
                        step,
                    );
                }
            } else if !indices.is_empty() {
                fnd(
                    out,
                    "sum-resource-with-indices",
                    "",
                    format!("worker {worker}: task {} holds indices {indices:?} of sum resource {name}", rt.task_id),
                    step,
                );
            }
            for (index, group, fractions) in indices {
                match groups.get(*index as usize) {
                    None => fnd(
                        out,
                        "index-outside-descriptor",
                        "",
                        format!("worker {worker}: task {} holds index {index} of {name} which the worker does not have", rt.task_id),
                        step,
                    ),
                    Some(g) => {
                        if g != group {
                            fnd(
                                out,
                                "index-in-wrong-group",
                                "",
                                format!("worker {worker}: task {} holds index {index} of {name} labelled group {group}, the descriptor says {g}", rt.task_id),
                                step,
                            );
                        }
                    }
                }
                let f = if *fractions == 0 { UNIT } else { *fractions as u64 };
                *held.entry(*rid).or_default().entry(*index).or_default() += f;
            }
        }
        // the amount equals the request
        if let Some(requests) = requests
            && let Some(rqv) = requests.get(rt.resource_rq_id.as_num() as usize)
            && let Some(rq) = rqv.requests().get(rt.rv_id.as_num() as usize)
        {
            for e in rq.entries() {
                let rid = e.resource_id.as_num();
                let name = resource_names.get(rid as usize).cloned().unwrap_or_default();
                let got = rt
                    .allocation
                    .iter()
                    .find(|a| a.0 == rid)
                    .map(|a| a.1)
                    .unwrap_or(0);
                let want = match e.request.amount_or_none_if_all() {
                    Some(a) => a.total_fractions(),
                    None => spec.total(&name),
                };
                if got != want {
                    fnd(
                        out,
                        "held-amount-differs-from-request",
                        "",
                        format!("worker {worker}: task {} requested {want} of {name} and holds {got}", rt.task_id),
                        step,
                    );
                }
            }
            for a in &rt.allocation {
                if !rq.entries().iter().any(|e| e.resource_id.as_num() == a.0) {
                    fnd(
                        out,
                        "holds-unrequested-resource",
                        "",
                        format!("worker {worker}: task {} holds resource {} it did not request", rt.task_id, a.0),
                        step,
                    );
                }
            }
        }
    }
    // exclusivity
    for (rid, per_index) in &held {
        for (index, f) in per_index {
            if *f > UNIT {
                fnd(
                    out,
                    "index-held-beyond-100-percent",
                    "",
                    format!("worker {worker}: index {index} of resource {rid} is held to {f}/10000 by running tasks {:?}",
                        snap.running.iter().map(|r| r.task_id).collect::<Vec<_>>()),
                    step,
                );
            }
        }
    }
    // conservation against the pools, and pools == concise mirror
    for (rid, pool) in snap.allocator.pools.iter().enumerate() {
        let rid = rid as u32;
        let held_total = held_amount.get(&rid).copied().unwrap_or(0);
        match pool.kind {
            PoolKind::Empty => {
                if held_total > 0 {
                    fnd(out, "holds-from-empty-pool", "", format!("worker {worker}: {held_total} held from empty pool {rid}"), step);
                }
            }
            PoolKind::Sum => {
                let free = pool.sum_free.unwrap_or(0);
                if held_total > pool.full_size {
                    fnd(
                        out,
                        "sum-resource-overcommitted",
                        "",
                        format!("worker {worker}: running tasks hold {held_total} of sum resource {rid} of size {}", pool.full_size),
                        step,
                    );
                }
                if free + held_total != pool.full_size {
                    fnd(
                        out,
                        "not-conserved",
                        "sum",
                        format!("worker {worker}: sum resource {rid}: free {free} + held {held_total} != size {}", pool.full_size),
                        step,
                    );
                }
            }
            PoolKind::Indices | PoolKind::Groups => {
                let mut free_total = 0u64;
                let empty = BTreeMap::new();
                let per_index = held.get(&rid).unwrap_or(&empty);
                for g in &pool.groups {
                    for i in &g.free_indices {
                        free_total += UNIT;
                        if per_index.contains_key(i) {
                            fnd(
                                out,
                                "free-index-is-held",
                                "",
                                format!("worker {worker}: index {i} of resource {rid} is free in the pool and held by a running task"),
                                step,
                            );
                        }
                    }
                    for (i, f) in &g.fractions {
                        free_total += *f as u64;
                        let h = per_index.get(i).copied().unwrap_or(0);
                        if h + *f as u64 != UNIT {
                            fnd(
                                out,
                                "not-conserved",
                                "index",
                                format!("worker {worker}: index {i} of resource {rid}: free fraction {f} + held {h} != 10000"),
                                step,
                            );
                        }
                    }
                }
                if free_total + held_total != pool.full_size {
                    fnd(
                        out,
                        "not-conserved",
                        "pool",
                        format!("worker {worker}: resource {rid}: free {free_total} + held {held_total} != size {}", pool.full_size),
                        step,
                    );
                }
            }
        }
        // the concise mirror used by admission tests equals the pools
        if let Some(c) = snap.allocator.concise.get(rid as usize) {
            let from_pool: Vec<(u32, Vec<(u32, u32)>)> = match pool.kind {
                PoolKind::Empty => Vec::new(),
                PoolKind::Sum => {
                    let free = pool.sum_free.unwrap_or(0);
                    let frac = (free % UNIT) as u32;
                    vec![((free / UNIT) as u32, if frac > 0 { vec![(0, frac)] } else { vec![] })]
                }
                _ => pool
                    .groups
                    .iter()
                    .map(|g| {
                        (
                            g.free_indices.len() as u32,
                            g.fractions.iter().copied().filter(|x| x.1 > 0).collect(),
                        )
                    })
                    .collect(),
            };
            let mirror: Vec<(u32, Vec<(u32, u32)>)> = c
                .groups
                .iter()
                .map(|(u, f)| (*u, f.iter().copied().filter(|x| x.1 > 0).collect()))
                .collect();
            if from_pool != mirror {
                fnd(
                    out,
                    "admission-view-differs-from-pools",
                    "",
                    format!("worker {worker}: resource {rid}: pools say {from_pool:?}, the admission test sees {mirror:?}"),
                    step,
                );
            }
        }
    }
}
