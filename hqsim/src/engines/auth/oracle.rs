//! Oracles of C20, written from the property statement:
//!
//!  "An endpoint accepts a connection only if its peer proved, for this very connection, that it
//!   holds the same secret key, speaks the same protocol version and has the complementary role.
//!   With matching configuration and an undisturbed exchange both ends accept; with any mismatch
//!   (different keys, key on one side only, wrong role, wrong protocol) both ends refuse, and
//!   replayed, reflected or modified handshake messages never make an endpoint accept."
//!
//! The reference model is the configuration table and the provenance of every frame an endpoint
//! was given; the code under test is never asked what it would do.

use super::wire::{MMode, MResponse, de_request, de_response};
use super::world::{EndpointCfg, FrameRef, Outcome, Scenario, TIMEOUT_MS, WorldResult};

#[derive(Debug, Clone, PartialEq, Eq)]
pub struct Finding {
    pub oracle: String,
    pub key: String,
    pub message: String,
}

impl Finding {
    pub fn signature(&self) -> String {
        format!("{}@{}", self.oracle, self.key)
    }
}

pub fn compatible(a: &EndpointCfg, b: &EndpointCfg) -> bool {
    a.key == b.key
        && a.protocol == b.protocol
        && a.my_role == b.peer_role
        && b.my_role == a.peer_role
}

/// The mismatches of a pair, in the vocabulary of the statement
pub fn mismatches(a: &EndpointCfg, b: &EndpointCfg) -> Vec<&'static str> {
    let mut v = Vec::new();
    if a.key != b.key {
        v.push(if a.key == 0 || b.key == 0 {
            "key-one-sided"
        } else {
            "keys-differ"
        });
    }
    if a.protocol != b.protocol {
        v.push("protocol");
    }
    if a.my_role != b.peer_role || b.my_role != a.peer_role {
        v.push("role");
    }
    v
}

/// keys {both-none, equal, differ, one-sided} x protocol {equal, differ} x roles {complementary,
/// one expectation unmet, both unmet}
pub fn config_class(a: &EndpointCfg, b: &EndpointCfg) -> usize {
    let k = if a.key == b.key {
        if a.key == 0 { 0 } else { 1 }
    } else if a.key == 0 || b.key == 0 {
        3
    } else {
        2
    };
    let p = (a.protocol != b.protocol) as usize;
    let r = (a.my_role != b.peer_role) as usize + (b.my_role != a.peer_role) as usize;
    (k * 2 + p) * 3 + r
}

pub const N_CONFIG_CLASSES: usize = 24;

pub fn config_class_name(c: usize) -> String {
    let k = ["no-keys", "same-key", "different-keys", "key-on-one-side"][c / 6];
    let p = ["same-protocol", "different-protocol"][(c / 3) % 2];
    let r = ["roles-complementary", "one-role-expectation-unmet", "both-role-expectations-unmet"]
        [c % 3];
    format!("{k}/{p}/{r}")
}

/// Does the decision for (e, p) hand over the unmodified fresh frame (q, p)?
fn routes_unmodified(sc: &Scenario, e: usize, p: usize, q: usize) -> bool {
    use super::world::Decision;
    match &sc.decisions[e][p] {
        d if d.is_passive() => sc.endpoints[e].peer == Some(q),
        Decision::Subst { from } => *from == FrameRef { ep: q, kind: p },
        _ => false,
    }
}

/// Two honest endpoints whose four messages are relayed untouched and in time
pub fn undisturbed_pair(sc: &Scenario, res: &WorldResult, x: usize, y: usize) -> bool {
    (0..2).all(|p| routes_unmodified(sc, x, p, y) && routes_unmodified(sc, y, p, x))
        && res.eps[x].finished_at_ms < TIMEOUT_MS
        && res.eps[y].finished_at_ms < TIMEOUT_MS
}

fn cfg_str(c: &EndpointCfg) -> String {
    format!(
        "(key={}, {}->{}, protocol {})",
        ["none", "K1", "K2"][c.key.min(2) as usize],
        c.my_role,
        c.peer_role,
        c.protocol
    )
}

pub fn judge(sc: &Scenario, res: &WorldResult) -> Vec<Finding> {
    let mut out = Vec::new();
    let n = sc.endpoints.len();

    // every endpoint decides; panics are findings of their own
    for (e, r) in res.eps.iter().enumerate() {
        match &r.outcome {
            Outcome::Panic(p) if !p.in_harness() => out.push(Finding {
                oracle: "panic".into(),
                key: p.location(),
                message: format!("E{e} {}: panic in the handshake: {}", cfg_str(&sc.endpoints[e]), p.message),
            }),
            Outcome::Hang => out.push(Finding {
                oracle: "no-decision".into(),
                key: String::new(),
                message: format!(
                    "E{e} {} neither accepted nor refused although {} ms passed without input",
                    cfg_str(&sc.endpoints[e]),
                    res.sim_ms
                ),
            }),
            _ => {}
        }
    }

    // undisturbed exchange: accept iff the configurations match, on both ends
    for x in 0..n {
        for y in x + 1..n {
            if !undisturbed_pair(sc, res, x, y) {
                continue;
            }
            let (cx, cy) = (&sc.endpoints[x], &sc.endpoints[y]);
            let (ox, oy) = (&res.eps[x].outcome, &res.eps[y].outcome);
            if matches!(ox, Outcome::Panic(_) | Outcome::Hang)
                || matches!(oy, Outcome::Panic(_) | Outcome::Hang)
            {
                continue;
            }
            if compatible(cx, cy) {
                for (e, o) in [(x, ox), (y, oy)] {
                    if !o.accepted() {
                        out.push(Finding {
                            oracle: "undisturbed-refused".into(),
                            key: o.short(),
                            message: format!(
                                "E{x} {} and E{y} {} match and their exchange was relayed untouched, but E{e} ended with {}",
                                cfg_str(cx), cfg_str(cy), o.short()
                            ),
                        });
                    }
                }
            } else {
                for (e, o) in [(x, ox), (y, oy)] {
                    if o.accepted() {
                        out.push(Finding {
                            oracle: "accept-on-mismatch".into(),
                            key: mismatches(cx, cy).join("+"),
                            message: format!(
                                "E{x} {} and E{y} {} do not match ({}), the exchange was relayed untouched, but E{e} accepted",
                                cfg_str(cx), cfg_str(cy), mismatches(cx, cy).join(", ")
                            ),
                        });
                    }
                }
            }
        }
    }

    // an accepting endpoint must have been given proof
    for e in 0..n {
        if !res.eps[e].outcome.accepted() {
            continue;
        }
        let ce = &sc.endpoints[e];
        let who = format!("E{e} {}", cfg_str(ce));
        let req = res.eps[e].injected[0].as_ref();
        let resp = res.eps[e].injected[1].as_ref();

        // what the peer claimed in the request the endpoint was given
        let claim = req.filter(|i| i.framed).and_then(|i| de_request(&i.bytes));
        let bad_claim = match &claim {
            None => Some("undecodable"),
            Some(r) if r.protocol != ce.protocol => Some("protocol"),
            Some(r) if r.role != ce.peer_role => Some("role"),
            Some(r) => match (&r.mode, ce.key != 0) {
                (MMode::NoAuth, true) | (MMode::Encryption(_), false) => Some("mode"),
                _ => None,
            },
        };
        if let Some(k) = bad_claim {
            out.push(Finding {
                oracle: "accept-despite-claim".into(),
                key: k.into(),
                message: format!(
                    "{who} accepted although the request it was given ({}: {}) does not claim its protocol, the expected role and its key mode (wrong: {k})",
                    req.map(|i| i.detail.as_str()).unwrap_or("nothing"),
                    req.filter(|i| i.framed)
                        .map(|i| super::wire::describe_request(&i.bytes))
                        .unwrap_or_default()
                ),
            });
        }
        let resp_msg = resp.filter(|i| i.framed).and_then(|i| de_response(&i.bytes));
        if matches!(resp_msg, Some(MResponse::Error(_))) {
            out.push(Finding {
                oracle: "accept-on-error-response".into(),
                key: String::new(),
                message: format!("{who} accepted although the response it was given is the refusal message"),
            });
        }

        if ce.key == 0 {
            // no secret: nothing can be proved, anybody on the wire can play the peer. Only the
            // claims above and the undisturbed rule apply.
            continue;
        }
        let reason: Option<(String, String)> = (|| {
            let Some(r) = resp.filter(|i| i.framed) else {
                return Some(("no-response".to_string(), "no response frame was handed over".to_string()));
            };
            let Some(src) = r.source else {
                return Some(("forged-response".into(), format!("the response was written by the adversary ({})", r.detail)));
            };
            if src.kind != 1 {
                return Some(("wrong-kind".into(), format!("the frame given as response is the request E{}.0", src.ep)));
            }
            if r.modified {
                return Some(("modified-response".into(), format!("the response was modified ({})", r.detail)));
            }
            if src.ep == e {
                return Some(("reflected-own-response".into(), "the response is the endpoint's own response".into()));
            }
            let cx = &sc.endpoints[src.ep];
            if cx.key != ce.key {
                return Some(("foreign-key".into(), format!("the response was produced by E{} {} which holds another key", src.ep, cfg_str(cx))));
            }
            if cx.my_role != ce.peer_role {
                return Some(("wrong-role".into(), format!("the response was produced by E{} {} whose role is not the expected one", src.ep, cfg_str(cx))));
            }
            if cx.protocol != ce.protocol {
                return Some(("wrong-protocol".into(), format!("the response was produced by E{} {} which speaks another protocol version", src.ep, cfg_str(cx))));
            }
            // freshness: the responder answered this endpoint's challenge of this connection
            let Some(q) = res.eps[src.ep].injected[0].as_ref().filter(|i| i.framed) else {
                return Some(("answer-to-nothing".into(), format!("E{} produced the response without a request", src.ep)));
            };
            if q.source != Some(FrameRef { ep: e, kind: 0 }) {
                return Some(("answer-to-other-request".into(), format!("the response is E{}'s answer to another request ({}), not to this connection's", src.ep, q.detail)));
            }
            if q.modified {
                let own = res.eps[e].sent.first().and_then(|b| de_request(b));
                let seen = de_request(&q.bytes);
                let ch = |r: &Option<super::wire::MRequest>| r.as_ref().map(|r| r.mode.clone());
                if ch(&own) != ch(&seen) {
                    return Some(("answer-to-modified-challenge".into(), format!("E{} answered a request whose challenge differs from the one sent ({})", src.ep, q.detail)));
                }
            }
            None
        })();
        if let Some((key, why)) = reason {
            out.push(Finding {
                oracle: "accept-unproven".into(),
                key,
                message: format!("{who} accepted, but {why}"),
            });
        }
    }
    out
}
