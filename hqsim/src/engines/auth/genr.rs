//! Seeded generation of worlds: configuration of the target connection (E0, E1), optional donor
//! endpoints (E2, E3: other connections of the same parties, used for replay material and as
//! answering oracles), and the adversary's plan.

use super::wire::{Forgery, Mutation, WireFault};
use super::world::{Decision, EndpointCfg, FrameRef, ROLES, Scenario};
use crate::sim::rng::Rng;

const REAL_PAIRS: [(&str, &str); 4] = [
    ("server", "worker"),
    ("worker", "server"),
    ("hq-server", "hq-client"),
    ("hq-client", "hq-server"),
];

fn role_other_than(rng: &mut Rng, not: &[&str]) -> String {
    let c: Vec<&str> = ROLES.iter().copied().filter(|r| !not.contains(r)).collect();
    rng.pick(&c).to_string()
}

/// k: 0 no keys, 1 same key, 2 different keys, 3 key on one side; p: protocols differ;
/// r: number of unmet role expectations
pub fn gen_pair(rng: &mut Rng, k: usize, p: bool, r: usize) -> (EndpointCfg, EndpointCfg) {
    let (a_my, a_peer) = if rng.chance(7, 10) {
        let x = rng.pick(&REAL_PAIRS);
        (x.0.to_string(), x.1.to_string())
    } else {
        let my = rng.pick(&ROLES).to_string();
        let peer = role_other_than(rng, &[my.as_str()]);
        (my, peer)
    };
    let (b_my, b_peer) = match r {
        0 => (a_peer.clone(), a_my.clone()),
        1 => {
            if rng.chance(1, 2) {
                // A's expectation met, B's not
                let my = a_peer.clone();
                let peer = role_other_than(rng, &[a_my.as_str(), my.as_str()]);
                (my, peer)
            } else {
                let peer = a_my.clone();
                let my = role_other_than(rng, &[a_peer.as_str(), peer.as_str()]);
                (my, peer)
            }
        }
        _ => {
            let my = role_other_than(rng, &[a_peer.as_str()]);
            let c: Vec<&str> = ROLES
                .iter()
                .copied()
                .filter(|x| *x != a_my && *x != my)
                .collect();
            let peer = rng.pick(&c).to_string();
            (my, peer)
        }
    };
    let (ka, kb) = match k {
        0 => (0, 0),
        1 => {
            let x = rng.range(1, 2) as u8;
            (x, x)
        }
        2 => {
            if rng.chance(1, 2) {
                (1, 2)
            } else {
                (2, 1)
            }
        }
        _ => {
            let x = rng.range(1, 2) as u8;
            if rng.chance(1, 2) { (0, x) } else { (x, 0) }
        }
    };
    let pa = rng.below(2) as u32;
    let pb = if p { 1 - pa } else { pa };
    (
        EndpointCfg {
            key: ka,
            my_role: a_my,
            peer_role: a_peer,
            protocol: pa,
            peer: Some(1),
        },
        EndpointCfg {
            key: kb,
            my_role: b_my,
            peer_role: b_peer,
            protocol: pb,
            peer: Some(0),
        },
    )
}

fn complement_of(c: &EndpointCfg) -> EndpointCfg {
    EndpointCfg {
        key: c.key,
        my_role: c.peer_role.clone(),
        peer_role: c.my_role.clone(),
        protocol: c.protocol,
        peer: None,
    }
}

fn donor_cfg(rng: &mut Rng, e0: &EndpointCfg, e1: &EndpointCfg) -> EndpointCfg {
    let mut c = match rng.below(6) {
        0 | 1 => e1.clone(),
        2 => e0.clone(),
        3 | 4 => complement_of(e0),
        _ => complement_of(e1),
    };
    c.peer = None;
    // sometimes a near miss
    match rng.below(10) {
        0 => c.protocol = 1 - c.protocol.min(1),
        1 => c.key = (c.key + 1) % 3,
        _ => {}
    }
    c
}

fn neutral(sc: &Scenario, e: usize) -> Decision {
    if sc.endpoints[e].peer.is_some() {
        Decision::Deliver
    } else {
        Decision::Drop
    }
}

fn add_lone_donor(rng: &mut Rng, sc: &mut Scenario, feed_from: usize) -> usize {
    let (e0, e1) = (sc.endpoints[0].clone(), sc.endpoints[1].clone());
    let cfg = donor_cfg(rng, &e0, &e1);
    sc.endpoints.push(cfg);
    sc.decisions.push(vec![
        Decision::Subst {
            from: FrameRef {
                ep: feed_from,
                kind: 0,
            },
        },
        Decision::Subst {
            from: FrameRef {
                ep: feed_from,
                kind: 1,
            },
        },
    ]);
    sc.endpoints.len() - 1
}

fn gen_mutation(rng: &mut Rng, p: usize, field: bool) -> Mutation {
    if !field {
        return match rng.below(4) {
            0 | 1 => Mutation::BitFlip {
                pos: rng.below(160) as u32,
                bit: rng.below(8) as u8,
            },
            2 => Mutation::Truncate {
                keep: rng.below(160) as u32,
            },
            _ => Mutation::Extend {
                n: rng.range(1, 4) as u32,
            },
        };
    }
    if p == 0 {
        match rng.below(8) {
            0 => Mutation::ReqProtocol {
                v: *rng.pick(&[0u32, 1, 2, u32::MAX]),
            },
            1 => Mutation::ReqRole {
                v: rng.pick(&ROLES).to_string(),
            },
            2 | 3 => Mutation::ReqAsExpected,
            4 => Mutation::ReqToggleMode,
            5 | 6 => Mutation::ReqChallengeFlip {
                pos: rng.below(16) as u32,
            },
            _ => Mutation::ReqChallengeLen {
                len: *rng.pick(&[0u32, 1, 15, 17, 32]),
            },
        }
    } else {
        match rng.below(8) {
            0 | 1 => Mutation::RespSealedFlip {
                pos: rng.below(64) as u32,
            },
            2 => Mutation::RespNonceFlip {
                pos: rng.below(24) as u32,
            },
            3 => Mutation::RespNonceLen {
                len: *rng.pick(&[0u32, 23, 25]),
            },
            4 => Mutation::RespSealedLen {
                len: *rng.pick(&[0u32, 16, 17, 38, 64]),
            },
            5 | 6 => Mutation::RespToNoAuth,
            _ => Mutation::RespToError,
        }
    }
}

fn gen_forgery(rng: &mut Rng, p: usize, receiver_keyed: bool) -> Forgery {
    if p == 0 {
        match rng.below(6) {
            0 | 1 => Forgery::RequestAsExpected {
                with_challenge: if rng.chance(4, 5) {
                    receiver_keyed
                } else {
                    !receiver_keyed
                },
            },
            2 | 3 => Forgery::Request {
                protocol: rng.below(3) as u32,
                role: rng.pick(&ROLES).to_string(),
                challenge_len: *rng.pick(&[None, Some(16u32), Some(0), Some(15), Some(64)]),
            },
            4 => Forgery::Garbage {
                len: *rng.pick(&[0u32, 1, 3, 4, 40, 300]),
            },
            _ => Forgery::RespNoAuth,
        }
    } else {
        match rng.below(7) {
            0 | 1 => Forgery::RespNoAuth,
            2 => Forgery::RespError,
            3 | 4 => Forgery::RespSealedGarbage {
                sealed_len: *rng.pick(&[0u32, 16, 17, 39, 42, 64]),
                nonce_len: *rng.pick(&[24u32, 24, 23, 0, 32]),
            },
            5 => Forgery::Garbage {
                len: *rng.pick(&[0u32, 1, 3, 4, 40, 300]),
            },
            _ => Forgery::BadVariant {
                index: *rng.pick(&[3u32, 255, u32::MAX]),
            },
        }
    }
}

/// One adversarial decision of class `class` (index into world::CLASSES, 1..=11) for input p of e
pub fn gen_decision(rng: &mut Rng, sc: &mut Scenario, e: usize, p: usize, class: usize) -> Decision {
    let n = sc.endpoints.len();
    let peer = sc.endpoints[e].peer;
    let foreign: Vec<usize> = (0..n).filter(|x| *x != e && Some(*x) != peer).collect();
    let opt_from = |rng: &mut Rng, kind: usize| -> Option<FrameRef> {
        if peer.is_none() || rng.chance(1, 5) {
            Some(FrameRef {
                ep: rng.below(n as u64) as usize,
                kind,
            })
        } else {
            None
        }
    };
    match class {
        1 => Decision::DelayShort {
            ms: rng.range(1, 14_999) as u32,
        },
        2 => Decision::Drop,
        3 => Decision::DelayPastTimeout,
        4 => match rng.below(4) {
            0 | 1 => Decision::Close,
            2 => Decision::DeliverThenReset,
            _ => Decision::DeliverThenStall,
        },
        5 => Decision::Subst {
            from: FrameRef { ep: e, kind: p },
        },
        6 => {
            let x = if foreign.is_empty() {
                add_lone_donor(rng, sc, e)
            } else {
                *rng.pick(&foreign)
            };
            Decision::Subst {
                from: FrameRef { ep: x, kind: p },
            }
        }
        7 => {
            let pool: Vec<usize> = (0..n).collect();
            Decision::Subst {
                from: FrameRef {
                    ep: *rng.pick(&pool),
                    kind: 1 - p,
                },
            }
        }
        8 => Decision::Mutate {
            from: opt_from(rng, p),
            m: gen_mutation(rng, p, false),
        },
        9 => Decision::Mutate {
            from: opt_from(rng, p),
            m: gen_mutation(rng, p, true),
        },
        10 => Decision::Forge {
            f: gen_forgery(rng, p, sc.endpoints[e].key != 0),
        },
        _ => Decision::Wire {
            from: opt_from(rng, p),
            fault: match rng.below(4) {
                0 => WireFault::ShortThenSilence {
                    keep: rng.below(64) as u32,
                },
                1 => WireFault::ShortThenClose {
                    keep: rng.below(64) as u32,
                },
                2 => WireFault::OversizeHeader,
                _ => WireFault::PartialHeaderThenClose {
                    n: rng.range(1, 3) as u8,
                },
            },
        },
    }
}

fn pick_config_class(rng: &mut Rng) -> (usize, bool, usize) {
    if rng.chance(2, 5) {
        (rng.below(2) as usize, false, 0)
    } else {
        (
            rng.below(4) as usize,
            rng.chance(1, 2),
            rng.below(3) as usize,
        )
    }
}

fn base(rng: &mut Rng, k: usize, p: bool, r: usize) -> Scenario {
    let (a, b) = gen_pair(rng, k, p, r);
    Scenario {
        endpoints: vec![a, b],
        decisions: vec![
            vec![Decision::Deliver, Decision::Deliver],
            vec![Decision::Deliver, Decision::Deliver],
        ],
        order: Vec::new(),
    }
}

fn subst(ep: usize, kind: usize) -> Decision {
    Decision::Subst {
        from: FrameRef { ep, kind },
    }
}

pub const TEMPLATES: [&str; 9] = [
    "random",
    "full-reflection",
    "answering-oracle",
    "claim-rewrite-both-ways",
    "mode-downgrade",
    "cross-session-replay",
    "refusal-to-noauth",
    "own-request-to-twin",
    "undisturbed",
];

/// Returns the scenario and the index of its template
pub fn gen_scenario(rng: &mut Rng) -> (Scenario, usize) {
    let t = if rng.chance(3, 10) {
        rng.range(1, 8) as usize
    } else {
        0
    };
    let (k, p, r) = pick_config_class(rng);
    let mut sc = match t {
        1 => {
            // everything the endpoint sends comes back to it
            let mut sc = base(rng, k, p, r);
            let e = rng.below(2) as usize;
            sc.decisions[e] = vec![subst(e, 0), subst(e, 1)];
            sc
        }
        2 => {
            // a third honest endpoint is asked to answer E0's challenge
            let mut sc = base(rng, k, p, r);
            let x = add_lone_donor(rng, &mut sc, 0);
            sc.decisions[x] = vec![subst(0, 0), if rng.chance(1, 2) { subst(0, 1) } else { Decision::Drop }];
            sc.decisions[0] = vec![
                if rng.chance(2, 3) { subst(x, 0) } else { Decision::Deliver },
                subst(x, 1),
            ];
            sc
        }
        3 => {
            // the claims (role, protocol) in both requests are rewritten to what the receiver wants
            let (k2, p2, r2) = match rng.below(3) {
                0 => (1, true, 0),
                1 => (1, false, rng.range(1, 2) as usize),
                _ => (k, p, r),
            };
            let mut sc = base(rng, k2, p2, r2);
            for e in 0..2 {
                if rng.chance(5, 6) {
                    sc.decisions[e][0] = Decision::Mutate {
                        from: None,
                        m: Mutation::ReqAsExpected,
                    };
                }
            }
            sc
        }
        4 => {
            // keyed endpoints are told the peer has no key
            let k4 = if rng.chance(3, 4) { 1 } else { k };
            let mut sc = base(rng, k4, p, r);
            for e in 0..2 {
                sc.decisions[e][0] = Decision::Mutate {
                    from: None,
                    m: Mutation::ReqToggleMode,
                };
                sc.decisions[e][1] = if rng.chance(1, 2) {
                    Decision::Forge {
                        f: Forgery::RespNoAuth,
                    }
                } else {
                    Decision::Mutate {
                        from: None,
                        m: Mutation::RespToNoAuth,
                    }
                };
            }
            sc
        }
        5 => {
            // a second connection of the same two parties runs untouched; its frames are replayed
            let mut sc = base(rng, k, p, r);
            let (mut c2, mut c3) = (sc.endpoints[0].clone(), sc.endpoints[1].clone());
            if rng.chance(1, 3) {
                c3 = complement_of(&c2);
            }
            c2.peer = Some(3);
            c3.peer = Some(2);
            sc.endpoints.push(c2);
            sc.endpoints.push(c3);
            sc.decisions.push(vec![Decision::Deliver, Decision::Deliver]);
            sc.decisions.push(vec![Decision::Deliver, Decision::Deliver]);
            let e = rng.below(2) as usize;
            let twin_of_peer = 3 - e; // E0 <- E3, E1 <- E2
            match rng.below(3) {
                0 => sc.decisions[e][1] = subst(twin_of_peer, 1),
                1 => sc.decisions[e] = vec![subst(twin_of_peer, 0), subst(twin_of_peer, 1)],
                _ => sc.decisions[e][0] = subst(twin_of_peer, 0),
            }
            sc
        }
        6 => {
            // whatever the peer answered, the endpoint is shown "no authentication needed"
            let mut sc = base(rng, k, p, r);
            for e in 0..2 {
                if rng.chance(3, 4) {
                    sc.decisions[e][1] = if rng.chance(1, 2) {
                        Decision::Forge {
                            f: Forgery::RespNoAuth,
                        }
                    } else {
                        Decision::Mutate {
                            from: None,
                            m: Mutation::RespToNoAuth,
                        }
                    };
                }
            }
            sc
        }
        7 => {
            // E0's request goes to another endpoint with E0's own configuration (e.g. a second
            // worker), with the role claim rewritten; its answer comes back
            let mut sc = base(rng, k, p, r);
            let mut twin = sc.endpoints[0].clone();
            twin.peer = None;
            sc.endpoints.push(twin);
            sc.decisions.push(vec![
                Decision::Mutate {
                    from: Some(FrameRef { ep: 0, kind: 0 }),
                    m: Mutation::ReqAsExpected,
                },
                Decision::Drop,
            ]);
            sc.decisions[0][1] = subst(2, 1);
            if rng.chance(1, 2) {
                sc.decisions[0][0] = Decision::Mutate {
                    from: Some(FrameRef { ep: 2, kind: 0 }),
                    m: Mutation::ReqAsExpected,
                };
            }
            sc
        }
        8 => base(rng, k, p, r),
        _ => {
            let mut sc = base(rng, k, p, r);
            match rng.below(20) {
                0..=6 => {}
                7..=12 => {
                    let feed = rng.below(2) as usize;
                    add_lone_donor(rng, &mut sc, feed);
                }
                _ => {
                    let (e0, e1) = (sc.endpoints[0].clone(), sc.endpoints[1].clone());
                    let mut c2 = donor_cfg(rng, &e0, &e1);
                    let mut c3 = if rng.chance(2, 3) {
                        complement_of(&c2)
                    } else {
                        donor_cfg(rng, &e0, &e1)
                    };
                    c2.peer = Some(3);
                    c3.peer = Some(2);
                    sc.endpoints.push(c2);
                    sc.endpoints.push(c3);
                    sc.decisions.push(vec![Decision::Deliver, Decision::Deliver]);
                    sc.decisions.push(vec![Decision::Deliver, Decision::Deliver]);
                }
            }
            sc
        }
    };
    // random adversarial decisions on top
    let n_adv = if t == 0 {
        rng.pick_weighted(&[8, 57, 22, 9, 4])
    } else if t == 8 {
        0
    } else {
        rng.pick_weighted(&[70, 25, 5])
    };
    for _ in 0..n_adv {
        let n = sc.endpoints.len();
        let e = if n > 2 && rng.chance(3, 20) {
            rng.range(2, n as u64 - 1) as usize
        } else {
            rng.below(2) as usize
        };
        let p = rng.below(2) as usize;
        let class = rng.range(1, 11) as usize;
        let d = gen_decision(rng, &mut sc, e, p, class);
        sc.decisions[e][p] = d;
    }
    sc.order = (0..12).map(|_| rng.below(4) as u32).collect();
    (sc, t)
}

/// The neutral decision used by the minimiser
pub fn neutral_decision(sc: &Scenario, e: usize) -> Decision {
    neutral(sc, e)
}
