//! In-memory transport for one endpoint and the byte-level view of the handshake messages.
//!
//! `do_authentication` insists on `SplitSink/SplitStream<Framed<T, LengthDelimitedCodec>>`, so the
//! real tokio-util codec runs on top of `Wire` (an `AsyncRead + AsyncWrite` byte pipe owned by the
//! man-in-the-middle). `Wire` never stores a waker: the harness polls the endpoint explicitly
//! after every action.
//!
//! The message types of `tako::internal::messages::auth` are `pub(crate)`; the mirror types below
//! have the same bincode layout (fixint, little endian; `serde_bytes` and `Vec<u8>` encode
//! identically in bincode: u64 length + raw bytes) and are (de)serialised with the public
//! `tako::comm::{serialize, deserialize}`.

use serde::{Deserialize, Serialize};
use std::cell::RefCell;
use std::collections::VecDeque;
use std::io;
use std::pin::Pin;
use std::rc::Rc;
use std::task::{Context, Poll};
use tokio::io::{AsyncRead, AsyncWrite, ReadBuf};

/* ---------------------------------------------------------------------------------------- */
/* Byte pipe                                                                                */
/* ---------------------------------------------------------------------------------------- */

#[derive(Default)]
pub struct WireState {
    /// bytes the man-in-the-middle handed to the endpoint, not read yet
    pub to_ep: VecDeque<u8>,
    /// end of stream after `to_ep` is drained
    pub eof: bool,
    /// bytes the endpoint wrote, not yet cut into frames by the harness
    pub from_ep: Vec<u8>,
    /// writes fail with BrokenPipe
    pub write_broken: bool,
    /// writes never complete (the peer stopped reading: zero window)
    pub write_stalled: bool,
    /// the endpoint dropped its side
    pub dropped: bool,
    pub reads: u64,
    pub writes: u64,
}

#[derive(Clone, Default)]
pub struct WireHandle(pub Rc<RefCell<WireState>>);

pub struct Wire(Rc<RefCell<WireState>>);

impl WireHandle {
    pub fn endpoint_side(&self) -> Wire {
        Wire(self.0.clone())
    }

    /// Puts one frame (header + payload) into the endpoint's input
    pub fn push_frame(&self, payload: &[u8]) {
        let mut s = self.0.borrow_mut();
        s.to_ep.extend((payload.len() as u32).to_le_bytes());
        s.to_ep.extend(payload.iter().copied());
    }

    pub fn push_raw(&self, bytes: &[u8]) {
        self.0.borrow_mut().to_ep.extend(bytes.iter().copied());
    }

    pub fn close(&self) {
        let mut s = self.0.borrow_mut();
        s.eof = true;
        s.write_broken = true;
    }

    /// The peer resets the connection after what it already sent: pending input stays readable,
    /// writes fail
    pub fn break_writes(&self) {
        self.0.borrow_mut().write_broken = true;
    }

    pub fn stall_writes(&self) {
        self.0.borrow_mut().write_stalled = true;
    }

    pub fn input_len(&self) -> usize {
        self.0.borrow().to_ep.len()
    }

    /// Cuts complete frames out of what the endpoint wrote (little endian u32 length prefix)
    pub fn take_frames(&self) -> Vec<Vec<u8>> {
        let mut s = self.0.borrow_mut();
        let mut out = Vec::new();
        loop {
            if s.from_ep.len() < 4 {
                break;
            }
            let n = u32::from_le_bytes([s.from_ep[0], s.from_ep[1], s.from_ep[2], s.from_ep[3]])
                as usize;
            if s.from_ep.len() < 4 + n {
                break;
            }
            let frame = s.from_ep[4..4 + n].to_vec();
            s.from_ep.drain(..4 + n);
            out.push(frame);
        }
        out
    }
}

impl Drop for Wire {
    fn drop(&mut self) {
        self.0.borrow_mut().dropped = true;
    }
}

impl AsyncRead for Wire {
    fn poll_read(
        self: Pin<&mut Self>,
        _cx: &mut Context<'_>,
        buf: &mut ReadBuf<'_>,
    ) -> Poll<io::Result<()>> {
        let mut s = self.0.borrow_mut();
        s.reads += 1;
        if !s.to_ep.is_empty() {
            let n = buf.remaining().min(s.to_ep.len());
            let (a, b) = s.to_ep.as_slices();
            let na = a.len().min(n);
            buf.put_slice(&a[..na]);
            if na < n {
                buf.put_slice(&b[..n - na]);
            }
            s.to_ep.drain(..n);
            Poll::Ready(Ok(()))
        } else if s.eof {
            Poll::Ready(Ok(()))
        } else {
            Poll::Pending
        }
    }
}

impl AsyncWrite for Wire {
    fn poll_write(
        self: Pin<&mut Self>,
        _cx: &mut Context<'_>,
        buf: &[u8],
    ) -> Poll<io::Result<usize>> {
        let mut s = self.0.borrow_mut();
        s.writes += 1;
        if s.write_broken {
            return Poll::Ready(Err(io::Error::new(
                io::ErrorKind::BrokenPipe,
                "connection closed",
            )));
        }
        if s.write_stalled {
            // no waker: only the handshake timeout ends this
            return Poll::Pending;
        }
        s.from_ep.extend_from_slice(buf);
        Poll::Ready(Ok(buf.len()))
    }

    fn poll_flush(self: Pin<&mut Self>, _cx: &mut Context<'_>) -> Poll<io::Result<()>> {
        Poll::Ready(Ok(()))
    }

    fn poll_shutdown(self: Pin<&mut Self>, _cx: &mut Context<'_>) -> Poll<io::Result<()>> {
        Poll::Ready(Ok(()))
    }
}

/* ---------------------------------------------------------------------------------------- */
/* Mirror message types                                                                     */
/* ---------------------------------------------------------------------------------------- */

#[derive(Serialize, Deserialize, Debug, Clone, PartialEq, Eq)]
pub struct MChallenge {
    pub challenge: Vec<u8>,
}

#[derive(Serialize, Deserialize, Debug, Clone, PartialEq, Eq)]
pub enum MMode {
    NoAuth,
    Encryption(MChallenge),
}

#[derive(Serialize, Deserialize, Debug, Clone, PartialEq, Eq)]
pub struct MRequest {
    pub protocol: u32,
    pub role: String,
    pub mode: MMode,
}

#[derive(Serialize, Deserialize, Debug, Clone, PartialEq, Eq)]
pub struct MEncResponse {
    pub response: Vec<u8>,
    pub nonce: Vec<u8>,
}

#[derive(Serialize, Deserialize, Debug, Clone, PartialEq, Eq)]
pub struct MError {
    pub message: String,
}

#[derive(Serialize, Deserialize, Debug, Clone, PartialEq, Eq)]
pub enum MResponse {
    NoAuth,
    Encryption(MEncResponse),
    Error(MError),
}

pub fn ser<T: Serialize>(v: &T) -> Vec<u8> {
    tako::comm::serialize(v).expect("mirror type serialises")
}

pub fn de_request(b: &[u8]) -> Option<MRequest> {
    // a mirror decode failure is an observation (None), never an error text (it would contain bytes)
    tako::comm::deserialize::<MRequest>(b).ok()
}

pub fn de_response(b: &[u8]) -> Option<MResponse> {
    tako::comm::deserialize::<MResponse>(b).ok()
}

/// What a frame claims, without any secret content (safe for logs and hashes)
pub fn describe_request(b: &[u8]) -> String {
    match de_request(b) {
        Some(r) => format!(
            "request(protocol={}, role={}, mode={})",
            r.protocol,
            r.role,
            match &r.mode {
                MMode::NoAuth => "noauth".to_string(),
                MMode::Encryption(c) => format!("challenge[{}]", c.challenge.len()),
            }
        ),
        None => format!("undecodable-as-request[{}]", b.len()),
    }
}

pub fn describe_response(b: &[u8]) -> String {
    match de_response(b) {
        Some(MResponse::NoAuth) => "response(noauth)".into(),
        Some(MResponse::Encryption(e)) => format!(
            "response(sealed[{}], nonce[{}])",
            e.response.len(),
            e.nonce.len()
        ),
        Some(MResponse::Error(_)) => "response(error)".into(),
        None => format!("undecodable-as-response[{}]", b.len()),
    }
}

/* ---------------------------------------------------------------------------------------- */
/* Mutations and forgeries (explicit parameters: nothing is drawn at replay)                */
/* ---------------------------------------------------------------------------------------- */

#[derive(Serialize, Deserialize, Debug, Clone, PartialEq, Eq)]
pub enum Mutation {
    /// flips bit `bit` of byte `pos % len`
    BitFlip { pos: u32, bit: u8 },
    /// keeps the first `keep % len` bytes (well-formed frame with a short payload)
    Truncate { keep: u32 },
    /// appends `n` zero bytes
    Extend { n: u32 },
    /// request: protocol := v
    ReqProtocol { v: u32 },
    /// request: role := v
    ReqRole { v: String },
    /// request: role := the role the receiver expects, protocol := the receiver's protocol
    ReqAsExpected,
    /// request: Encryption -> NoAuth, NoAuth -> Encryption(zero challenge of 16 bytes)
    ReqToggleMode,
    /// request: challenge byte `pos % len` ^= 0x01 (NoAuth: toggles the mode instead)
    ReqChallengeFlip { pos: u32 },
    /// request: challenge resized to `len` (truncate / zero-pad)
    ReqChallengeLen { len: u32 },
    /// response: sealed byte `pos % len` ^= 0x80 (other variants: see `RespToNoAuth`)
    RespSealedFlip { pos: u32 },
    /// response: nonce byte `pos % len` ^= 0x01
    RespNonceFlip { pos: u32 },
    /// response: nonce resized to `len`
    RespNonceLen { len: u32 },
    /// response: sealed part resized to `len`
    RespSealedLen { len: u32 },
    /// response: any variant -> NoAuth (NoAuth -> Error)
    RespToNoAuth,
    /// response: any variant -> Error("forged") (Error -> NoAuth)
    RespToError,
}

impl Mutation {
    pub fn name(&self) -> &'static str {
        match self {
            Mutation::BitFlip { .. } => "bitflip",
            Mutation::Truncate { .. } => "truncate",
            Mutation::Extend { .. } => "extend",
            Mutation::ReqProtocol { .. } => "req-protocol",
            Mutation::ReqRole { .. } => "req-role",
            Mutation::ReqAsExpected => "req-as-expected",
            Mutation::ReqToggleMode => "req-toggle-mode",
            Mutation::ReqChallengeFlip { .. } => "req-challenge-flip",
            Mutation::ReqChallengeLen { .. } => "req-challenge-len",
            Mutation::RespSealedFlip { .. } => "resp-sealed-flip",
            Mutation::RespNonceFlip { .. } => "resp-nonce-flip",
            Mutation::RespNonceLen { .. } => "resp-nonce-len",
            Mutation::RespSealedLen { .. } => "resp-sealed-len",
            Mutation::RespToNoAuth => "resp-to-noauth",
            Mutation::RespToError => "resp-to-error",
        }
    }

    pub fn is_field(&self) -> bool {
        !matches!(
            self,
            Mutation::BitFlip { .. } | Mutation::Truncate { .. } | Mutation::Extend { .. }
        )
    }
}

fn flip(v: &mut [u8], pos: u32, mask: u8) -> bool {
    if v.is_empty() {
        return false;
    }
    let i = pos as usize % v.len();
    v[i] ^= mask;
    true
}

/// Applies a mutation. `expected_role` / `expected_protocol`: what the receiving endpoint wants to
/// hear (an adversary knows the public role names). A mutation that does not apply to the frame
/// (wrong kind, undecodable) falls back to flipping the lowest bit of the first byte.
pub fn mutate(src: &[u8], m: &Mutation, expected_role: &str, expected_protocol: u32) -> Vec<u8> {
    let fallback = |src: &[u8]| {
        let mut v = src.to_vec();
        if v.is_empty() {
            v.push(1);
        } else {
            v[0] ^= 1;
        }
        v
    };
    match m {
        Mutation::BitFlip { pos, bit } => {
            let mut v = src.to_vec();
            if !flip(&mut v, *pos, 1u8 << (bit % 8)) {
                v.push(1);
            }
            v
        }
        Mutation::Truncate { keep } => {
            if src.is_empty() {
                return vec![0];
            }
            src[..(*keep as usize % src.len())].to_vec()
        }
        Mutation::Extend { n } => {
            let mut v = src.to_vec();
            v.extend(std::iter::repeat_n(0u8, (*n).max(1) as usize));
            v
        }
        Mutation::ReqProtocol { .. }
        | Mutation::ReqRole { .. }
        | Mutation::ReqAsExpected
        | Mutation::ReqToggleMode
        | Mutation::ReqChallengeFlip { .. }
        | Mutation::ReqChallengeLen { .. } => {
            let Some(mut r) = de_request(src) else {
                return fallback(src);
            };
            let toggle = |r: &mut MRequest| {
                r.mode = match &r.mode {
                    MMode::NoAuth => MMode::Encryption(MChallenge {
                        challenge: vec![0; 16],
                    }),
                    MMode::Encryption(_) => MMode::NoAuth,
                }
            };
            match m {
                Mutation::ReqProtocol { v } => r.protocol = *v,
                Mutation::ReqRole { v } => r.role = v.clone(),
                Mutation::ReqAsExpected => {
                    r.role = expected_role.to_string();
                    r.protocol = expected_protocol;
                }
                Mutation::ReqToggleMode => toggle(&mut r),
                Mutation::ReqChallengeFlip { pos } => match &mut r.mode {
                    MMode::Encryption(c) if !c.challenge.is_empty() => {
                        flip(&mut c.challenge, *pos, 1);
                    }
                    _ => toggle(&mut r),
                },
                Mutation::ReqChallengeLen { len } => match &mut r.mode {
                    MMode::Encryption(c) => c.challenge.resize(*len as usize, 0),
                    MMode::NoAuth => {
                        r.mode = MMode::Encryption(MChallenge {
                            challenge: vec![0; *len as usize],
                        })
                    }
                },
                _ => unreachable!(),
            }
            ser(&r)
        }
        Mutation::RespSealedFlip { .. }
        | Mutation::RespNonceFlip { .. }
        | Mutation::RespNonceLen { .. }
        | Mutation::RespSealedLen { .. }
        | Mutation::RespToNoAuth
        | Mutation::RespToError => {
            let Some(r) = de_response(src) else {
                return fallback(src);
            };
            let to_noauth = |r: &MResponse| match r {
                MResponse::NoAuth => MResponse::Error(MError {
                    message: "forged".into(),
                }),
                _ => MResponse::NoAuth,
            };
            let out = match (m, &r) {
                (Mutation::RespToError, MResponse::Error(_)) => MResponse::NoAuth,
                (Mutation::RespToError, _) => MResponse::Error(MError {
                    message: "forged".into(),
                }),
                (Mutation::RespToNoAuth, _) => to_noauth(&r),
                (_, MResponse::Encryption(e)) => {
                    let mut e = e.clone();
                    match m {
                        Mutation::RespSealedFlip { pos } => {
                            if !flip(&mut e.response, *pos, 0x80) {
                                e.response.push(0);
                            }
                        }
                        Mutation::RespNonceFlip { pos } => {
                            if !flip(&mut e.nonce, *pos, 1) {
                                e.nonce.push(0);
                            }
                        }
                        Mutation::RespNonceLen { len } => e.nonce.resize(*len as usize, 0),
                        Mutation::RespSealedLen { len } => e.response.resize(*len as usize, 0),
                        _ => unreachable!(),
                    }
                    MResponse::Encryption(e)
                }
                (_, _) => to_noauth(&r),
            };
            ser(&out)
        }
    }
}

#[derive(Serialize, Deserialize, Debug, Clone, PartialEq, Eq)]
pub enum Forgery {
    /// a request written from scratch; `challenge_len`: None = NoAuth, Some(n) = n bytes 0xA5
    Request {
        protocol: u32,
        role: String,
        challenge_len: Option<u32>,
    },
    /// request with the role and protocol the receiver expects
    RequestAsExpected { with_challenge: bool },
    RespNoAuth,
    RespError,
    /// Encryption response with constant bytes (the adversary has no key)
    RespSealedGarbage { sealed_len: u32, nonce_len: u32 },
    /// `len` bytes 0x5A
    Garbage { len: u32 },
    /// an unknown enum variant index
    BadVariant { index: u32 },
}

impl Forgery {
    pub fn name(&self) -> &'static str {
        match self {
            Forgery::Request { .. } => "forged-request",
            Forgery::RequestAsExpected { .. } => "forged-request-as-expected",
            Forgery::RespNoAuth => "forged-noauth-response",
            Forgery::RespError => "forged-error-response",
            Forgery::RespSealedGarbage { .. } => "forged-sealed-garbage",
            Forgery::Garbage { .. } => "garbage",
            Forgery::BadVariant { .. } => "bad-variant",
        }
    }
}

pub fn forge(f: &Forgery, expected_role: &str, expected_protocol: u32) -> Vec<u8> {
    let mode = |n: Option<u32>| match n {
        None => MMode::NoAuth,
        Some(n) => MMode::Encryption(MChallenge {
            challenge: vec![0xA5; n as usize],
        }),
    };
    match f {
        Forgery::Request {
            protocol,
            role,
            challenge_len,
        } => ser(&MRequest {
            protocol: *protocol,
            role: role.clone(),
            mode: mode(*challenge_len),
        }),
        Forgery::RequestAsExpected { with_challenge } => ser(&MRequest {
            protocol: expected_protocol,
            role: expected_role.to_string(),
            mode: mode(if *with_challenge { Some(16) } else { None }),
        }),
        Forgery::RespNoAuth => ser(&MResponse::NoAuth),
        Forgery::RespError => ser(&MResponse::Error(MError {
            message: "forged".into(),
        })),
        Forgery::RespSealedGarbage {
            sealed_len,
            nonce_len,
        } => ser(&MResponse::Encryption(MEncResponse {
            response: vec![0x3C; *sealed_len as usize],
            nonce: vec![0xC3; *nonce_len as usize],
        })),
        Forgery::Garbage { len } => vec![0x5A; *len as usize],
        Forgery::BadVariant { index } => index.to_le_bytes().to_vec(),
    }
}

/// Faults below the frame layer (what a peer that controls the TCP stream can do to the codec)
#[derive(Serialize, Deserialize, Debug, Clone, PartialEq, Eq)]
pub enum WireFault {
    /// header announces the full frame, only `keep % len` payload bytes follow, then silence
    ShortThenSilence { keep: u32 },
    /// as above, then the connection is closed
    ShortThenClose { keep: u32 },
    /// header announces more than MAX_FRAME_SIZE
    OversizeHeader,
    /// only `n` (1..=3) bytes of a header, then close
    PartialHeaderThenClose { n: u8 },
}

impl WireFault {
    pub fn name(&self) -> &'static str {
        match self {
            WireFault::ShortThenSilence { .. } => "short-then-silence",
            WireFault::ShortThenClose { .. } => "short-then-close",
            WireFault::OversizeHeader => "oversize-header",
            WireFault::PartialHeaderThenClose { .. } => "partial-header-then-close",
        }
    }
}
