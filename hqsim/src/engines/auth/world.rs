//! One world = a few honest endpoints, each running the real `do_authentication` on its own
//! in-memory connection, and a man-in-the-middle that owns all the connections. The adversary's
//! plan is explicit: one `Decision` per (endpoint, input position) plus a pick list for the order
//! of actions. Nothing is drawn while a world executes.

use super::wire::{
    Forgery, Mutation, WireFault, WireHandle, describe_request, describe_response, forge, mutate,
};
use crate::sim::exec::Flag;
use crate::sim::panic::{PanicInfo, catch};
use futures::StreamExt;
use orion::kdf::SecretKey;
use serde::{Deserialize, Serialize};
use std::future::Future;
use std::pin::Pin;
use std::sync::Arc;
use std::sync::atomic::{AtomicBool, Ordering};
use std::task::{Context, Poll, Waker};
use std::time::Duration;
use tokio_util::codec::LengthDelimitedCodec;

pub const ROLES: [&str; 4] = ["server", "worker", "hq-server", "hq-client"];
/// only used by the harness self-test (a role that is its own complement)
pub const SELFTEST_ROLE: &str = "peer";
/// AUTH_TIMEOUT of do_authentication, from the user-visible behaviour ("15 s handshake timeout")
pub const TIMEOUT_MS: u64 = 15_000;

pub fn static_role(r: &str) -> Option<&'static str> {
    ROLES
        .iter()
        .copied()
        .chain(std::iter::once(SELFTEST_ROLE))
        .find(|x| *x == r)
}

#[derive(Serialize, Deserialize, Debug, Clone, PartialEq, Eq)]
pub struct EndpointCfg {
    /// 0 = no key, 1 = K1, 2 = K2
    pub key: u8,
    pub my_role: String,
    pub peer_role: String,
    pub protocol: u32,
    /// the endpoint on the other end of this connection (None: only the adversary is there)
    pub peer: Option<usize>,
}

#[derive(Serialize, Deserialize, Debug, Clone, Copy, PartialEq, Eq, PartialOrd, Ord)]
pub struct FrameRef {
    pub ep: usize,
    /// 0 = authentication request, 1 = authentication response
    pub kind: usize,
}

#[derive(Serialize, Deserialize, Debug, Clone, PartialEq, Eq)]
pub enum Decision {
    /// the frame the connected peer sent for this position, untouched
    Deliver,
    /// as Deliver, after holding it back for `ms` (< timeout)
    DelayShort { ms: u32 },
    /// nothing arrives
    Drop,
    /// the genuine frame is held back past the handshake timeout
    DelayPastTimeout,
    /// the connection is closed instead
    Close,
    /// the genuine frame arrives, then the peer resets the connection (writes fail)
    DeliverThenReset,
    /// the genuine frame arrives, then the peer stops reading (writes never complete)
    DeliverThenStall,
    /// an unmodified frame recorded anywhere (own frame = reflection, other session = replay,
    /// other kind = kind confusion)
    Subst { from: FrameRef },
    /// a recorded frame (None: the genuine one for this position) with a modification
    Mutate { from: Option<FrameRef>, m: Mutation },
    /// a frame written by the adversary
    Forge { f: Forgery },
    /// a fault below the frame layer applied to a recorded frame (None: the genuine one)
    Wire {
        from: Option<FrameRef>,
        fault: WireFault,
    },
}

impl Decision {
    pub fn is_passive(&self) -> bool {
        matches!(self, Decision::Deliver | Decision::DelayShort { .. })
    }
}

#[derive(Serialize, Deserialize, Debug, Clone, PartialEq, Eq)]
pub struct Scenario {
    pub endpoints: Vec<EndpointCfg>,
    /// decisions[endpoint][input position]
    pub decisions: Vec<Vec<Decision>>,
    /// order[i] % (number of enabled actions) selects the i-th action; missing entries = 0
    pub order: Vec<u32>,
}

/// Substitution classes of the coverage grid
pub const CLASSES: [&str; 13] = [
    "deliver",
    "delay-short",
    "drop",
    "delay-past-timeout",
    "close",
    "reflect",
    "replay-other-session",
    "swap-kind",
    "mutate-bytes",
    "mutate-field",
    "forge",
    "wire-fault",
    "peer-gone",
];

#[derive(Debug, Clone)]
pub struct Injected {
    /// the recorded frame the bytes come from (None: forged)
    pub source: Option<FrameRef>,
    /// bytes differ from the source frame
    pub modified: bool,
    /// a complete frame reached the endpoint's codec
    pub framed: bool,
    pub class: usize,
    pub detail: String,
    pub bytes: Vec<u8>,
}

#[derive(Debug, Clone, PartialEq, Eq)]
pub enum Outcome {
    Accept { sealer: bool, opener: bool },
    Refuse(String),
    Panic(PanicInfo),
    /// neither accepted nor refused after all timeouts had elapsed
    Hang,
}

impl Outcome {
    pub fn short(&self) -> String {
        match self {
            Outcome::Accept { sealer, opener } => format!(
                "accept({})",
                if *sealer && *opener {
                    "encrypted"
                } else if !*sealer && !*opener {
                    "plain"
                } else {
                    "half"
                }
            ),
            Outcome::Refuse(c) => format!("refuse:{c}"),
            Outcome::Panic(p) => format!("panic:{}", p.location()),
            Outcome::Hang => "hang".into(),
        }
    }
    pub fn accepted(&self) -> bool {
        matches!(self, Outcome::Accept { .. })
    }
}

#[derive(Debug, Clone)]
pub struct EpResult {
    pub outcome: Outcome,
    pub injected: [Option<Injected>; 2],
    /// frames the endpoint sent (bytes stay in memory, never logged)
    pub sent: Vec<Vec<u8>>,
    /// simulated ms at which the endpoint finished
    pub finished_at_ms: u64,
}

#[derive(Debug, Clone)]
pub struct WorldResult {
    pub eps: Vec<EpResult>,
    pub sim_ms: u64,
    pub steps: u32,
    pub timeouts_fired: u32,
    pub log: Vec<String>,
}

/// Error texts may quote frame bytes; only a category leaves the world
pub fn refuse_category(e: &str) -> String {
    let table: [(&str, &str); 17] = [
        ("Sending authentication timeout", "send-timeout"),
        ("did not arrived", "timeout"),
        ("closed connection", "closed"),
        ("Sending authentication failed", "send-failed"),
        ("Received authentication error", "peer-error"),
        ("Authentication failed:", "own-error"),
        ("Invalid nonce", "invalid-nonce"),
        ("Failed to create opener", "opener"),
        ("Cannot verify challenge", "cannot-verify"),
        ("does not match", "challenge-mismatch"),
        ("Invalid authentication state", "invalid-state"),
        ("Deserialization failed", "deserialize"),
        ("frame size too big", "frame-too-big"),
        ("bytes remaining on stream", "short-frame"),
        ("IO error", "io"),
        ("Serialization", "serialization"),
        ("Generating challenge", "crypto-internal"),
    ];
    for (needle, cat) in table {
        if e.contains(needle) {
            return cat.to_string();
        }
    }
    "other".into()
}

pub fn key_bytes(k: u8) -> Option<[u8; 32]> {
    match k {
        0 => None,
        1 => Some([0x11; 32]),
        _ => Some([0x22; 32]),
    }
}

type AuthFut = Pin<Box<dyn Future<Output = Result<(bool, bool), String>>>>;

fn make_endpoint_future(cfg: &EndpointCfg, handle: &WireHandle) -> Result<AuthFut, String> {
    let my_role = static_role(&cfg.my_role).ok_or_else(|| format!("unknown role {}", cfg.my_role))?;
    let peer_role =
        static_role(&cfg.peer_role).ok_or_else(|| format!("unknown role {}", cfg.peer_role))?;
    let key = match key_bytes(cfg.key) {
        None => None,
        Some(b) => Some(Arc::new(
            SecretKey::from_slice(&b).map_err(|_| "cannot build key".to_string())?,
        )),
    };
    let protocol = cfg.protocol;
    let wire = handle.endpoint_side();
    Ok(Box::pin(async move {
        // copy of tako::internal::transfer::transport::make_protocol_builder (pub(crate) path)
        let framed = LengthDelimitedCodec::builder()
            .little_endian()
            .max_frame_length(tako::MAX_FRAME_SIZE)
            .new_framed(wire);
        let (mut writer, mut reader) = framed.split();
        let r = tako::comm::do_authentication(
            protocol,
            my_role,
            peer_role,
            key,
            &mut writer,
            &mut reader,
        )
        .await;
        match r {
            Ok((s, o)) => Ok((s.is_some(), o.is_some())),
            Err(e) => Err(e.to_string()),
        }
    }))
}

struct Ep {
    fut: Option<AuthFut>,
    flag: Arc<Flag>,
    handle: WireHandle,
    sent: Vec<Vec<u8>>,
    n_injected: usize,
    injected: [Option<Injected>; 2],
    /// a decision was applied that leaves the endpoint waiting for the timeout
    starved: bool,
    /// frame to hand over after the timeout fired (DelayPastTimeout)
    late: Option<Vec<u8>>,
    outcome: Option<Outcome>,
    finished_at_ms: u64,
}

enum Avail {
    Ready,
    /// the source endpoint ended without producing the frame
    Gone,
    Wait,
}

pub struct Exec<'a> {
    pub rt: &'a tokio::runtime::Runtime,
    pub verbose: bool,
}

impl Exec<'_> {
    /// Executes a scenario. Err = the scenario cannot be executed (harness error).
    pub fn run(&self, sc: &Scenario) -> Result<WorldResult, String> {
        let n = sc.endpoints.len();
        if sc.decisions.len() != n || sc.decisions.iter().any(|d| d.len() != 2) {
            return Err("decisions do not match endpoints".into());
        }
        for d in sc.decisions.iter().flatten() {
            let r = match d {
                Decision::Subst { from } => Some(*from),
                Decision::Mutate { from, .. } | Decision::Wire { from, .. } => *from,
                _ => None,
            };
            if let Some(r) = r
                && (r.ep >= n || r.kind > 1)
            {
                return Err("frame reference out of range".into());
            }
        }
        if sc.endpoints.iter().any(|e| e.peer.is_some_and(|p| p >= n)) {
            return Err("peer out of range".into());
        }
        let _guard = self.rt.enter();
        let mut eps: Vec<Ep> = Vec::with_capacity(n);
        for cfg in &sc.endpoints {
            let handle = WireHandle::default();
            let fut = make_endpoint_future(cfg, &handle)?;
            eps.push(Ep {
                fut: Some(fut),
                flag: Arc::new(Flag(AtomicBool::new(true))),
                handle,
                sent: Vec::new(),
                n_injected: 0,
                injected: [None, None],
                starved: false,
                late: None,
                outcome: None,
                finished_at_ms: 0,
            });
        }
        let mut log = Vec::new();
        let mut sim_ms = 0u64;
        let mut step = 0u32;
        let mut timeouts_fired = 0u32;
        let mut idle_advances = 0u32;
        loop {
            Self::poll_all(&mut eps, sim_ms, &mut log, self.verbose);
            // enabled actions
            let mut enabled: Vec<(usize, bool)> = Vec::new();
            for e in 0..n {
                if eps[e].fut.is_none() || eps[e].n_injected >= 2 || eps[e].starved {
                    continue;
                }
                if eps[e].handle.input_len() > 0 {
                    continue;
                }
                let p = eps[e].n_injected;
                match Self::availability(sc, &eps, e, p) {
                    Avail::Ready => enabled.push((e, false)),
                    Avail::Gone => enabled.push((e, true)),
                    Avail::Wait => {}
                }
            }
            if enabled.is_empty() {
                if eps.iter().all(|e| e.fut.is_none()) {
                    break;
                }
                if idle_advances >= 3 {
                    break;
                }
                // nobody can be served: time passes until the handshake timeout
                let alive_before = eps.iter().filter(|e| e.fut.is_some()).count();
                self.rt
                    .block_on(tokio::time::advance(Duration::from_millis(TIMEOUT_MS + 1)));
                sim_ms += TIMEOUT_MS + 1;
                timeouts_fired += 1;
                if self.verbose {
                    log.push(format!("t={sim_ms}ms: {} ms pass", TIMEOUT_MS + 1));
                }
                Self::poll_all(&mut eps, sim_ms, &mut log, self.verbose);
                for ep in eps.iter_mut() {
                    if let Some(b) = ep.late.take() {
                        ep.handle.push_frame(&b);
                    }
                    ep.starved = false;
                }
                let alive_after = eps.iter().filter(|e| e.fut.is_some()).count();
                if alive_after == alive_before {
                    idle_advances += 1;
                } else {
                    idle_advances = 0;
                }
                continue;
            }
            let pick = sc.order.get(step as usize).copied().unwrap_or(0) as usize % enabled.len();
            let (e, gone) = enabled[pick];
            step += 1;
            sim_ms += self.apply(sc, &mut eps, e, gone, &mut log);
            if step > 64 {
                return Err("world did not settle in 64 steps".into());
            }
        }
        let eps = eps
            .into_iter()
            .map(|mut e| {
                e.fut = None;
                EpResult {
                    outcome: e.outcome.unwrap_or(Outcome::Hang),
                    injected: e.injected,
                    sent: e.sent,
                    finished_at_ms: e.finished_at_ms,
                }
            })
            .collect();
        Ok(WorldResult {
            eps,
            sim_ms,
            steps: step,
            timeouts_fired,
            log,
        })
    }

    fn poll_all(eps: &mut [Ep], sim_ms: u64, log: &mut Vec<String>, verbose: bool) {
        for (i, ep) in eps.iter_mut().enumerate() {
            let Some(fut) = ep.fut.as_mut() else { continue };
            ep.flag.0.store(false, Ordering::SeqCst);
            let waker = Waker::from(ep.flag.clone());
            let mut cx = Context::from_waker(&waker);
            let r = catch(|| fut.as_mut().poll(&mut cx));
            for f in ep.handle.take_frames() {
                if verbose {
                    let d = if ep.sent.is_empty() {
                        describe_request(&f)
                    } else {
                        describe_response(&f)
                    };
                    log.push(format!("t={sim_ms}ms: E{i} sends frame E{i}.{} {d}", ep.sent.len()));
                }
                ep.sent.push(f);
            }
            let outcome = match r {
                Ok(Poll::Pending) => None,
                Ok(Poll::Ready(Ok((s, o)))) => Some(Outcome::Accept {
                    sealer: s,
                    opener: o,
                }),
                Ok(Poll::Ready(Err(e))) => Some(Outcome::Refuse(refuse_category(&e))),
                Err(p) => Some(Outcome::Panic(p)),
            };
            if let Some(o) = outcome {
                if verbose {
                    log.push(format!("t={sim_ms}ms: E{i} ends: {}", o.short()));
                }
                ep.outcome = Some(o);
                ep.fut = None;
                ep.finished_at_ms = sim_ms;
            }
        }
    }

    fn source_of(sc: &Scenario, e: usize, p: usize) -> Option<FrameRef> {
        match &sc.decisions[e][p] {
            Decision::Deliver
            | Decision::DelayShort { .. }
            | Decision::DelayPastTimeout
            | Decision::DeliverThenReset
            | Decision::DeliverThenStall => sc.endpoints[e].peer.map(|q| FrameRef { ep: q, kind: p }),
            Decision::Subst { from } => Some(*from),
            Decision::Mutate { from, .. } | Decision::Wire { from, .. } => {
                from.or(sc.endpoints[e].peer.map(|q| FrameRef { ep: q, kind: p }))
            }
            Decision::Drop | Decision::Close | Decision::Forge { .. } => None,
        }
    }

    fn availability(sc: &Scenario, eps: &[Ep], e: usize, p: usize) -> Avail {
        match &sc.decisions[e][p] {
            Decision::Drop | Decision::Close | Decision::Forge { .. } => return Avail::Ready,
            _ => {}
        }
        match Self::source_of(sc, e, p) {
            // a connection with nobody behind it: nothing ever arrives
            None => Avail::Gone,
            Some(r) => {
                if eps[r.ep].sent.len() > r.kind {
                    Avail::Ready
                } else if eps[r.ep].fut.is_none() {
                    Avail::Gone
                } else {
                    Avail::Wait
                }
            }
        }
    }

    /// Applies the decision of (e, position); returns the simulated ms it let pass
    fn apply(
        &self,
        sc: &Scenario,
        eps: &mut [Ep],
        e: usize,
        gone: bool,
        log: &mut Vec<String>,
    ) -> u64 {
        let p = eps[e].n_injected;
        let d = &sc.decisions[e][p];
        let cfg = &sc.endpoints[e];
        let src = Self::source_of(sc, e, p);
        let src_bytes = src.and_then(|r| eps[r.ep].sent.get(r.kind).cloned());
        let peer_frame = cfg.peer.map(|q| FrameRef { ep: q, kind: p });
        let class_of_subst = |from: FrameRef| -> usize {
            if from.kind != p {
                7
            } else if from.ep == e {
                5
            } else if Some(from) == peer_frame {
                0
            } else {
                6
            }
        };
        let mut advanced_ms = 0u64;
        let mut inj = Injected {
            source: src,
            modified: false,
            framed: false,
            class: 0,
            detail: String::new(),
            bytes: Vec::new(),
        };
        if gone {
            // the source ended without sending: a relay sees its connection closed and closes
            // ours (genuine routing), or has nothing to substitute and stays silent
            inj.class = 12;
            inj.source = None;
            if d.is_passive()
                || matches!(
                    d,
                    Decision::DelayPastTimeout | Decision::DeliverThenReset | Decision::DeliverThenStall
                )
            {
                inj.detail = "peer-gone: connection closed".into();
                eps[e].handle.close();
            } else {
                inj.detail = "source never produced: silence".into();
                eps[e].starved = true;
            }
        } else {
            match d {
                Decision::Deliver => {
                    inj.bytes = src_bytes.unwrap();
                    inj.framed = true;
                    inj.class = 0;
                    inj.detail = "deliver".into();
                }
                Decision::DelayShort { ms } => {
                    // the delay happens before the hand-over: let time pass first
                    let ms = (*ms as u64).min(TIMEOUT_MS - 1);
                    self.rt.block_on(tokio::time::advance(Duration::from_millis(ms)));
                    advanced_ms = ms;
                    inj.bytes = src_bytes.unwrap();
                    inj.framed = true;
                    inj.class = 1;
                    inj.detail = format!("deliver after {ms} ms");
                }
                Decision::Drop => {
                    inj.source = None;
                    inj.class = 2;
                    inj.detail = "drop".into();
                    eps[e].starved = true;
                }
                Decision::DelayPastTimeout => {
                    inj.class = 3;
                    inj.detail = "held back past the timeout".into();
                    eps[e].late = src_bytes;
                    eps[e].starved = true;
                }
                Decision::Close => {
                    inj.source = None;
                    inj.class = 4;
                    inj.detail = "close".into();
                    eps[e].handle.close();
                }
                Decision::DeliverThenReset | Decision::DeliverThenStall => {
                    inj.bytes = src_bytes.unwrap();
                    inj.framed = true;
                    inj.class = 4;
                    if matches!(d, Decision::DeliverThenReset) {
                        inj.detail = "deliver, then reset".into();
                        eps[e].handle.break_writes();
                    } else {
                        inj.detail = "deliver, then stop reading".into();
                        eps[e].handle.stall_writes();
                        // nothing more can be handed over until the endpoint gives up
                        eps[e].starved = p == 0;
                    }
                }
                Decision::Subst { from } => {
                    inj.bytes = src_bytes.unwrap();
                    inj.framed = true;
                    inj.class = class_of_subst(*from);
                    inj.detail = format!("substitute E{}.{}", from.ep, from.kind);
                }
                Decision::Mutate { m, .. } => {
                    let s = src_bytes.unwrap();
                    inj.bytes = mutate(&s, m, &cfg.peer_role, cfg.protocol);
                    inj.modified = inj.bytes != s;
                    inj.framed = true;
                    inj.class = if m.is_field() { 9 } else { 8 };
                    inj.detail = format!(
                        "mutate E{}.{} {}",
                        src.unwrap().ep,
                        src.unwrap().kind,
                        m.name()
                    );
                }
                Decision::Forge { f } => {
                    inj.source = None;
                    inj.modified = true;
                    inj.bytes = forge(f, &cfg.peer_role, cfg.protocol);
                    inj.framed = true;
                    inj.class = 10;
                    inj.detail = f.name().to_string();
                }
                Decision::Wire { fault, .. } => {
                    let s = src_bytes.unwrap();
                    inj.modified = true;
                    inj.class = 11;
                    inj.detail = format!("wire {}", fault.name());
                    let h = &eps[e].handle;
                    match fault {
                        WireFault::ShortThenSilence { keep } | WireFault::ShortThenClose { keep } => {
                            let k = if s.is_empty() { 0 } else { *keep as usize % s.len() };
                            h.push_raw(&(s.len() as u32).to_le_bytes());
                            h.push_raw(&s[..k]);
                            if matches!(fault, WireFault::ShortThenClose { .. }) {
                                h.close();
                            } else {
                                eps[e].starved = true;
                            }
                        }
                        WireFault::OversizeHeader => {
                            h.push_raw(&((tako::MAX_FRAME_SIZE as u32) + 1).to_le_bytes());
                            h.push_raw(&s);
                        }
                        WireFault::PartialHeaderThenClose { n } => {
                            let hdr = (s.len() as u32).to_le_bytes();
                            h.push_raw(&hdr[..(*n as usize).clamp(1, 3)]);
                            h.close();
                        }
                    }
                    inj.bytes = s;
                }
            }
            if inj.framed {
                eps[e].handle.push_frame(&inj.bytes);
            }
        }
        if self.verbose {
            let claim = if !inj.framed {
                String::new()
            } else if p == 0 {
                format!(" -> {}", describe_request(&inj.bytes))
            } else {
                format!(" -> {}", describe_response(&inj.bytes))
            };
            log.push(format!(
                "E{e} input {p} [{}]: {}{}{claim}",
                CLASSES[inj.class],
                inj.detail,
                if inj.modified { " (modified)" } else { "" }
            ));
        }
        eps[e].injected[p] = Some(inj);
        eps[e].n_injected += 1;
        advanced_ms
    }
}
