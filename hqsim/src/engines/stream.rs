//! Engine `stream` (see /verif/DESIGN.md section 5): property C19 "streamed task output reads
//! back complete, in order, and only from the last run".
//!
//! Real: `StreamerRef`/`Streamer::get_stream`/`StreamSender::{send_data, flush}`/`stream_writer`
//! (tokio `BufWriter<File>` on tmpfs) and the reader `OutputLog::{open, summary, cat, export}`.
//! Simulated: the task side (`resend_stdio`/`create_task_future` of worker/start/program.rs are
//! mirrored by hand-polled futures), worker crashes (file cuts), the scheduler.
//!
//! Process layout: the reader prints to the process-wide stdout, which is captured by
//! redirecting fd 1; therefore runs are sharded over child processes (`check` re-invokes the
//! binary with `HQSIM_STREAM_SHARD` set), every process is single-threaded apart from tokio's one
//! blocking thread.

mod capture;
mod model;
mod oracle;
mod run;

use std::collections::{BTreeMap, BTreeSet};
use std::path::{Path, PathBuf};
use std::process::Command;
use std::time::Instant;

use serde::{Deserialize, Serialize};

use crate::batch::{CheckArgs, load_known_findings, write_json};
use crate::sim::panic::catch;
use crate::sim::rng::mix;

use capture::{Capture, Scratch, install_tap, tap_clear, tap_len};
use model::{Config, Step, Trace};
use run::{Decider, Exec, Finding, Stats, generate};

/// Property ids this engine decides
pub const PROPERTIES: &[&str] = &["C19"];

const ENGINE_TAG: u64 = 2;
const PROPERTY_TAG: u64 = 19;
const QUICK_RUNS: u64 = 30_000;
const THOROUGH_RUNS: u64 = 1_000_000;
const SHARD_ENV: &str = "HQSIM_STREAM_SHARD";

struct Env {
    scratch: Scratch,
    cap: Capture,
}

impl Env {
    fn new() -> Result<Env, String> {
        install_tap();
        let scratch = Scratch::new().map_err(|e| format!("cannot create the tmpfs scratch directory: {e}"))?;
        let cap = Capture::new(&scratch).map_err(|e| format!("cannot create the capture file: {e}"))?;
        Ok(Env { scratch, cap })
    }
}

struct RunOutput {
    trace: Trace,
    findings: Vec<Finding>,
    harness_error: Option<String>,
    log_hash: u64,
    probes: BTreeMap<String, u64>,
    stats: Stats,
    lines: Vec<String>,
    abstract_state: u64,
    nontrivial: bool,
}

fn run_seed_of(verif_seed: u64, index: u64) -> u64 {
    mix(&[verif_seed, ENGINE_TAG, PROPERTY_TAG, index])
}

/// Executes one scenario (seeded or recorded). One current-thread runtime + LocalSet per run.
fn execute(cfg: &Config, decider: &mut Decider, env: &mut Env, verbose: bool) -> RunOutput {
    let dir = env.scratch.next_dir();
    let mut ex = Exec::new(cfg, dir.clone(), verbose);
    tap_clear();
    let rt = tokio::runtime::Builder::new_current_thread()
        .max_blocking_threads(1)
        .build();
    match rt {
        Ok(rt) => {
            let local = tokio::task::LocalSet::new();
            let r = catch(|| rt.block_on(local.run_until(ex.drive(decider))));
            ex.release();
            drop(local);
            drop(rt);
            match r {
                Ok(()) => {
                    if tap_len() > 0 {
                        ex.absorb_tap();
                    }
                }
                Err(p) => {
                    tap_clear();
                    ex.panic_finding(&p);
                }
            }
            if let Err(p) = catch(|| ex.finish(&mut env.cap)) {
                ex.panic_finding(&p);
            }
        }
        Err(e) => ex.harness(format!("cannot build the tokio runtime: {e}")),
    }
    env.scratch.remove(&dir);
    let nontrivial = ex.probes.contains_key("nontrivial");
    RunOutput {
        trace: Trace { config: cfg.clone(), steps: std::mem::take(&mut ex.trace) },
        findings: std::mem::take(&mut ex.findings),
        harness_error: ex.harness_error.take(),
        log_hash: ex.hash.0,
        probes: ex.probes.iter().map(|(k, v)| (k.to_string(), *v)).collect(),
        stats: ex.stats.clone(),
        lines: std::mem::take(&mut ex.lines),
        abstract_state: ex.abstract_state,
        nontrivial,
    }
}

fn execute_seed(seed: u64, env: &mut Env, verbose: bool) -> RunOutput {
    let (cfg, mut decider) = generate(seed);
    execute(&cfg, &mut decider, env, verbose)
}

fn execute_trace(trace: &Trace, env: &mut Env, verbose: bool) -> RunOutput {
    let mut d = Decider::Recorded { steps: trace.steps.clone(), pos: 0 };
    execute(&trace.config, &mut d, env, verbose)
}

/* ---------------------------------------------------------------------------------------- */
/* Shards                                                                                   */
/* ---------------------------------------------------------------------------------------- */

#[derive(Serialize, Deserialize, Clone, Debug)]
struct RunSummary {
    index: u64,
    seed: u64,
    log_hash: u64,
    nontrivial: bool,
    abstract_state: u64,
    steps: u64,
    chunks: u64,
    bytes_sent: u64,
    bytes_on_disk: u64,
    crashes: u64,
    files: u64,
    reader_calls: u64,
    trace_len: u64,
    /// (signature, message)
    findings: Vec<(String, String)>,
    harness: Option<String>,
}

#[derive(Serialize, Deserialize, Default, Debug)]
struct ShardOutput {
    runs: Vec<RunSummary>,
    probes: BTreeMap<String, u64>,
    probe_runs: BTreeMap<String, u64>,
    rechecked: u64,
    recheck_mismatch: u64,
}

fn summarize(index: u64, seed: u64, r: &RunOutput) -> RunSummary {
    let mut seen = BTreeSet::new();
    let mut findings = Vec::new();
    for f in &r.findings {
        if seen.insert(f.signature()) {
            findings.push((f.signature(), f.message.clone()));
        }
    }
    RunSummary {
        index,
        seed,
        log_hash: r.log_hash,
        nontrivial: r.nontrivial,
        abstract_state: r.abstract_state,
        steps: r.stats.steps,
        chunks: r.stats.chunks,
        bytes_sent: r.stats.bytes_sent,
        bytes_on_disk: r.stats.bytes_on_disk,
        crashes: r.stats.crashes,
        files: r.stats.files,
        reader_calls: r.stats.reader_calls,
        trace_len: r.trace.steps.len() as u64,
        findings,
        harness: r.harness_error.clone(),
    }
}

fn run_shard(args: &CheckArgs, spec: &str) -> i32 {
    let parts: Vec<&str> = spec.splitn(4, ':').collect();
    if parts.len() != 4 {
        eprintln!("bad {SHARD_ENV}");
        return 2;
    }
    let (j, jobs, total): (u64, u64, u64) = match (parts[0].parse(), parts[1].parse(), parts[2].parse()) {
        (Ok(a), Ok(b), Ok(c)) => (a, b, c),
        _ => return 2,
    };
    let out_path = PathBuf::from(parts[3]);
    let mut env = match Env::new() {
        Ok(e) => e,
        Err(e) => {
            eprintln!("HARNESS-ERROR: {e}");
            return 2;
        }
    };
    let mut out = ShardOutput::default();
    let mut index = j;
    let mut k = 0u64;
    while index < total {
        let seed = run_seed_of(args.seed, index);
        let r = execute_seed(seed, &mut env, false);
        for (p, v) in &r.probes {
            *out.probes.entry(p.clone()).or_default() += v;
            *out.probe_runs.entry(p.clone()).or_default() += 1;
        }
        let mut s = summarize(index, seed, &r);
        // determinism self-check: every 40th run of the shard is executed twice
        if k % 40 == 0 {
            let r2 = execute_seed(seed, &mut env, false);
            out.rechecked += 1;
            // (once the reader mis-parses a file its result may depend on the wall-clock
            // timestamps in the chunk headers: a run with findings is not held to this)
            if (r2.log_hash != r.log_hash || r2.probes != r.probes || r2.trace != r.trace)
                && r.findings.is_empty()
                && r2.findings.is_empty()
            {
                out.recheck_mismatch += 1;
                s.harness = Some(format!(
                    "two executions of seed {seed} differ (log {:016x} vs {:016x})",
                    r.log_hash, r2.log_hash
                ));
            }
        }
        out.runs.push(s);
        index += jobs;
        k += 1;
    }
    match std::fs::write(&out_path, serde_json::to_string(&out).unwrap()) {
        Ok(()) => 0,
        Err(e) => {
            eprintln!("HARNESS-ERROR: cannot write {}: {e}", out_path.display());
            2
        }
    }
}

/* ---------------------------------------------------------------------------------------- */
/* Minimisation                                                                             */
/* ---------------------------------------------------------------------------------------- */

fn fires(trace: &Trace, sig: &str, env: &mut Env) -> Option<RunOutput> {
    let r = execute_trace(trace, env, false);
    if r.harness_error.is_none() && r.findings.iter().any(|f| f.signature() == sig) {
        Some(r)
    } else {
        None
    }
}

fn step_refs(s: &Step, t: u32, i: Option<u32>) -> bool {
    match s {
        Step::Open { t: a, i: b } | Step::End { t: a, i: b } | Step::Send { t: a, i: b, .. } => {
            *a == t && i.map(|i| i == *b).unwrap_or(true)
        }
        _ => false,
    }
}

/// Drops tasks, instances, crashes, drains, chunks and shrinks sizes while `sig` still fires.
fn minimise(start: &Trace, sig: &str, env: &mut Env, budget: u32) -> (Trace, u32) {
    let mut best = start.clone();
    let mut used = 0u32;
    let attempt = |cand: Trace, best: &mut Trace, used: &mut u32, env: &mut Env| -> bool {
        if *used >= budget || cand == *best {
            return false;
        }
        *used += 1;
        if let Some(r) = fires(&cand, sig, env) {
            // keep the configuration of the candidate, the steps as executed
            *best = Trace { config: cand.config, steps: r.trace.steps };
            true
        } else {
            false
        }
    };
    loop {
        let before = best.clone();
        // tasks
        for t in best.config.tasks.iter().map(|t| t.id).collect::<Vec<_>>() {
            let mut c = best.clone();
            c.config.tasks.retain(|x| x.id != t);
            c.steps.retain(|s| !step_refs(s, t, None));
            attempt(c, &mut best, &mut used, env);
        }
        // instances
        for (t, i) in best.config.tasks.iter().flat_map(|t| t.instances.iter().map(move |i| (t.id, i.id))).collect::<Vec<_>>() {
            let mut c = best.clone();
            for task in c.config.tasks.iter_mut() {
                if task.id == t {
                    task.instances.retain(|x| x.id != i);
                }
            }
            c.config.tasks.retain(|x| !x.instances.is_empty());
            c.steps.retain(|s| !step_refs(s, t, Some(i)));
            attempt(c, &mut best, &mut used, env);
        }
        // workers without instances
        {
            let mut c = best.clone();
            let usedw: BTreeSet<u32> = c.config.tasks.iter().flat_map(|t| t.instances.iter().map(|i| i.worker)).collect();
            c.config.workers.retain(|w| usedw.contains(w));
            c.steps.retain(|s| !matches!(s, Step::Crash { w, .. } if !usedw.contains(w)));
            attempt(c, &mut best, &mut used, env);
        }
        // single crash / drain / end steps
        let mut k = 0;
        while k < best.steps.len() {
            if matches!(best.steps[k], Step::Crash { .. } | Step::Drain { .. } | Step::End { .. }) {
                let mut c = best.clone();
                c.steps.remove(k);
                if attempt(c, &mut best, &mut used, env) {
                    continue;
                }
            }
            k += 1;
        }
        // data chunks, in blocks
        let mut block = best.steps.iter().filter(|s| matches!(s, Step::Send { size, .. } if *size > 0)).count().max(1);
        while block >= 1 {
            let mut from = 0usize;
            loop {
                let idxs: Vec<usize> = best
                    .steps
                    .iter()
                    .enumerate()
                    .filter(|(_, s)| matches!(s, Step::Send { size, .. } if *size > 0))
                    .map(|(k, _)| k)
                    .collect();
                if from >= idxs.len() {
                    break;
                }
                let drop: BTreeSet<usize> = idxs[from..(from + block).min(idxs.len())].iter().copied().collect();
                let mut c = best.clone();
                c.steps = c.steps.iter().enumerate().filter(|(k, _)| !drop.contains(k)).map(|(_, s)| s.clone()).collect();
                if !attempt(c, &mut best, &mut used, env) {
                    from += block;
                }
                if used >= budget {
                    break;
                }
            }
            if block == 1 || used >= budget {
                break;
            }
            block /= 2;
        }
        // sizes
        {
            let mut c = best.clone();
            for s in c.steps.iter_mut() {
                if let Step::Send { size, .. } = s
                    && *size > 1
                {
                    *size = 1;
                }
            }
            if !attempt(c, &mut best, &mut used, env) {
                for k in 0..best.steps.len() {
                    if let Step::Send { size, .. } = &best.steps[k]
                        && *size > 1
                    {
                        let mut c = best.clone();
                        if let Step::Send { size, .. } = &mut c.steps[k] {
                            *size = 1;
                        }
                        attempt(c, &mut best, &mut used, env);
                    }
                }
            }
        }
        // plain reader configuration
        if !best.config.fresh_open || best.config.uid_filter {
            let mut c = best.clone();
            c.config.fresh_open = true;
            c.config.uid_filter = false;
            attempt(c, &mut best, &mut used, env);
        }
        if best == before || used >= budget {
            break;
        }
    }
    (best, used)
}

/* ---------------------------------------------------------------------------------------- */
/* Replay files                                                                             */
/* ---------------------------------------------------------------------------------------- */

#[derive(Serialize, Deserialize)]
struct ReplayFile {
    engine: String,
    property: String,
    seed: u64,
    signature: String,
    message: String,
    log_hash: String,
    minimised: bool,
    trace: Trace,
}

fn sig_tag(sig: &str) -> String {
    let s: String = sig.chars().map(|c| if c.is_ascii_alphanumeric() { c } else { '_' }).collect();
    s[..s.len().min(60)].to_string()
}

fn report_violation(args: &CheckArgs, first: &RunSummary, sig: &str, env: &mut Env) -> Result<PathBuf, String> {
    let r = execute_seed(first.seed, env, false);
    if r.log_hash != first.log_hash && r.trace.steps.len() as u64 != first.trace_len {
        return Err("re-execution of the seed executed a different step list".into());
    }
    if r.log_hash != first.log_hash {
        println!("NOTE: C19 {sig}: the observable log of seed {} differs between two executions (the reader's result depends on the wall-clock timestamps in the chunk headers); the step list is identical", first.seed);
    }
    if !r.findings.iter().any(|f| f.signature() == sig) {
        return Err("re-execution of the seed did not reproduce the finding".into());
    }
    // the recorded trace must reproduce it without the PRNG
    let base = fires(&r.trace, sig, env).ok_or("the recorded step list does not reproduce the finding")?;
    let base_trace = Trace { config: r.trace.config.clone(), steps: base.trace.steps.clone() };
    let (min, used) = minimise(&base_trace, sig, env, 400);
    let (trace, fin, minimised) = match fires(&min, sig, env) {
        Some(f) => (min, f, used > 0),
        None => (base_trace, base, false),
    };
    let message = fin.findings.iter().find(|f| f.signature() == sig).map(|f| f.message.clone()).unwrap_or_default();
    let file = ReplayFile {
        engine: "stream".into(),
        property: "C19".into(),
        seed: first.seed,
        signature: format!("C19 {sig}"),
        message,
        log_hash: format!("{:016x}", fin.log_hash),
        minimised,
        trace,
    };
    let dir = args.verif_dir.join("replays");
    std::fs::create_dir_all(&dir).map_err(|e| e.to_string())?;
    let path = dir.join(format!("C19-{}-{}.json", first.seed, sig_tag(sig)));
    std::fs::write(&path, serde_json::to_string_pretty(&file).unwrap()).map_err(|e| e.to_string())?;
    let exe = std::env::current_exe().map_err(|e| e.to_string())?;
    let out = Command::new(exe).arg("replay").arg(&path).env_remove(SHARD_ENV).output().map_err(|e| e.to_string())?;
    if out.status.code() != Some(1) {
        return Err(format!(
            "fresh-process replay of {} did not reproduce the violation (exit {:?})",
            path.display(),
            out.status.code()
        ));
    }
    Ok(path)
}

/// Replays a replay file written by this engine; exit code as for `check`.
pub fn replay(path: &Path, verbose: bool) -> i32 {
    let file: ReplayFile = match std::fs::read_to_string(path).map_err(|e| e.to_string()).and_then(|t| serde_json::from_str(&t).map_err(|e| e.to_string())) {
        Ok(f) => f,
        Err(e) => {
            eprintln!("cannot read {}: {e}", path.display());
            return 2;
        }
    };
    let mut env = match Env::new() {
        Ok(e) => e,
        Err(e) => {
            eprintln!("HARNESS-ERROR: {e}");
            return 2;
        }
    };
    let r = execute_trace(&file.trace, &mut env, verbose);
    if verbose {
        for l in &r.lines {
            println!("  {l}");
        }
    }
    for f in &r.findings {
        println!("FINDING C19 {} : {}", f.signature(), f.message);
    }
    if let Some(e) = &r.harness_error {
        eprintln!("HARNESS-ERROR: {e}");
        return 2;
    }
    let hit = r.findings.iter().find(|f| format!("C19 {}", f.signature()) == file.signature);
    match hit {
        Some(f) => {
            let h = format!("{:016x}", r.log_hash);
            println!("VIOLATION property={} replay={}", file.property, path.display());
            println!("  {} (log hash {h} {})", f.message, if h == file.log_hash { "== recorded" } else { "!= recorded" });
            1
        }
        None => {
            println!("replay of {} did not reproduce {}", path.display(), file.signature);
            0
        }
    }
}

/* ---------------------------------------------------------------------------------------- */
/* Check                                                                                    */
/* ---------------------------------------------------------------------------------------- */

fn sample(seed: u64, index: u64, env: &mut Env) -> serde_json::Value {
    let r = execute_seed(seed, env, true);
    let steps: Vec<String> = r.trace.steps.iter().take(40).map(|s| format!("{s:?}")).collect();
    let tail: Vec<&String> = r.lines.iter().filter(|l| l.starts_with("cat") || l.starts_with("summary") || l.starts_with("crash") || l.starts_with("discovery") || l.starts_with("export")).take(24).collect();
    serde_json::json!({
        "run_index": index,
        "seed": seed,
        "config": r.trace.config,
        "steps_total": r.trace.steps.len(),
        "first_steps": steps,
        "chunks": r.stats.chunks,
        "bytes_sent": r.stats.bytes_sent,
        "crashes": r.stats.crashes,
        "files": r.stats.files,
        "reader_and_fault_log": tail,
        "probes": r.probes,
        "log_hash": format!("{:016x}", r.log_hash),
    })
}

/// Runs the check of `args.property`; returns the process exit code (0 / 1 / 2).
pub fn check(args: &CheckArgs) -> i32 {
    if let Ok(spec) = std::env::var(SHARD_ENV) {
        return run_shard(args, &spec);
    }
    if args.property != "C19" {
        eprintln!("engine stream: unknown property {}", args.property);
        return 2;
    }
    let start = Instant::now();
    let thorough = args.tier == "thorough";
    let total = args.runs_override.unwrap_or(if thorough { THOROUGH_RUNS } else { QUICK_RUNS });
    let jobs = args.jobs.max(1).min(total.max(1));
    let mut env = match Env::new() {
        Ok(e) => e,
        Err(e) => {
            eprintln!("HARNESS-ERROR: {e}");
            return 2;
        }
    };
    let exe = match std::env::current_exe() {
        Ok(e) => e,
        Err(e) => {
            eprintln!("HARNESS-ERROR: {e}");
            return 2;
        }
    };
    let shard_dir = env.scratch.root.join("shards");
    let _ = std::fs::create_dir_all(&shard_dir);
    let mut children = Vec::new();
    for j in 0..jobs {
        let out = shard_dir.join(format!("shard{j}.json"));
        let child = Command::new(&exe)
            .arg("check")
            .arg("--property")
            .arg("C19")
            .arg("--tier")
            .arg(&args.tier)
            .arg("--seed")
            .arg(args.seed.to_string())
            .arg("--jobs")
            .arg("1")
            .arg("--verif-dir")
            .arg(&args.verif_dir)
            .env("VERIF_SEED", args.seed.to_string())
            .env(SHARD_ENV, format!("{j}:{jobs}:{total}:{}", out.display()))
            .spawn();
        match child {
            Ok(c) => children.push((c, out)),
            Err(e) => {
                eprintln!("HARNESS-ERROR: cannot start a shard process: {e}");
                return 2;
            }
        }
    }
    let mut runs: Vec<RunSummary> = Vec::new();
    let mut probes: BTreeMap<String, u64> = BTreeMap::new();
    let mut probe_runs: BTreeMap<String, u64> = BTreeMap::new();
    let mut rechecked = 0;
    let mut recheck_mismatch = 0;
    let mut harness_errors = 0u64;
    for (mut c, out) in children {
        let ok = c.wait().map(|s| s.success()).unwrap_or(false);
        let shard: Option<ShardOutput> = std::fs::read_to_string(&out).ok().and_then(|t| serde_json::from_str(&t).ok());
        match (ok, shard) {
            (true, Some(s)) => {
                runs.extend(s.runs);
                for (k, v) in s.probes {
                    *probes.entry(k).or_default() += v;
                }
                for (k, v) in s.probe_runs {
                    *probe_runs.entry(k).or_default() += v;
                }
                rechecked += s.rechecked;
                recheck_mismatch += s.recheck_mismatch;
            }
            _ => {
                eprintln!("HARNESS-ERROR: a shard process failed ({})", out.display());
                harness_errors += 1;
            }
        }
    }
    runs.sort_by_key(|r| r.index);
    let shards_wall = start.elapsed().as_secs_f64();

    // ---- verdict
    let known = load_known_findings(&args.verif_dir.join("known_findings.txt"));
    let mut by_sig: BTreeMap<String, (u64, RunSummary, String)> = BTreeMap::new();
    for r in &runs {
        if let Some(h) = &r.harness {
            harness_errors += 1;
            if harness_errors <= 5 {
                eprintln!("HARNESS-ERROR: run {} seed {}: {h}", r.index, r.seed);
            }
        }
        for (sig, msg) in &r.findings {
            let e = by_sig.entry(sig.clone()).or_insert((0, r.clone(), msg.clone()));
            e.0 += 1;
        }
    }
    let mut exit = 0;
    let mut known_hit: Vec<String> = Vec::new();
    let mut violations: Vec<serde_json::Value> = Vec::new();
    for (sig, (count, first, msg)) in &by_sig {
        if let Some(k) = known.iter().find(|k| k.property == "C19" && k.signature == *sig) {
            println!("KNOWN-FINDING: property=C19 signature={sig} {} ({count} runs, e.g. seed {})", k.text, first.seed);
            known_hit.push(sig.clone());
            continue;
        }
        match report_violation(args, first, sig, &mut env) {
            Ok(p) => {
                println!("VIOLATION property=C19 replay={}", p.display());
                println!("  signature={sig} runs={count} first_seed={} : {msg}", first.seed);
                violations.push(serde_json::json!({"signature": sig, "runs": count, "seed": first.seed, "replay": p, "message": msg}));
                exit = 1;
            }
            Err(e) => {
                eprintln!("HARNESS-ERROR: cannot reproduce C19 {sig} from seed {}: {e}", first.seed);
                harness_errors += 1;
            }
        }
    }

    // ---- evidence
    let nontrivial: Vec<&RunSummary> = runs.iter().filter(|r| r.nontrivial).collect();
    let distinct_nontrivial: BTreeSet<u64> = nontrivial.iter().map(|r| r.log_hash).collect();
    let distinct_all: BTreeSet<u64> = runs.iter().map(|r| r.log_hash).collect();
    let states: BTreeSet<u64> = runs.iter().map(|r| r.abstract_state).collect();
    let digest = format!("{:016x}", mix(&runs.iter().map(|r| r.log_hash).collect::<Vec<_>>()));
    let samples: Vec<serde_json::Value> = runs.iter().filter(|r| r.nontrivial).take(3).map(|r| sample(r.seed, r.index, &mut env)).collect();
    let sum = |f: fn(&RunSummary) -> u64| runs.iter().map(f).sum::<u64>();
    let wall = start.elapsed().as_secs_f64();
    let crashes = sum(|r| r.crashes);
    let cut_kinds: BTreeMap<String, u64> = probes.iter().filter(|(k, _)| k.starts_with("cut_")).map(|(k, v)| (k.clone(), *v)).collect();
    let mut faults: BTreeMap<String, u64> = BTreeMap::new();
    faults.insert("worker_process_crash".into(), crashes);
    faults.insert("task_stopped_before_eof".into(), probes.get("ended_by_stop_path").copied().unwrap_or(0));
    for (k, v) in &cut_kinds {
        faults.insert(format!("crash_{k}"), *v);
    }
    let evidence = serde_json::json!({
        "property_id": "C19",
        "tier": if thorough { "thorough" } else { "quick" },
        "seed": args.seed,
        "level": "exploration",
        "coverage": {
            "evaluations": runs.len(),
            "distinct_nontrivial": distinct_nontrivial.len(),
            "rule": "one run = seeded configuration (1-3 workers = real StreamerRefs with their own worker id writing into one tmpfs directory, 1-8 tasks x 1-3 instances on distinct workers, stdout/stderr/both streamed) + seeded schedule of open/send/end/drain/crash steps executed against the real streamer, followed by summary/cat/export of the real OutputLog; non-trivial = at least one task whose last instance is completely stored was read back with a non-empty channel and compared byte for byte; distinct = distinct hash of the observable log (steps with admitted/blocked outcome, file lengths at every quiescent point, crash cuts, file discovery order, every reader result with length and content hash)",
            "samples": samples,
            "distinct_observable_logs": distinct_all.len(),
            "log_digest": digest,
            "nontrivial_runs": nontrivial.len(),
            "runs_per_hour": (runs.len() as f64 / wall * 3600.0) as u64,
            "runs_per_hour_shards_only": (runs.len() as f64 / shards_wall.max(1e-9) * 3600.0) as u64,
            "seeds": {"verif_seed": args.seed, "first_run_seed": runs.first().map(|r| r.seed), "last_run_seed": runs.last().map(|r| r.seed)},
            "steps_total": sum(|r| r.steps),
            "chunks_written": sum(|r| r.chunks),
            "bytes_sent": sum(|r| r.bytes_sent),
            "bytes_in_files_when_read": sum(|r| r.bytes_on_disk),
            "stream_files_written": sum(|r| r.files),
            "reader_calls": sum(|r| r.reader_calls),
            "simulated_time_s": 0,
            "time_model": "the code under test has no timers; the chunk timestamps are the real clock and are neither compared nor hashed",
            "faults_injected": faults,
            "probes": probes,
            "runs_with_probe": probe_runs,
            "distinct_states": states.len(),
            "abstract_state_measure": "hash of (files, crashed workers, sorted per-task (instances visible in the files, last instance complete / half closed / partial / absent), back-pressure seen)",
            "determinism": {
                "runs_executed_twice": rechecked,
                "mismatches": recheck_mismatch,
                "simulator_chosen": "which lane sends next, chunk sizes, when the writers run (only at drain/open/crash steps, always until idle), poll order of blocked futures, crash points and cut bytes, order of first opens (= file creation order = reverse discovery order on tmpfs)",
                "tokio_chosen_deterministic": "order in which the writer tasks of different workers are polled inside one settle (LocalSet FIFO) and the FIFO order of the single blocking thread; permits of the bounded queue are handed to blocked senders in FIFO order by tokio's semaphore; none of these depends on thread timing because every settle runs until all writers are idle",
                "excluded_from_log": "file names (rand::rng() in stream_writer) and chunk timestamps (Utc::now())"
            },
            "observations": [{
                "what": "OutputLog marks an instance finished at the first closing chunk of EITHER channel (create_index: `else { instance.finished = true }`): while the other channel is still streaming (or was cut by a crash) `summary` does not count the stream as opened and `cat` without --allow-unfinished succeeds with the incomplete channel. Outside the statement of C19 (the task has not ended), contradicts docs/jobs/streaming.md ('this command will fail if there is an unfinished stream'); counted, not reported as a violation",
                "runs": probe_runs.get("partial_instance_reported_finished").copied().unwrap_or(0),
                "minimal_example": "Open{t,i}; Send{ch:1,size:0}; Send{ch:0,size:13130}; read: summary opened=0, cat stdout ok"
            }],
            "components": components(),
            "known_findings_hit": known_hit,
            "violations_detail": violations,
        },
        "assumptions": [
            "instances of one task run on distinct workers (tako increments the instance id only when the worker is lost and never reuses a worker id), hence in distinct files; instance ids grow, may have gaps",
            "a task produces chunks of 1..16384 bytes (read buffer of resend_stdio), one closing empty chunk per streamed channel, then flush; 1/8 of the runs also use larger chunks (up to 40000 bytes), which the real task code cannot produce",
            "worker process crash = the file keeps any byte length between the last acknowledged flush and what had reached the OS; the tail in the BufWriter and in the queue is lost; nothing is appended afterwards",
            "quiescence of the writer task is detected through a model of tokio 1.52 BufWriter (8 KiB) and fs::File; the model is validated on every run (file length at every quiescent point, full parse of every file with an independent decoder)",
            "the reader is called in-process (OutputLog::open + summary/cat/export as client/commands/outputlog.rs does) with fd 1 redirected into a tmpfs file; the clap layer and the summary table printer are not exercised",
            "stream files of one server uid only; `show` (ordering by wall-clock timestamps) and `jobs` are not checked",
            "sampling, not proof: a clean batch is evidence for the explored schedules only"
        ],
        "wall_s": wall,
        "violations": violations.len(),
    });
    write_json(&args.verif_dir.join("evidence").join("C19.json"), &evidence);
    println!(
        "C19: {} runs ({} non-trivial, {} distinct), {} steps, {} chunks, {} bytes sent, {} crashes, {} abstract states, log digest {}, {:.1}s wall; violations={} known={} harness_errors={}",
        runs.len(),
        nontrivial.len(),
        distinct_nontrivial.len(),
        sum(|r| r.steps),
        sum(|r| r.chunks),
        sum(|r| r.bytes_sent),
        crashes,
        states.len(),
        digest,
        wall,
        violations.len(),
        known_hit.len(),
        harness_errors
    );
    if harness_errors > 0 {
        return 2;
    }
    exit
}

fn components() -> serde_json::Value {
    serde_json::json!({
        "real": [
            "hyperqueue::worker::streamer: StreamerRef::new, Streamer::get_stream (directory creation, spawn_local of the writer), StreamSender::send_data / flush, stream_writer (bounded mpsc queue of 128, bincode headers, tokio BufWriter<fs::File>) on a real tmpfs directory",
            "tokio current-thread runtime + LocalSet + blocking pool (1 thread), tokio::sync::mpsc / oneshot",
            "hyperqueue::stream::reader::outputlog::OutputLog::{open, create_index, summary, cat, export} with the option structs of client/commands/outputlog.rs",
            "transfer::stream::StreamChunkHeader and the file header as serialised by the writer"
        ],
        "stub": [
            "the task side: child process, pipes and resend_stdio/create_task_future of worker/start/program.rs are mirrored (per channel: data chunks then one empty chunk; after both: flush; stop path: lanes dropped, then flush)",
            "worker process crash (file truncation at a chosen byte after the run) and the server's re-execution of the task with a larger instance id on another worker",
            "hq command line parsing and the summary table printer (OutputLog is called directly, stdout captured through fd 1)"
        ]
    })
}
