pub mod alloc;
pub mod auth;
pub mod autoalloc;
pub mod cluster;
pub mod stream;
