pub mod cluster;
