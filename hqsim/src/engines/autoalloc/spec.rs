//! Step language of the autoalloc engine. A run is a list of `Step`s; executing the list needs no
//! PRNG (replay, shrinking).

use serde::{Deserialize, Serialize};

/// Worker shape: `cpus` as an index range, the others as sum resources (units)
#[derive(Debug, Clone, Serialize, Deserialize, PartialEq, Eq)]
pub struct Shape {
    pub cpus: u32,
    pub extra: Vec<(String, u32)>,
}

#[derive(Debug, Clone, Serialize, Deserialize, PartialEq, Eq)]
pub struct QueueSpec {
    pub slurm: bool,
    pub backlog: u32,
    pub max_workers_per_alloc: u32,
    pub max_worker_count: Option<u32>,
    pub timelimit_s: u64,
    /// percent
    pub min_utilization: u8,
    /// `--cpus/--resource` given on the command line of `hq alloc add` (partial knowledge)
    pub cli_shape: Option<Shape>,
    /// worker resources handed over with the queue (restored queue)
    pub known_shape: Option<Shape>,
}

/// Resource request of the tasks of one job (one variant; compact policy or `all`)
#[derive(Debug, Clone, Serialize, Deserialize, PartialEq, Eq)]
pub struct Rq {
    pub n_nodes: u32,
    pub cpus: u32,
    /// `all` policy on cpus
    pub all_cpus: bool,
    pub extra: Option<(String, u32)>,
    pub min_time_s: u64,
}

#[derive(Debug, Clone, Copy, Serialize, Deserialize, PartialEq, Eq)]
pub enum SubmitOutcome {
    Ok,
    /// the batch system rejected the submission (directory was created)
    Rejected,
    /// not even the directory could be created
    NoDirectory,
}

#[derive(Debug, Clone, Copy, Serialize, Deserialize, PartialEq, Eq)]
pub enum Ext {
    Queued,
    Running,
    Finished,
    Failed,
}

#[derive(Debug, Clone, Copy, Serialize, Deserialize, PartialEq, Eq)]
pub enum ReportMode {
    /// what the batch system really knows
    Truth,
    /// the status of this allocation cannot be determined
    Error,
    /// the allocation is not mentioned in the answer
    Missing,
    /// a stale / contradictory answer
    Lie(Ext),
}

#[derive(Debug, Clone, Copy, Serialize, Deserialize, PartialEq, Eq)]
pub enum Reason {
    Stopped,
    ConnectionLost,
    HeartbeatLost,
    IdleTimeout,
    TimeLimitReached,
}

#[derive(Debug, Clone, Serialize, Deserialize, PartialEq, Eq)]
pub enum Ask {
    Queues,
    Allocations(u32),
    Allocation(String),
}

#[derive(Debug, Clone, Serialize, Deserialize, PartialEq, Eq)]
pub enum Step {
    AddQueue(QueueSpec),
    /// `count` new tasks of job `job` (the first use of a job fixes its request)
    Tasks { job: u32, count: u32, rq: Rq },
    CancelJob { job: u32 },
    /// a worker that is not managed by autoalloc joins / leaves the tako core
    CoreWorker {
        key: u32,
        shape: Shape,
        /// worker group: 0 = "default", n = "g<n>" (multi-node tasks need workers of one group)
        #[serde(default)]
        group: u32,
    },
    CoreWorkerGone { key: u32 },
    JobSubmitted { job: u32 },
    /// scheduling tick (`perform_submits` if a queue is active)
    Tick,
    /// periodic refresh (`do_periodic_update` if a queue is active)
    Refresh,
    Advance { secs: u64 },
    /// outcomes of the next submissions of the queue (afterwards: Ok)
    SubmitPlan { queue: u32, outcomes: Vec<SubmitOutcome> },
    Report { alloc: String, mode: ReportMode },
    StatusCallFails { queue: u32, on: bool },
    RemoveFails { queue: u32, on: bool },
    /// the batch system starts / ends the allocation
    BatchStart { alloc: String },
    BatchEnd { alloc: String, failed: bool },
    Connect { alloc: String, worker: u32, shape: Shape },
    Lost { alloc: String, worker: u32, reason: Reason, lifetime_s: u64 },
    Pause { queue: u32 },
    Resume { queue: u32 },
    Remove { queue: u32, force: bool },
    Ask(Ask),
}

impl Step {
    pub fn kind(&self) -> &'static str {
        match self {
            Step::AddQueue(_) => "add-queue",
            Step::Tasks { .. } => "tasks",
            Step::CancelJob { .. } => "cancel-job",
            Step::CoreWorker { .. } => "core-worker",
            Step::CoreWorkerGone { .. } => "core-worker-gone",
            Step::JobSubmitted { .. } => "job-submitted",
            Step::Tick => "tick",
            Step::Refresh => "refresh",
            Step::Advance { .. } => "advance",
            Step::SubmitPlan { .. } => "submit-plan",
            Step::Report { .. } => "report-mode",
            Step::StatusCallFails { .. } => "status-call-fails",
            Step::RemoveFails { .. } => "remove-fails",
            Step::BatchStart { .. } => "batch-start",
            Step::BatchEnd { .. } => "batch-end",
            Step::Connect { .. } => "connect",
            Step::Lost { .. } => "lost",
            Step::Pause { .. } => "pause",
            Step::Resume { .. } => "resume",
            Step::Remove { .. } => "remove",
            Step::Ask(_) => "ask",
        }
    }
}
