//! Oracles of the autoalloc engine (C17: limits, demand, back-off, pause/resume; C18: allocation
//! lifecycle and worker accounting). Written from the property statements and the user
//! documentation (docs/deployment/allocation.md); the reference model below is driven only by the
//! steps the simulator injected and by what the simulated batch system was asked / answered.

use std::collections::{BTreeMap, BTreeSet};

use super::spec::*;
use super::world::*;

/// Documented back-off levels (config.rs: 0, 1 min, 15 min, 30 min, 1 h)
pub const DELAYS_S: [u64; 5] = [0, 60, 900, 1800, 3600];
/// docs/deployment/allocation.md, "Rate limits"
pub const MAX_SUBMISSION_FAILS: u64 = 10;
pub const MAX_ALLOCATION_FAILS: u64 = 3;
/// A lost worker counts as crashed if it lived at most this long and was lost by a failure
pub const CRASH_LIFETIME_S: u64 = 60;

#[derive(Debug, Clone, serde::Serialize, serde::Deserialize)]
pub struct Finding {
    pub property: String,
    pub oracle: String,
    pub key: String,
    pub message: String,
    pub step: usize,
}

impl Finding {
    pub fn signature(&self) -> String {
        format!("{}@{}", self.oracle, self.key)
    }
}

#[derive(Debug, Clone)]
struct MAlloc {
    queue: u32,
    target: u64,
    rank: Rank,
    connected: BTreeSet<u32>,
    /// worker -> crashed (latest notification wins), only losses seen while running
    lost: BTreeMap<u32, bool>,
    started_events: u32,
    finished_events: u32,
}

#[derive(Debug, Clone)]
struct MQueue {
    user_paused: bool,
    /// Some(kind) once a failure limit was reached; silent until resumed
    auto: Option<&'static str>,
    /// kind of pause that the last resume ended
    resumed: Option<&'static str>,
    sub_fails: u64,
    alloc_fails: u64,
    level: usize,
    last_attempt: Option<u64>,
    honest: bool,
}

pub struct Checker {
    queues: BTreeMap<u32, MQueue>,
    allocs: BTreeMap<String, MAlloc>,
    jobs: BTreeMap<u32, Rq>,
    pub findings: Vec<Finding>,
    pub probes: BTreeMap<&'static str, u64>,
    pub faults: BTreeMap<&'static str, u64>,
    step: usize,
}

fn fits(q: &QSnap, rq: &Rq) -> bool {
    if rq.min_time_s > q.timelimit_s {
        return false;
    }
    if rq.n_nodes > 0 {
        return rq.n_nodes <= q.max_workers_per_alloc;
    }
    // None = unknown amount (anything may fit)
    let amount = |name: &str| -> Option<u64> {
        if let Some(k) = &q.known {
            Some(*k.get(name).unwrap_or(&0))
        } else if let Some(c) = &q.cli {
            c.get(name).copied()
        } else {
            None
        }
    };
    let cpus_ok = match amount("cpus") {
        None => true,
        Some(a) => {
            if rq.all_cpus {
                a > 0
            } else {
                a >= rq.cpus.max(1) as u64 * 10_000
            }
        }
    };
    let extra_ok = match &rq.extra {
        None => true,
        Some((name, units)) => match amount(name) {
            None => true,
            Some(a) => a >= (*units).max(1) as u64 * 10_000,
        },
    };
    cpus_ok && extra_ok
}

impl Checker {
    pub fn new() -> Self {
        Checker {
            queues: BTreeMap::new(),
            allocs: BTreeMap::new(),
            jobs: BTreeMap::new(),
            findings: Vec::new(),
            probes: BTreeMap::new(),
            faults: BTreeMap::new(),
            step: 0,
        }
    }

    fn probe(&mut self, name: &'static str) {
        *self.probes.entry(name).or_insert(0) += 1;
    }

    fn fault(&mut self, name: &'static str) {
        *self.faults.entry(name).or_insert(0) += 1;
    }

    fn find(&mut self, property: &str, oracle: &str, key: impl Into<String>, message: String) {
        let f = Finding {
            property: property.to_string(),
            oracle: oracle.to_string(),
            key: key.into(),
            message,
            step: self.step,
        };
        if !self
            .findings
            .iter()
            .any(|g| g.property == f.property && g.signature() == f.signature())
        {
            self.findings.push(f);
        }
    }

    pub fn panic(&mut self, idx: usize, property: &str, location: &str, message: &str) {
        self.step = idx;
        self.find(
            property,
            "panic",
            location.to_string(),
            format!("panic in repository code at {location}: {message}"),
        );
    }

    fn demand(&self, q: &QSnap, core: &CoreView, with_prefilled: bool) -> bool {
        let jobs = core
            .ready
            .keys()
            .chain(if with_prefilled {
                Some(core.prefilled.keys())
            } else {
                None
            }
            .into_iter()
            .flatten());
        for job in jobs {
            if let Some(rq) = self.jobs.get(job)
                && fits(q, rq)
            {
                return true;
            }
        }
        false
    }

    fn limiter_event(&mut self, queue: u32, success: bool) {
        if let Some(q) = self.queues.get_mut(&queue) {
            if success {
                q.alloc_fails = 0;
                q.level = 0;
            } else {
                q.alloc_fails += 1;
                q.level = (q.level + 1).min(DELAYS_S.len() - 1);
            }
        }
    }

    pub fn after_step(&mut self, idx: usize, step: &Step, obs: &StepObs) {
        self.step = idx;
        let before = &obs.before;
        let after = &obs.after;

        /* ---------------- what the step is allowed to touch ---------------- */
        let mut removed_queue: Option<u32> = None;
        // allocation whose state may change in this step (Connect / Lost of a known allocation)
        let mut touched: Option<String> = None;
        let mut must_be_unchanged: Option<&'static str> = None;

        match step {
            Step::AddQueue(_) => {
                if let Resp::Added(Ok(id)) = &obs.resp {
                    self.queues.insert(
                        *id,
                        MQueue {
                            user_paused: false,
                            auto: None,
                            resumed: None,
                            sub_fails: 0,
                            alloc_fails: 0,
                            level: 0,
                            last_attempt: None,
                            honest: true,
                        },
                    );
                    if !obs.events.contains(&Ev::QueueCreated(*id)) {
                        self.find(
                            "C18",
                            "queue-creation-not-announced",
                            "",
                            format!("queue {id} was created without an AllocationQueueCreated event"),
                        );
                    }
                }
            }
            Step::Tasks { job, rq, .. } => {
                self.jobs.entry(*job).or_insert_with(|| rq.clone());
                must_be_unchanged = Some("tasks");
            }
            Step::CancelJob { .. } => must_be_unchanged = Some("cancel-job"),
            Step::CoreWorker { .. } | Step::CoreWorkerGone { .. } => {
                must_be_unchanged = Some("core-worker")
            }
            Step::JobSubmitted { .. } => must_be_unchanged = Some("job-submitted"),
            Step::Advance { .. } => must_be_unchanged = Some("advance"),
            Step::SubmitPlan { outcomes, .. } => {
                if outcomes.iter().any(|o| *o != SubmitOutcome::Ok) {
                    self.fault("submit-failures-planned");
                }
                must_be_unchanged = Some("environment");
            }
            Step::Report { alloc, mode } => {
                if *mode != ReportMode::Truth
                    && let Some(a) = self.allocs.get(alloc)
                    && let Some(q) = self.queues.get_mut(&a.queue)
                {
                    q.honest = false;
                }
                must_be_unchanged = Some("environment");
            }
            Step::StatusCallFails { queue, on } => {
                if *on && let Some(q) = self.queues.get_mut(queue) {
                    q.honest = false;
                }
                must_be_unchanged = Some("environment");
            }
            Step::RemoveFails { .. } | Step::BatchStart { .. } | Step::BatchEnd { .. } => {
                must_be_unchanged = Some("environment")
            }
            Step::Ask(_) => must_be_unchanged = Some("ask"),
            Step::Pause { queue } => match &obs.resp {
                Resp::Unit(Ok(())) => {
                    if let Some(q) = self.queues.get_mut(queue) {
                        q.user_paused = true;
                    }
                    self.probe("pause-accepted");
                }
                _ => must_be_unchanged = Some("pause-rejected"),
            },
            Step::Resume { queue } => match &obs.resp {
                Resp::Unit(Ok(())) => {
                    let mut resumed_auto = false;
                    if let Some(q) = self.queues.get_mut(queue) {
                        let was_paused = before.queue(*queue).map(|s| s.paused).unwrap_or(false);
                        if was_paused {
                            q.resumed = Some(if q.auto.is_some() { "auto" } else { "user" });
                            resumed_auto = q.auto.is_some();
                        }
                        q.user_paused = false;
                        // "Resuming a paused queue [...] makes it submit again": the failure
                        // streaks that paused it (or that built up while it was paused) are over
                        if was_paused {
                            q.auto = None;
                            q.sub_fails = 0;
                            q.alloc_fails = 0;
                        }
                    }
                    if resumed_auto {
                        self.probe("resume-after-automatic-pause");
                    } else {
                        self.probe("resume-accepted");
                    }
                }
                _ => must_be_unchanged = Some("resume-rejected"),
            },
            Step::Remove { queue, force } => {
                let existed = before.queue(*queue);
                match (&obs.resp, existed) {
                    (Resp::Unit(Ok(())), Some(qb)) => {
                        removed_queue = Some(*queue);
                        let has_running = qb.allocs.iter().any(|a| a.rank == 1);
                        if has_running && !*force {
                            self.find(
                                "C18",
                                "removal-not-refused",
                                "",
                                format!("queue {queue} with a running allocation was removed without force"),
                            );
                        }
                        if has_running {
                            self.probe("forced-removal-with-running-allocation");
                        }
                        // each active allocation is cancelled exactly once, nothing else
                        let mut expected: Vec<String> = qb
                            .allocs
                            .iter()
                            .filter(|a| a.rank <= 1)
                            .map(|a| a.id.clone())
                            .collect();
                        expected.sort();
                        let mut got: Vec<String> = obs
                            .calls
                            .iter()
                            .filter_map(|c| match c {
                                Call::Remove { alloc, .. } => Some(alloc.clone()),
                                _ => None,
                            })
                            .collect();
                        got.sort();
                        if expected != got {
                            self.find(
                                "C18",
                                "queue-removal-cancels",
                                if got.len() > expected.len() {
                                    "too-many"
                                } else if got.len() < expected.len() {
                                    "too-few"
                                } else {
                                    "wrong-allocations"
                                },
                                format!(
                                    "removing queue {queue}: active allocations {expected:?}, cancelled {got:?}"
                                ),
                            );
                        }
                        if after.queue(*queue).is_some() {
                            self.find(
                                "C18",
                                "queue-not-forgotten",
                                "",
                                format!("queue {queue} still exists after its removal"),
                            );
                        }
                        if !obs.events.contains(&Ev::QueueRemoved(*queue)) {
                            self.find(
                                "C18",
                                "queue-removal-not-announced",
                                "",
                                format!("queue {queue} was removed without an AllocationQueueRemoved event"),
                            );
                        }
                        self.queues.remove(queue);
                        self.allocs.retain(|_, a| a.queue != *queue);
                    }
                    (Resp::Unit(Ok(())), None) => {
                        self.find(
                            "C18",
                            "removal-of-unknown-queue-accepted",
                            "",
                            format!("removal of the unknown queue {queue} was accepted"),
                        );
                    }
                    (_, Some(qb)) => {
                        let has_running = qb.allocs.iter().any(|a| a.rank == 1);
                        if !has_running || *force {
                            self.find(
                                "C18",
                                "removal-refused",
                                if *force { "forced" } else { "no-running-allocation" },
                                format!("removal of queue {queue} was refused: {:?}", obs.resp),
                            );
                        } else {
                            self.probe("removal-refused-running-allocation");
                        }
                        must_be_unchanged = Some("removal-refused");
                    }
                    (_, None) => must_be_unchanged = Some("removal-of-unknown-queue"),
                }
            }
            Step::Connect { alloc, worker, .. } => {
                let known = self.allocs.get(alloc).map(|a| a.queue);
                match known {
                    Some(queue) => {
                        touched = Some(alloc.clone());
                        let truth_running = true;
                        let _ = truth_running;
                        let a = self.allocs.get_mut(alloc).unwrap();
                        match a.rank {
                            0 => {
                                a.connected.insert(*worker);
                            }
                            1 => {
                                if a.connected.contains(worker) {
                                    *self.faults.entry("duplicate-connect").or_insert(0) += 1;
                                } else if a.connected.len() as u64 >= a.target {
                                    *self.faults.entry("extra-worker-beyond-target").or_insert(0) += 1;
                                }
                                if a.lost.contains_key(worker) {
                                    *self.faults.entry("connect-after-loss").or_insert(0) += 1;
                                }
                                a.connected.insert(*worker);
                            }
                            _ => {
                                *self.faults.entry("connect-to-finished-allocation").or_insert(0) += 1;
                            }
                        }
                        let _ = queue;
                    }
                    None => {
                        self.fault("connect-from-unknown-allocation");
                        must_be_unchanged = Some("unknown-allocation");
                    }
                }
            }
            Step::Lost {
                alloc,
                worker,
                reason,
                lifetime_s,
            } => {
                if self.allocs.contains_key(alloc) {
                    touched = Some(alloc.clone());
                    let crashed = matches!(reason, Reason::ConnectionLost | Reason::HeartbeatLost)
                        && *lifetime_s <= CRASH_LIFETIME_S;
                    let a = self.allocs.get_mut(alloc).unwrap();
                    match a.rank {
                        0 => {
                            *self.faults.entry("loss-before-allocation-started").or_insert(0) += 1;
                        }
                        1 => {
                            if a.lost.contains_key(worker) {
                                *self.faults.entry("duplicate-loss").or_insert(0) += 1;
                            }
                            if !a.connected.remove(worker) {
                                *self.faults.entry("loss-before-connect").or_insert(0) += 1;
                            }
                            a.lost.insert(*worker, crashed);
                        }
                        _ => {
                            *self.faults.entry("loss-from-finished-allocation").or_insert(0) += 1;
                        }
                    }
                } else {
                    self.fault("loss-from-unknown-allocation");
                    must_be_unchanged = Some("unknown-allocation");
                }
            }
            Step::Tick | Step::Refresh => {}
        }

        /* ---------------- steps that must not change the autoalloc state ---------------- */
        if let Some(kind) = must_be_unchanged {
            if before != after {
                self.find(
                    if kind == "unknown-allocation" || kind.starts_with("removal") {
                        "C18"
                    } else {
                        "C17"
                    },
                    "state-changed",
                    kind,
                    format!(
                        "step {:?} must not change the autoalloc state\n before: {:?}\n after: {:?}",
                        step, before, after
                    ),
                );
            }
            if !obs.events.is_empty() {
                self.find(
                    "C18",
                    "unexpected-event",
                    kind,
                    format!("step {:?} emitted {:?}", step, obs.events),
                );
            }
            if !obs.calls.is_empty() {
                self.find(
                    "C17",
                    "unexpected-batch-call",
                    kind,
                    format!("step {:?} called the batch system: {:?}", step, obs.calls),
                );
            }
        }

        /* ---------------- batch system calls ---------------- */
        let is_tick = matches!(step, Step::Tick);
        let is_refresh = matches!(step, Step::Refresh);
        for call in &obs.calls {
            match call {
                Call::Submit { .. } if !is_tick => {
                    self.find(
                        "C17",
                        "submit-outside-scheduling-tick",
                        step.kind(),
                        format!("{call:?} during {step:?}"),
                    );
                }
                Call::Status { .. } if !is_refresh => {
                    self.find(
                        "C17",
                        "status-query-outside-refresh",
                        step.kind(),
                        format!("{call:?} during {step:?}"),
                    );
                }
                Call::Remove { .. } if removed_queue.is_none() => {
                    self.find(
                        "C18",
                        "cancel-outside-queue-removal",
                        step.kind(),
                        format!("{call:?} during {step:?}"),
                    );
                }
                _ => {}
            }
        }

        if is_tick {
            self.check_tick(obs);
        }

        /* ---------------- new allocations ---------------- */
        let mut submitted: BTreeMap<String, (u32, u64)> = BTreeMap::new();
        for call in &obs.calls {
            if let Call::Submit {
                queue,
                workers,
                alloc: Some(id),
                ..
            } = call
            {
                submitted.insert(id.clone(), (*queue, *workers));
            }
        }
        let mut queued_events: BTreeMap<String, (u32, u64)> = BTreeMap::new();
        for ev in &obs.events {
            if let Ev::Queued {
                queue,
                alloc,
                workers,
            } = ev
            {
                if queued_events.insert(alloc.clone(), (*queue, *workers)).is_some() {
                    self.find(
                        "C18",
                        "submission-announced-twice",
                        "",
                        format!("two AllocationQueued events for {alloc}"),
                    );
                }
            }
        }
        if submitted != queued_events {
            self.find(
                "C18",
                "submission-announcement-mismatch",
                "",
                format!(
                    "accepted submissions {submitted:?} vs AllocationQueued events {queued_events:?}"
                ),
            );
        }
        for q in &after.queues {
            for a in &q.allocs {
                if self.allocs.contains_key(&a.id) {
                    continue;
                }
                match submitted.get(&a.id) {
                    Some((queue, workers)) if *queue == q.id && *workers == a.target => {
                        if a.rank != 0 {
                            self.find(
                                "C18",
                                "new-allocation-not-queued",
                                "",
                                format!("allocation {} starts its life with rank {}", a.id, a.rank),
                            );
                        }
                        self.allocs.insert(
                            a.id.clone(),
                            MAlloc {
                                queue: q.id,
                                target: a.target,
                                rank: 0,
                                connected: BTreeSet::new(),
                                lost: BTreeMap::new(),
                                started_events: 0,
                                finished_events: 0,
                            },
                        );
                    }
                    other => {
                        self.find(
                            "C18",
                            "allocation-from-nowhere",
                            "",
                            format!(
                                "allocation {:?} of queue {} does not correspond to an accepted submission ({other:?})",
                                a, q.id
                            ),
                        );
                    }
                }
            }
        }
        for (id, (queue, _)) in &submitted {
            if after.queue(*queue).and_then(|q| q.alloc(id)).is_none() {
                self.find(
                    "C18",
                    "accepted-submission-forgotten",
                    "",
                    format!("the batch system accepted allocation {id} of queue {queue}, autoalloc does not know it"),
                );
            }
        }

        /* ---------------- lifecycle of known allocations ---------------- */
        let reports: BTreeMap<String, Given> = obs
            .calls
            .iter()
            .filter_map(|c| match c {
                Call::Status {
                    whole_error: false,
                    reports,
                    ..
                } => Some(reports.clone()),
                _ => None,
            })
            .flatten()
            .collect();
        let report_order: Vec<String> = obs
            .calls
            .iter()
            .filter_map(|c| match c {
                Call::Status { reports, .. } => Some(reports.iter().map(|r| r.0.clone())),
                _ => None,
            })
            .flatten()
            .collect();

        let mut started_now: BTreeMap<String, u32> = BTreeMap::new();
        let mut finished_now: BTreeMap<String, u32> = BTreeMap::new();
        let mut order: Vec<(String, bool)> = Vec::new();
        for ev in &obs.events {
            match ev {
                Ev::Started(_, a) => {
                    *started_now.entry(a.clone()).or_insert(0) += 1;
                    order.push((a.clone(), true));
                }
                Ev::Finished(_, a) => {
                    *finished_now.entry(a.clone()).or_insert(0) += 1;
                    order.push((a.clone(), false));
                }
                _ => {}
            }
        }
        for (a, _) in started_now.iter().chain(finished_now.iter()) {
            if !self.allocs.contains_key(a) {
                self.find(
                    "C18",
                    "event-for-unknown-allocation",
                    "",
                    format!("lifecycle event for {a}, which is not an allocation of a live queue"),
                );
            }
        }

        let ids: Vec<String> = self.allocs.keys().cloned().collect();
        let mut ended_in_refresh: Vec<(String, u32, bool)> = Vec::new();
        for id in ids {
            let m = self.allocs.get(&id).unwrap().clone();
            let Some((qs, a)) = after.find_alloc(&id) else {
                self.find(
                    "C18",
                    "allocation-vanished",
                    step.kind(),
                    format!("allocation {id} (rank {}) is gone after {step:?}", m.rank),
                );
                self.allocs.remove(&id);
                continue;
            };
            if qs.id != m.queue {
                self.find(
                    "C18",
                    "allocation-changed-queue",
                    "",
                    format!("allocation {id} moved from queue {} to {}", m.queue, qs.id),
                );
            }
            if a.target != m.target {
                self.find(
                    "C18",
                    "allocation-size-changed",
                    "",
                    format!("allocation {id}: size {} -> {}", m.target, a.target),
                );
            }
            let may_change = is_refresh || touched.as_deref() == Some(id.as_str());
            let b = before.find_alloc(&id).map(|x| x.1);
            if !may_change && b.is_some() && b != Some(a) {
                self.find(
                    "C18",
                    "allocation-changed-by-unrelated-step",
                    step.kind(),
                    format!("{step:?} changed allocation {id}: {b:?} -> {a:?}"),
                );
            }
            // monotone, finished is absorbing
            if a.rank < m.rank || (m.rank >= 2 && a.rank != m.rank) {
                self.find(
                    "C18",
                    "lifecycle-went-backwards",
                    format!("{}-to-{}", m.rank, a.rank),
                    format!("allocation {id}: rank {} -> {} by {step:?}", m.rank, a.rank),
                );
            }
            let s = started_now.get(&id).copied().unwrap_or(0);
            let f = finished_now.get(&id).copied().unwrap_or(0);
            if s > 0 {
                if m.started_events + s > 1 {
                    self.find(
                        "C18",
                        "start-announced-twice",
                        "",
                        format!("allocation {id}: AllocationStarted announced again by {step:?}"),
                    );
                }
                if m.rank >= 2 || m.finished_events > 0 {
                    self.find(
                        "C18",
                        "start-announced-after-end",
                        "",
                        format!("allocation {id}: AllocationStarted after its end by {step:?}"),
                    );
                }
                if let (Some(ps), Some(pf)) = (
                    order.iter().position(|(x, st)| x == &id && *st),
                    order.iter().position(|(x, st)| x == &id && !*st),
                ) && pf < ps
                {
                    self.find(
                        "C18",
                        "start-announced-after-end",
                        "same-step",
                        format!("allocation {id}: end announced before start in {step:?}"),
                    );
                }
            }
            let ends_now = m.rank < 2 && a.rank >= 2;
            if ends_now && f != 1 {
                self.find(
                    "C18",
                    "end-announcement",
                    if f == 0 { "missing" } else { "repeated" },
                    format!(
                        "allocation {id} finished (rank {} -> {}) by {step:?} with {f} AllocationFinished events",
                        m.rank, a.rank
                    ),
                );
            }
            if !ends_now && f > 0 {
                self.find(
                    "C18",
                    "end-announcement",
                    if m.rank >= 2 { "again-after-end" } else { "without-end" },
                    format!(
                        "allocation {id} (rank {} -> {}): {f} AllocationFinished events by {step:?}",
                        m.rank, a.rank
                    ),
                );
            }

            // worker accounting
            let is_lost_step = matches!(step, Step::Lost { alloc, .. } if *alloc == id);
            if m.rank <= 1 && a.rank == 2 {
                // normal finish
                if !(is_lost_step && m.rank == 1 && m.lost.len() as u64 == m.target) {
                    self.find(
                        "C18",
                        "normal-finish-without-all-workers-lost",
                        format!("lost{}-of-{}", m.lost.len().min(9), m.target.min(9)),
                        format!(
                            "allocation {id} finished normally by {step:?}; distinct workers lost while running: {:?}, size {}",
                            m.lost.keys().collect::<Vec<_>>(),
                            m.target
                        ),
                    );
                } else {
                    self.probe("normal-finish");
                }
            }
            if is_lost_step && m.rank == 1 && m.lost.len() as u64 == m.target && a.rank != 2 {
                self.find(
                    "C18",
                    "normal-finish-missing",
                    "",
                    format!(
                        "allocation {id}: all {} workers were lost ({:?}) but its rank is {}",
                        m.target,
                        m.lost.keys().collect::<Vec<_>>(),
                        a.rank
                    ),
                );
            }
            if is_lost_step && m.rank <= 1 && a.rank == 3 {
                self.find(
                    "C18",
                    "unexpected-finish-on-worker-loss",
                    "",
                    format!("allocation {id}: worker loss moved it to finished-unexpectedly"),
                );
            }
            if a.rank == 1 {
                let conn: Vec<u32> = m.connected.iter().copied().collect();
                if conn != a.connected {
                    self.find(
                        "C18",
                        "connected-workers-mismatch",
                        if a.connected.len() > conn.len() {
                            "extra"
                        } else if a.connected.len() < conn.len() {
                            "missing"
                        } else {
                            "different"
                        },
                        format!(
                            "allocation {id} after {step:?}: connected {:?}, expected {:?} (connected from it and not lost since)",
                            a.connected, conn
                        ),
                    );
                }
                let lost: Vec<u32> = m.lost.keys().copied().collect();
                let got: Vec<u32> = a.disconnected.iter().map(|d| d.0).collect();
                if lost != got {
                    self.find(
                        "C18",
                        "lost-workers-mismatch",
                        "",
                        format!("allocation {id} after {step:?}: lost {got:?}, expected {lost:?}"),
                    );
                }
            }

            // limiter events that follow from the end of an allocation
            if ends_now {
                if is_lost_step {
                    let all_crashed = m.lost.values().all(|c| *c);
                    if all_crashed {
                        self.probe("allocation-end-all-workers-crashed");
                    }
                    self.limiter_event(m.queue, !all_crashed);
                } else if is_refresh {
                    match reports.get(&id) {
                        Some(Given::Status(Ext::Finished)) => {
                            ended_in_refresh.push((id.clone(), m.queue, true));
                        }
                        Some(Given::Status(Ext::Failed)) | Some(Given::Missing) => {
                            ended_in_refresh.push((id.clone(), m.queue, false));
                        }
                        Some(Given::Error) | None => {
                            // ended by a streak of status errors: neither success nor failure
                            if m.rank == 0 {
                                self.probe("queued-allocation-ended-by-status-errors");
                            } else {
                                self.probe("running-allocation-ended-by-status-errors");
                            }
                        }
                        Some(Given::Status(other)) => {
                            self.find(
                                "C18",
                                "finished-on-non-final-report",
                                "",
                                format!("allocation {id} ended although the batch system reported {other:?}"),
                            );
                        }
                    }
                }
            }
            if m.rank == 0 && a.rank == 1 && is_refresh {
                self.probe("started-by-external-status");
            }

            let m = self.allocs.get_mut(&id).unwrap();
            m.rank = a.rank;
            m.started_events += s;
            m.finished_events += f;
        }
        // limiter events of a refresh, in the order in which the batch system was asked
        ended_in_refresh.sort_by_key(|(id, _, _)| report_order.iter().position(|r| r == id));
        for (_, queue, success) in ended_in_refresh {
            if success {
                self.probe("allocation-end-external-finished");
            } else {
                self.probe("allocation-end-external-failed");
            }
            self.limiter_event(queue, success);
        }

        /* ---------------- state invariants ---------------- */
        // index covers exactly the allocations of existing queues
        let mut expected_index: Vec<(String, u32)> = after
            .queues
            .iter()
            .flat_map(|q| q.allocs.iter().map(move |a| (a.id.clone(), q.id)))
            .collect();
        expected_index.sort();
        if expected_index != after.index {
            self.find(
                "C18",
                "allocation-index-inconsistent",
                if after.index.len() > expected_index.len() {
                    "stale-entries"
                } else {
                    "missing-entries"
                },
                format!(
                    "allocation_to_queue = {:?}, allocations of queues = {:?}",
                    after.index, expected_index
                ),
            );
        }
        for q in &after.queues {
            if q.queued() > q.backlog as usize {
                self.find(
                    "C17",
                    "backlog-exceeded",
                    "",
                    format!(
                        "queue {}: {} queued allocations, backlog {}",
                        q.id,
                        q.queued(),
                        q.backlog
                    ),
                );
            }
            if q.queued() == q.backlog as usize {
                self.probe("backlog-full");
            }
            if let Some(max) = q.max_worker_count {
                if q.active_workers() > max as u64 {
                    self.find(
                        "C17",
                        "max-worker-count-exceeded",
                        "",
                        format!(
                            "queue {}: {} workers in queued+running allocations, max worker count {}",
                            q.id,
                            q.active_workers(),
                            max
                        ),
                    );
                }
                if q.active_workers() == max as u64 {
                    self.probe("max-worker-count-reached");
                }
            }
            for a in &q.allocs {
                if a.target == 0 || a.target > q.max_workers_per_alloc as u64 {
                    self.find(
                        "C17",
                        "allocation-size",
                        if a.target == 0 { "zero" } else { "above-limit" },
                        format!(
                            "queue {}: allocation {} asks for {} workers (max {} per allocation)",
                            q.id, a.id, a.target, q.max_workers_per_alloc
                        ),
                    );
                }
            }
        }
        // truth of an honest batch system: what really waits there obeys the backlog as well
        let truth = obs.truth_queued.clone();
        for (queue, n) in truth {
            if let (Some(m), Some(q)) = (self.queues.get(&queue), after.queue(queue))
                && m.honest
                && n > q.backlog as usize
            {
                self.find(
                    "C17",
                    "backlog-exceeded",
                    "in-batch-system",
                    format!(
                        "queue {queue}: {n} allocations really wait in the batch system, backlog {}",
                        q.backlog
                    ),
                );
            }
        }
        // A connect from an allocation that the batch system has not started is a lie of the
        // environment: from then on its own counts are not comparable
        if let Step::Connect { alloc, .. } = step
            && obs.truth_not_running.contains(alloc)
            && let Some(a) = self.allocs.get(alloc)
            && let Some(q) = self.queues.get_mut(&a.queue)
        {
            q.honest = false;
        }

        // pause state follows the failure limits
        if is_tick && matches!(obs.resp, Resp::Tick(Ok(true))) {
            let ids: Vec<u32> = self.queues.keys().copied().collect();
            for id in ids {
                let m = self.queues.get(&id).unwrap().clone();
                if let Some(kind) = m.auto
                    && let Some(q) = after.queue(id)
                {
                    if !q.paused {
                        self.find(
                            "C17",
                            "not-paused-after-failure-limit",
                            kind,
                            format!(
                                "queue {id}: {} consecutive submission failures, {} consecutive allocation failures, still active after a scheduling tick",
                                m.sub_fails, m.alloc_fails
                            ),
                        );
                    } else if kind == "submission" {
                        self.probe("paused-by-submission-failures");
                    } else {
                        self.probe("paused-by-allocation-failures");
                    }
                }
            }
        }
        for q in &after.queues {
            if let Some(b) = before.queue(q.id)
                && !b.paused
                && q.paused
                && !matches!(step, Step::Pause { .. })
            {
                let m = self.queues.get(&q.id);
                if m.map(|m| m.auto.is_none()).unwrap_or(true) {
                    self.find(
                        "C17",
                        "paused-without-reason",
                        if m.and_then(|m| m.resumed).is_some() {
                            "after-resume"
                        } else {
                            "never-resumed"
                        },
                        format!(
                            "queue {} was paused by {step:?} although neither failure limit is reached (model: {:?})",
                            q.id, m
                        ),
                    );
                }
            }
        }
    }

    /// The failure limits are evaluated when scheduling is due (a streak that was broken by a
    /// success before the next scheduling tick does not pause the queue)
    fn evaluate_limits(&mut self) {
        for q in self.queues.values_mut() {
            if q.auto.is_none() {
                if q.alloc_fails >= MAX_ALLOCATION_FAILS {
                    q.auto = Some("allocation");
                } else if q.sub_fails >= MAX_SUBMISSION_FAILS {
                    q.auto = Some("submission");
                }
            }
        }
    }

    fn check_tick(&mut self, obs: &StepObs) {
        let before = &obs.before;
        let now = obs.now_s;
        if matches!(obs.resp, Resp::Tick(Ok(true))) {
            self.evaluate_limits();
        }
        // group the submissions by queue, in call order
        let mut by_queue: BTreeMap<u32, Vec<(u64, SubmitOutcome, bool)>> = BTreeMap::new();
        for call in &obs.calls {
            if let Call::Submit {
                queue,
                workers,
                outcome,
                dry_run,
                ..
            } = call
            {
                by_queue
                    .entry(*queue)
                    .or_default()
                    .push((*workers, *outcome, *dry_run));
            }
        }
        for (queue, calls) in &by_queue {
            let Some(q) = before.queue(*queue) else {
                self.find(
                    "C17",
                    "submit-for-unknown-queue",
                    "",
                    format!("submission for queue {queue}, which does not exist"),
                );
                continue;
            };
            for (workers, _, dry) in calls {
                if *workers == 0 || *workers > q.max_workers_per_alloc as u64 {
                    self.find(
                        "C17",
                        "submitted-size",
                        if *workers == 0 { "zero" } else { "above-limit" },
                        format!(
                            "queue {queue}: submission asks for {workers} workers (max {} per allocation)",
                            q.max_workers_per_alloc
                        ),
                    );
                }
                if *dry {
                    self.find(
                        "C17",
                        "dry-run-submission",
                        "",
                        format!("queue {queue}: dry-run submission from the scheduling tick"),
                    );
                }
            }
            // limits at the moment of each submission
            let mut queued = q.queued();
            let mut workers_active = q.active_workers();
            for (workers, outcome, _) in calls {
                if queued >= q.backlog as usize {
                    self.find(
                        "C17",
                        "submit-over-backlog",
                        "",
                        format!(
                            "queue {queue}: submission while {queued} allocations are queued (backlog {})",
                            q.backlog
                        ),
                    );
                }
                if let Some(max) = q.max_worker_count
                    && workers_active + workers > max as u64
                {
                    self.find(
                        "C17",
                        "submit-over-max-worker-count",
                        "",
                        format!(
                            "queue {queue}: submission of {workers} workers while {workers_active} are queued/running (max {max})"
                        ),
                    );
                }
                if *outcome == SubmitOutcome::Ok {
                    queued += 1;
                    workers_active += workers;
                }
            }
            if q.paused {
                self.find(
                    "C17",
                    "submit-while-paused",
                    "state",
                    format!("queue {queue} is paused and {} submissions were made", calls.len()),
                );
            }
            if !self.demand(q, &obs.core_before, true) {
                self.find(
                    "C17",
                    "submit-without-demand",
                    if obs.core_before.ready.is_empty() && obs.core_before.prefilled.is_empty() {
                        "no-waiting-task"
                    } else {
                        "no-fitting-task"
                    },
                    format!(
                        "queue {queue} ({q:?}): {} submissions, waiting tasks per job {:?}, requests {:?}",
                        calls.len(),
                        obs.core_before.ready,
                        self.jobs
                    ),
                );
            }
            let Some(m) = self.queues.get(queue).cloned() else {
                continue;
            };
            if m.user_paused {
                self.find(
                    "C17",
                    "submit-while-paused",
                    "by-user",
                    format!("queue {queue} was paused by the user and not resumed"),
                );
            }
            if let Some(kind) = m.auto {
                self.find(
                    "C17",
                    "submit-after-failure-limit",
                    kind,
                    format!(
                        "queue {queue}: submission after {} consecutive submission failures / {} consecutive allocation failures without a resume",
                        m.sub_fails, m.alloc_fails
                    ),
                );
            }
            // back-off
            let mut m = m;
            if let Some(last) = m.last_attempt
                && now.saturating_sub(last) < DELAYS_S[m.level]
            {
                self.find(
                    "C17",
                    "backoff-violated",
                    format!("level{}", m.level),
                    format!(
                        "queue {queue}: submission {} s after the previous attempt, current back-off delay {} s",
                        now - last,
                        DELAYS_S[m.level]
                    ),
                );
            }
            if m.level > 0 {
                self.probe("submit-after-backoff-elapsed");
            }
            m.last_attempt = Some(now);
            let mut failed_in_tick = false;
            for (_, outcome, _) in calls {
                if failed_in_tick {
                    self.find(
                        "C17",
                        "backoff-violated",
                        "same-tick",
                        format!("queue {queue}: another submission in the tick of a failed one"),
                    );
                }
                match outcome {
                    SubmitOutcome::Ok => {
                        m.sub_fails = 0;
                        if m.alloc_fails == 0 {
                            m.level = 0;
                        }
                    }
                    SubmitOutcome::Rejected | SubmitOutcome::NoDirectory => {
                        failed_in_tick = true;
                        m.sub_fails += 1;
                        m.level = (m.level + 1).min(DELAYS_S.len() - 1);
                        if *outcome == SubmitOutcome::Rejected {
                            *self.faults.entry("submission-rejected").or_insert(0) += 1;
                        } else {
                            *self.faults.entry("submission-directory-error").or_insert(0) += 1;
                        }
                    }
                }
            }
            if m.resumed.is_some() {
                self.probe("submit-after-resume");
            }
            m.resumed = None;
            self.queues.insert(*queue, m);
        }

        if matches!(obs.resp, Resp::Tick(Ok(true))) {
            self.evaluate_limits();
        }

        // liveness: an active queue with decidable demand, room and elapsed back-off submits
        if !matches!(obs.resp, Resp::Tick(Ok(_))) {
            if let Resp::Tick(Err(e)) = &obs.resp {
                self.find(
                    "C17",
                    "scheduling-tick-failed",
                    "",
                    format!("perform_submits failed: {e}"),
                );
            }
            return;
        }
        let active: Vec<&QSnap> = before.queues.iter().filter(|q| !q.paused).collect();
        if active.len() == 1 && obs.core_before.workers == 0 {
            let q = active[0];
            if let Some(m) = self.queues.get(&q.id).cloned() {
                let room = q.queued() == 0
                    && q.backlog > 0
                    && q.max_worker_count
                        .map(|max| q.active_workers() < max as u64)
                        .unwrap_or(true);
                let elapsed = m
                    .last_attempt_before(by_queue.contains_key(&q.id))
                    .map(|(last, level)| now.saturating_sub(last) >= DELAYS_S[level])
                    .unwrap_or(true);
                let demand = q.min_utilization == 0.0 && self.demand(q, &obs.core_before, false);
                if !m.user_paused && m.auto.is_none() && room && demand {
                    if !elapsed {
                        self.probe("tick-inside-backoff-delay");
                    } else if !by_queue.contains_key(&q.id) {
                        self.find(
                            "C17",
                            "no-submit-despite-demand",
                            match m.resumed {
                                Some("auto") => "after-resume-from-automatic-pause",
                                Some(_) => "after-resume-from-user-pause",
                                None => "active-queue",
                            },
                            format!(
                                "queue {} is active, a waiting task fits its workers, nothing is queued, limits leave room and the back-off delay has elapsed, but the scheduling tick at t={now}s submitted nothing (queue after the tick: {:?})",
                                q.id,
                                obs.after.queue(q.id)
                            ),
                        );
                    } else {
                        self.probe("liveness-checked");
                    }
                }
            }
        }
    }
}

impl MQueue {
    /// (last attempt, level) as they were before the submissions of the current tick were
    /// applied to the model; `applied` says whether the tick made submissions for this queue
    fn last_attempt_before(&self, applied: bool) -> Option<(u64, usize)> {
        if applied {
            // the tick submitted: liveness is satisfied anyway
            None
        } else {
            self.last_attempt.map(|l| (l, self.level))
        }
    }
}
