//! Seeded generator of autoalloc histories (swarm style: the profile, the sizes and the fault mix
//! are drawn per run). Every choice comes from the run's PRNG; the generator may look at the
//! current state of the world (which allocations exist, the back-off level) so that faults land
//! inside interesting situations, and whatever it decides is recorded as an explicit `Step`.

use std::collections::VecDeque;

use crate::sim::rng::Rng;

use super::oracle::DELAYS_S;
use super::spec::*;
use super::world::{BState, World};

#[derive(Debug, Clone, Copy, PartialEq, Eq, serde::Serialize, serde::Deserialize)]
pub enum Profile {
    General,
    /// honest batch system, many tasks, small limits
    Limits,
    /// failing submissions, clock moves around the back-off delays
    Backoff,
    /// few submissions, many worker / status events in adversarial orders
    Lifecycle,
    /// pause (by the user or by the failure limits) and resume; no other workers
    Resume,
    /// queue removal and status-error streaks
    Removal,
}

pub const PROFILES: [Profile; 6] = [
    Profile::General,
    Profile::Limits,
    Profile::Backoff,
    Profile::Lifecycle,
    Profile::Resume,
    Profile::Removal,
];

enum Macro {
    /// advance the clock by the current back-off delay of the queue (+/- jitter)
    AdvanceByDelay { queue: u32, jitter: i64 },
    Fixed(Step),
    /// end the most recent allocation of the queue with a failure and refresh
    FailNewest { queue: u32 },
}

pub struct Gen {
    pub profile: Profile,
    pub steps_planned: usize,
    rng: Rng,
    pending: VecDeque<Macro>,
    next_worker: u32,
    next_job: u32,
    next_core_worker: u32,
    max_queues: usize,
    queues_added: usize,
}

fn shape(rng: &mut Rng) -> Shape {
    let cpus = *rng.pick(&[1u32, 2, 4, 4, 8]);
    let extra = if rng.chance(1, 3) {
        vec![("gpus".to_string(), rng.range(1, 2) as u32)]
    } else {
        vec![]
    };
    Shape { cpus, extra }
}

impl Gen {
    pub fn new(seed: u64, profile: Profile) -> Gen {
        let mut rng = Rng::new(seed);
        let steps_planned = match profile {
            Profile::Resume | Profile::Backoff => rng.range(40, 140) as usize,
            _ => rng.range(15, 110) as usize,
        };
        let max_queues = match profile {
            Profile::Resume => 1 + rng.chance(1, 4) as usize,
            _ => rng.range(1, 3) as usize,
        };
        Gen {
            profile,
            steps_planned,
            rng,
            pending: VecDeque::new(),
            next_worker: 1,
            next_job: 1,
            next_core_worker: 1,
            max_queues,
            queues_added: 0,
        }
    }

    fn queue_spec(&mut self) -> QueueSpec {
        let rng = &mut self.rng;
        let max_workers_per_alloc = *rng.pick(&[1u32, 1, 2, 3, 4]);
        let backlog = *rng.pick(&[1u32, 1, 2, 3, 4]);
        let max_worker_count = if rng.chance(1, 2) {
            Some(rng.range(1, 8) as u32)
        } else {
            None
        };
        let min_utilization = match self.profile {
            Profile::Resume => 0,
            _ => *rng.pick(&[0u8, 0, 0, 0, 50, 100]),
        };
        QueueSpec {
            slurm: rng.chance(1, 2),
            backlog,
            max_workers_per_alloc,
            max_worker_count,
            timelimit_s: *rng.pick(&[60u64, 3600, 3600, 86400]),
            min_utilization,
            cli_shape: rng.chance(1, 3).then(|| shape(rng)),
            known_shape: rng.chance(1, 4).then(|| shape(rng)),
        }
    }

    fn rq(&mut self) -> Rq {
        let rng = &mut self.rng;
        let n_nodes = if rng.chance(1, 6) {
            rng.range(1, 4) as u32
        } else {
            0
        };
        Rq {
            n_nodes,
            cpus: *rng.pick(&[1u32, 1, 2, 4, 8]),
            all_cpus: rng.chance(1, 10),
            extra: rng
                .chance(1, 5)
                .then(|| ("gpus".to_string(), rng.range(1, 2) as u32)),
            min_time_s: *rng.pick(&[0u64, 0, 0, 30, 7200]),
        }
    }

    fn pick_queue(&mut self, world: &World) -> Option<u32> {
        let snap = world.snapshot();
        if snap.queues.is_empty() || self.rng.chance(1, 25) {
            // sometimes a queue that does not exist (any more)
            return Some(self.rng.range(1, 4) as u32);
        }
        Some(snap.queues[self.rng.usize_below(snap.queues.len())].id)
    }

    /// Mostly an existing allocation (biased to active ones), sometimes an unknown one
    fn pick_alloc(&mut self, world: &World, unknown_one_in: u64) -> String {
        let snap = world.snapshot();
        let all: Vec<(String, u8)> = snap
            .queues
            .iter()
            .flat_map(|q| q.allocs.iter().map(|a| (a.id.clone(), a.rank)))
            .collect();
        if all.is_empty() || self.rng.chance(1, unknown_one_in) {
            return match self.rng.below(3) {
                0 => "9.9".to_string(),
                1 => format!("1.{}", self.rng.range(50, 60)),
                // an allocation of a removed queue or one that the batch system knows but
                // autoalloc does not
                _ => {
                    let batch = world.batch();
                    let known: Vec<&String> = batch
                        .allocs
                        .keys()
                        .filter(|id| !all.iter().any(|(a, _)| a == *id))
                        .collect();
                    if known.is_empty() {
                        "7.1".to_string()
                    } else {
                        known[self.rng.usize_below(known.len())].clone()
                    }
                }
            };
        }
        let active: Vec<&(String, u8)> = all.iter().filter(|(_, r)| *r <= 1).collect();
        if !active.is_empty() && self.rng.chance(4, 5) {
            active[self.rng.usize_below(active.len())].0.clone()
        } else {
            all[self.rng.usize_below(all.len())].0.clone()
        }
    }

    fn advance(&mut self) -> Step {
        let secs = *self.rng.pick(&[
            1u64, 5, 5, 5, 30, 59, 60, 61, 120, 899, 900, 901, 1800, 3599, 3600, 3601, 7200,
        ]);
        Step::Advance { secs }
    }

    fn resolve(&mut self, m: Macro, world: &World) -> Step {
        match m {
            Macro::Fixed(s) => s,
            Macro::AdvanceByDelay { queue, jitter } => {
                let level = world
                    .snapshot()
                    .queue(queue)
                    .map(|q| q.limiter.0)
                    .unwrap_or(0)
                    .min(DELAYS_S.len() - 1);
                let secs = (DELAYS_S[level] as i64 + jitter).max(0) as u64;
                Step::Advance { secs }
            }
            Macro::FailNewest { queue } => {
                let snap = world.snapshot();
                let newest = snap.queue(queue).and_then(|q| {
                    q.allocs
                        .iter()
                        .filter(|a| a.rank <= 1)
                        .max_by_key(|a| {
                            a.id.split('.')
                                .nth(1)
                                .and_then(|n| n.parse::<u32>().ok())
                                .unwrap_or(0)
                        })
                        .map(|a| a.id.clone())
                });
                match newest {
                    Some(alloc) => Step::BatchEnd {
                        alloc,
                        failed: true,
                    },
                    None => Step::Tick,
                }
            }
        }
    }

    fn jitter(&mut self) -> i64 {
        *self.rng.pick(&[0i64, 0, 0, 1, -1, 5, -5])
    }

    /// A sequence that drives a queue into the automatic pause and (sometimes) out of it again
    fn plan_pause_scenario(&mut self, world: &World) {
        let Some(queue) = world.snapshot().queues.first().map(|q| q.id) else {
            return;
        };
        let by_submission = self.rng.chance(1, 2);
        if by_submission {
            let n = self.rng.range(9, 12) as usize;
            self.pending.push_back(Macro::Fixed(Step::SubmitPlan {
                queue,
                outcomes: vec![
                    if self.rng.chance(1, 2) {
                        SubmitOutcome::Rejected
                    } else {
                        SubmitOutcome::NoDirectory
                    };
                    n
                ],
            }));
            for _ in 0..n + 1 {
                let jitter = self.jitter();
                self.pending
                    .push_back(Macro::AdvanceByDelay { queue, jitter });
                self.pending.push_back(Macro::Fixed(Step::Tick));
            }
        } else {
            let n = self.rng.range(2, 4);
            for _ in 0..n {
                let jitter = self.jitter();
                self.pending
                    .push_back(Macro::AdvanceByDelay { queue, jitter });
                self.pending.push_back(Macro::Fixed(Step::Tick));
                self.pending.push_back(Macro::FailNewest { queue });
                self.pending.push_back(Macro::Fixed(Step::Refresh));
            }
            self.pending.push_back(Macro::Fixed(Step::Tick));
        }
        if self.rng.chance(4, 5) {
            self.pending.push_back(Macro::Fixed(Step::Resume { queue }));
            if self.rng.chance(1, 2) {
                self.pending.push_back(Macro::Fixed(Step::SubmitPlan {
                    queue,
                    outcomes: vec![],
                }));
            }
            for _ in 0..self.rng.range(1, 3) {
                let jitter = self.jitter();
                self.pending
                    .push_back(Macro::AdvanceByDelay { queue, jitter });
                self.pending.push_back(Macro::Fixed(Step::Tick));
            }
        }
    }

    pub fn next(&mut self, world: &World) -> Step {
        if let Some(m) = self.pending.pop_front() {
            // scripted sequences are interrupted now and then
            if !self.rng.chance(1, 12) {
                return self.resolve(m, world);
            }
            self.pending.push_front(m);
        }
        let snap = world.snapshot();
        if snap.queues.is_empty() && self.queues_added < self.max_queues + 2 {
            self.queues_added += 1;
            // most histories start with some demand and a first scheduling tick
            if self.rng.chance(3, 4) {
                let job = self.next_job;
                self.next_job += 1;
                let rq = if self.rng.chance(1, 2) {
                    Rq {
                        n_nodes: 0,
                        cpus: 1,
                        all_cpus: false,
                        extra: None,
                        min_time_s: 0,
                    }
                } else {
                    self.rq()
                };
                self.pending.push_back(Macro::Fixed(Step::Tasks {
                    job,
                    count: *self.rng.pick(&[1u32, 3, 12, 40]),
                    rq,
                }));
                self.pending.push_back(Macro::Fixed(Step::Tick));
            }
            return Step::AddQueue(self.queue_spec());
        }
        let p = self.profile;
        // weights per step kind
        let w = |g: u64, lim: u64, back: u64, life: u64, res: u64, rem: u64| -> u64 {
            match p {
                Profile::General => g,
                Profile::Limits => lim,
                Profile::Backoff => back,
                Profile::Lifecycle => life,
                Profile::Resume => res,
                Profile::Removal => rem,
            }
        };
        let honest = p == Profile::Limits;
        let weights = [
            /* 0 add queue */
            if self.queues_added < self.max_queues {
                w(3, 3, 2, 3, 1, 5)
            } else {
                0
            },
            /* 1 tasks */ w(10, 14, 8, 6, 8, 6),
            /* 2 cancel job */ w(2, 2, 1, 1, 2, 1),
            /* 3 core worker */ w(2, 3, 0, 1, 0, 1),
            /* 4 core worker gone */ w(1, 2, 0, 1, 0, 1),
            /* 5 job submitted */ w(1, 1, 1, 1, 1, 1),
            /* 6 tick */ w(22, 26, 26, 10, 20, 14),
            /* 7 refresh */ w(10, 10, 6, 16, 6, 14),
            /* 8 advance */ w(10, 6, 22, 4, 14, 4),
            /* 9 submit plan */ w(4, 0, 12, 2, 4, 2),
            /* 10 report mode */ if honest { 0 } else { w(5, 0, 1, 10, 1, 10) },
            /* 11 status call fails */ if honest { 0 } else { w(2, 0, 1, 4, 0, 6) },
            /* 12 remove fails */ w(1, 0, 0, 1, 0, 4),
            /* 13 batch start */ w(8, 12, 3, 10, 3, 8),
            /* 14 batch end */ w(6, 8, 6, 10, 5, 6),
            /* 15 connect */ w(10, 12, 2, 18, 2, 8),
            /* 16 lost */ w(8, 8, 2, 18, 2, 6),
            /* 17 pause */ w(2, 1, 1, 1, 5, 2),
            /* 18 resume */ w(2, 1, 2, 1, 8, 2),
            /* 19 remove */ w(2, 1, 1, 2, 0, 10),
            /* 20 ask */ w(2, 1, 1, 3, 1, 3),
            /* 21 pause scenario */ w(1, 0, 3, 0, 6, 0),
            /* 22 status error streak */ if honest { 0 } else { w(1, 0, 0, 3, 0, 3) },
        ];
        match self.rng.pick_weighted(&weights) {
            0 => {
                self.queues_added += 1;
                Step::AddQueue(self.queue_spec())
            }
            1 => {
                let job = if self.next_job > 1 && self.rng.chance(1, 3) {
                    self.rng.range(1, (self.next_job - 1) as u64) as u32
                } else {
                    self.next_job += 1;
                    self.next_job - 1
                };
                let rq = match (world.job_rq(job), p) {
                    (Some(rq), _) => rq,
                    (None, Profile::Resume) if self.rng.chance(3, 4) => Rq {
                        n_nodes: 0,
                        cpus: 1,
                        all_cpus: false,
                        extra: None,
                        min_time_s: 0,
                    },
                    _ => self.rq(),
                };
                Step::Tasks {
                    job,
                    count: *self.rng.pick(&[1u32, 1, 2, 3, 5, 12, 40]),
                    rq,
                }
            }
            2 => {
                let jobs = world.jobs();
                if jobs.is_empty() {
                    Step::Tick
                } else {
                    Step::CancelJob {
                        job: jobs[self.rng.usize_below(jobs.len())],
                    }
                }
            }
            3 => {
                self.next_core_worker += 1;
                Step::CoreWorker {
                    key: self.next_core_worker - 1,
                    shape: shape(&mut self.rng),
                    group: *self.rng.pick(&[0u32, 0, 0, 1, 2]),
                }
            }
            4 => {
                let keys = world.core_worker_keys();
                if keys.is_empty() {
                    Step::Tick
                } else {
                    Step::CoreWorkerGone {
                        key: keys[self.rng.usize_below(keys.len())],
                    }
                }
            }
            5 => Step::JobSubmitted {
                job: self.rng.range(1, 5) as u32,
            },
            6 => Step::Tick,
            7 => Step::Refresh,
            8 => {
                if self.rng.chance(1, 2)
                    && let Some(queue) = snap.queues.first().map(|q| q.id)
                {
                    let jitter = self.jitter();
                    self.resolve(Macro::AdvanceByDelay { queue, jitter }, world)
                } else {
                    self.advance()
                }
            }
            9 => {
                let queue = self.pick_queue(world).unwrap_or(1);
                let n = self.rng.range(0, 4) as usize;
                let outcomes = (0..n)
                    .map(|_| {
                        *self.rng.pick(&[
                            SubmitOutcome::Ok,
                            SubmitOutcome::Rejected,
                            SubmitOutcome::Rejected,
                            SubmitOutcome::NoDirectory,
                        ])
                    })
                    .collect();
                Step::SubmitPlan { queue, outcomes }
            }
            10 => {
                let alloc = self.pick_alloc(world, 30);
                let mode = *self.rng.pick(&[
                    ReportMode::Truth,
                    ReportMode::Error,
                    ReportMode::Error,
                    ReportMode::Missing,
                    ReportMode::Lie(Ext::Queued),
                    ReportMode::Lie(Ext::Running),
                    ReportMode::Lie(Ext::Finished),
                    ReportMode::Lie(Ext::Failed),
                ]);
                Step::Report { alloc, mode }
            }
            11 => Step::StatusCallFails {
                queue: self.pick_queue(world).unwrap_or(1),
                on: self.rng.chance(2, 3),
            },
            12 => Step::RemoveFails {
                queue: self.pick_queue(world).unwrap_or(1),
                on: self.rng.chance(2, 3),
            },
            13 => Step::BatchStart {
                alloc: self.pick_alloc(world, 40),
            },
            14 => Step::BatchEnd {
                alloc: self.pick_alloc(world, 40),
                failed: self.rng.chance(1, 2),
            },
            15 => {
                let alloc = if honest {
                    // only from allocations that the batch system runs
                    let batch = world.batch();
                    let running: Vec<&String> = batch
                        .allocs
                        .iter()
                        .filter(|(_, a)| a.state == BState::Running)
                        .map(|(id, _)| id)
                        .collect();
                    if running.is_empty() {
                        return Step::Tick;
                    }
                    running[self.rng.usize_below(running.len())].clone()
                } else {
                    self.pick_alloc(world, 12)
                };
                let worker = if self.next_worker > 1 && self.rng.chance(1, 6) && !honest {
                    self.rng.range(1, (self.next_worker - 1) as u64) as u32
                } else {
                    self.next_worker += 1;
                    self.next_worker - 1
                };
                Step::Connect {
                    alloc,
                    worker,
                    shape: shape(&mut self.rng),
                }
            }
            16 => {
                // mostly a worker that is connected to some allocation
                let connected: Vec<(String, u32)> = snap
                    .queues
                    .iter()
                    .flat_map(|q| q.allocs.iter())
                    .flat_map(|a| a.connected.iter().map(move |w| (a.id.clone(), *w)))
                    .collect();
                let (alloc, worker) = if !connected.is_empty() && (honest || self.rng.chance(3, 4)) {
                    connected[self.rng.usize_below(connected.len())].clone()
                } else {
                    (
                        self.pick_alloc(world, 12),
                        self.rng.range(1, self.next_worker.max(2) as u64) as u32,
                    )
                };
                Step::Lost {
                    alloc,
                    worker,
                    reason: *self.rng.pick(&[
                        Reason::Stopped,
                        Reason::ConnectionLost,
                        Reason::ConnectionLost,
                        Reason::HeartbeatLost,
                        Reason::IdleTimeout,
                        Reason::TimeLimitReached,
                    ]),
                    lifetime_s: *self.rng.pick(&[0u64, 10, 59, 60, 61, 600, 3600]),
                }
            }
            17 => Step::Pause {
                queue: self.pick_queue(world).unwrap_or(1),
            },
            18 => Step::Resume {
                queue: self.pick_queue(world).unwrap_or(1),
            },
            19 => Step::Remove {
                queue: self.pick_queue(world).unwrap_or(1),
                force: self.rng.chance(1, 2),
            },
            20 => match self.rng.below(3) {
                0 => Step::Ask(Ask::Queues),
                1 => Step::Ask(Ask::Allocations(self.pick_queue(world).unwrap_or(1))),
                _ => Step::Ask(Ask::Allocation(self.pick_alloc(world, 8))),
            },
            21 => {
                if self.pending.is_empty() {
                    self.plan_pause_scenario(world);
                }
                Step::Tick
            }
            _ => {
                // a streak of status errors (per allocation or for the whole query)
                let n = *self.rng.pick(&[9u64, 10, 11, 12, 19, 20, 21, 22]);
                let first = if self.rng.chance(1, 2) {
                    Step::StatusCallFails {
                        queue: self.pick_queue(world).unwrap_or(1),
                        on: true,
                    }
                } else {
                    Step::Report {
                        alloc: self.pick_alloc(world, 50),
                        mode: ReportMode::Error,
                    }
                };
                if self.pending.is_empty() {
                    for _ in 0..n {
                        self.pending.push_back(Macro::Fixed(Step::Refresh));
                    }
                }
                first
            }
        }
    }
}
