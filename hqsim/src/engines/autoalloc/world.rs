//! The simulated world of the autoalloc engine: the real `AutoAllocState` + message handling,
//! submit pass and periodic refresh (through `SimAutoAlloc`), a real tako core that provides the
//! demand (`new_worker_query`), a simulated batch system behind `QueueHandler`, a simulated
//! clock (tokio paused clock, read by `now_monotonic` and by the worker query).

use std::cell::{Cell, RefCell};
use std::collections::{BTreeMap, VecDeque};
use std::future::Future;
use std::path::PathBuf;
use std::pin::Pin;
use std::rc::Rc;
use std::time::Duration;

use hyperqueue::server::autoalloc::verif::{
    AbsoluteTime, AllocationExternalStatus, AllocationState, AllocationStatusMap,
    AllocationSubmissionResult, LostWorkerDetails, ManagerInfo, ManagerType, QueueHandler,
    QueueInfo, SimAutoAlloc, SubmitMode, disconnected_workers,
};
use hyperqueue::server::autoalloc::{Allocation, QueueId, QueueParameters};
use hyperqueue::server::event::payload::EventPayload;
use hyperqueue::server::event::streamer::{EventFilter, EventStreamer};
use hyperqueue::server::event::Event;
use tako::events::EventProcessor;
use tako::gateway::{
    CrashLimit, LostWorkerReason, ResourceRequest, ResourceRequestEntry, ResourceRequestVariants,
    SharedTaskConfiguration, TaskConfiguration, TaskSubmit,
};
use tako::resources::{
    AllocationRequest, ResourceDescriptor, ResourceDescriptorItem, ResourceDescriptorKind,
    ResourceIndex,
};
use tako::verif::SimServer;
use tako::worker::{ServerLostPolicy, WorkerConfiguration};
use tako::{JobId, TaskId, UserPriority, WorkerId};

use super::spec::*;

/* ------------------------------------------------------------------------------------------ */
/* Simulated batch system                                                                     */
/* ------------------------------------------------------------------------------------------ */

#[derive(Debug, Clone, Copy, PartialEq, Eq)]
pub enum BState {
    Queued,
    Running,
    Done { failed: bool, started: bool },
}

#[derive(Debug, Clone)]
pub struct BAlloc {
    pub queue: u32,
    pub workers: u64,
    pub state: BState,
    pub report: ReportMode,
}

#[derive(Debug, Default)]
pub struct BQueue {
    pub outcomes: VecDeque<SubmitOutcome>,
    pub status_fails: bool,
    pub remove_fails: bool,
    pub counter: u32,
}

#[derive(Debug, Clone, PartialEq, Eq)]
pub enum Given {
    Status(Ext),
    Error,
    Missing,
}

#[derive(Debug, Clone)]
pub enum Call {
    Submit {
        queue: u32,
        workers: u64,
        dry_run: bool,
        outcome: SubmitOutcome,
        alloc: Option<String>,
        at_s: u64,
    },
    Status {
        queue: Option<u32>,
        whole_error: bool,
        /// in the order in which the allocations were asked for
        reports: Vec<(String, Given)>,
    },
    Remove {
        alloc: String,
        ok: bool,
    },
}

#[derive(Debug, Default)]
pub struct Batch {
    pub queues: BTreeMap<u32, BQueue>,
    pub allocs: BTreeMap<String, BAlloc>,
    pub log: Vec<Call>,
}

struct MockHandler {
    batch: Rc<RefCell<Batch>>,
    queue: Rc<Cell<Option<u32>>>,
    start: tokio::time::Instant,
}

impl QueueHandler for MockHandler {
    fn submit_allocation(
        &mut self,
        queue_id: QueueId,
        _queue_info: &QueueInfo,
        worker_count: u64,
        mode: SubmitMode,
    ) -> Pin<Box<dyn Future<Output = anyhow::Result<AllocationSubmissionResult>>>> {
        let at_s = (tokio::time::Instant::now() - self.start).as_secs();
        let mut batch = self.batch.borrow_mut();
        let q = batch.queues.entry(queue_id).or_default();
        let outcome = q.outcomes.pop_front().unwrap_or(SubmitOutcome::Ok);
        q.counter += 1;
        let id = format!("{}.{}", queue_id, q.counter);
        let dry_run = matches!(mode, SubmitMode::DryRun);
        let dir: PathBuf = format!("/nonexistent/hqsim-autoalloc/{id}").into();
        let result = match outcome {
            SubmitOutcome::Ok => {
                batch.allocs.insert(
                    id.clone(),
                    BAlloc {
                        queue: queue_id,
                        workers: worker_count,
                        state: BState::Queued,
                        report: ReportMode::Truth,
                    },
                );
                Ok(AllocationSubmissionResult::new(Ok(id.clone()), dir.into()))
            }
            SubmitOutcome::Rejected => Ok(AllocationSubmissionResult::new(
                Err(anyhow::anyhow!("qsub: rejected by the simulated batch system")),
                dir.into(),
            )),
            SubmitOutcome::NoDirectory => Err(anyhow::anyhow!("cannot create allocation directory")),
        };
        batch.log.push(Call::Submit {
            queue: queue_id,
            workers: worker_count,
            dry_run,
            outcome,
            alloc: matches!(outcome, SubmitOutcome::Ok).then_some(id),
            at_s,
        });
        Box::pin(async move { result })
    }

    fn get_status_of_allocations(
        &self,
        allocations: &[&Allocation],
    ) -> Pin<Box<dyn Future<Output = anyhow::Result<AllocationStatusMap>>>> {
        let mut batch = self.batch.borrow_mut();
        let queue = self.queue.get();
        let whole_error = queue
            .and_then(|q| batch.queues.get(&q))
            .map(|q| q.status_fails)
            .unwrap_or(false);
        let now = AbsoluteTime::now();
        let mut map: AllocationStatusMap = Default::default();
        let mut reports = Vec::new();
        for a in allocations {
            let (mode, truth) = match batch.allocs.get(&a.id) {
                Some(b) => (b.report, b.state),
                None => (ReportMode::Missing, BState::Queued),
            };
            let ext = match mode {
                ReportMode::Truth => Some(match truth {
                    BState::Queued => Ext::Queued,
                    BState::Running => Ext::Running,
                    BState::Done { failed: false, .. } => Ext::Finished,
                    BState::Done { failed: true, .. } => Ext::Failed,
                }),
                ReportMode::Lie(e) => Some(e),
                ReportMode::Error | ReportMode::Missing => None,
            };
            let started = matches!(truth, BState::Running | BState::Done { started: true, .. });
            let given = match (mode, ext) {
                (ReportMode::Error, _) => {
                    map.insert(a.id.clone(), Err(anyhow::anyhow!("qstat: cannot parse the status")));
                    Given::Error
                }
                (ReportMode::Missing, _) => Given::Missing,
                (_, Some(e)) => {
                    let status = match e {
                        Ext::Queued => AllocationExternalStatus::Queued,
                        Ext::Running => AllocationExternalStatus::Running,
                        Ext::Finished => AllocationExternalStatus::Finished {
                            started_at: started.then_some(now),
                            finished_at: now,
                        },
                        Ext::Failed => AllocationExternalStatus::Failed {
                            started_at: started.then_some(now),
                            finished_at: now,
                        },
                    };
                    map.insert(a.id.clone(), Ok(status));
                    Given::Status(e)
                }
                (_, None) => unreachable!(),
            };
            reports.push((a.id.clone(), given));
        }
        batch.log.push(Call::Status {
            queue,
            whole_error,
            reports,
        });
        let result = if whole_error {
            Err(anyhow::anyhow!("qstat: connection to the batch server failed"))
        } else {
            Ok(map)
        };
        Box::pin(async move { result })
    }

    fn remove_allocation(
        &self,
        allocation: &Allocation,
    ) -> Pin<Box<dyn Future<Output = anyhow::Result<()>>>> {
        let mut batch = self.batch.borrow_mut();
        let fails = self
            .queue
            .get()
            .and_then(|q| batch.queues.get(&q))
            .map(|q| q.remove_fails)
            .unwrap_or(false);
        if !fails && let Some(b) = batch.allocs.get_mut(&allocation.id) {
            let started = matches!(b.state, BState::Running | BState::Done { started: true, .. });
            if !matches!(b.state, BState::Done { .. }) {
                b.state = BState::Done {
                    failed: false,
                    started,
                };
            }
        }
        batch.log.push(Call::Remove {
            alloc: allocation.id.clone(),
            ok: !fails,
        });
        Box::pin(async move {
            if fails {
                Err(anyhow::anyhow!("qdel: failed"))
            } else {
                Ok(())
            }
        })
    }
}

/* ------------------------------------------------------------------------------------------ */
/* Snapshots in plain data                                                                    */
/* ------------------------------------------------------------------------------------------ */

/// 0 queued, 1 running, 2 finished, 3 finished unexpectedly
pub type Rank = u8;

#[derive(Debug, Clone, PartialEq, Eq)]
pub struct ASnap {
    pub id: String,
    pub target: u64,
    pub rank: Rank,
    pub connected: Vec<u32>,
    /// (worker, failure-like reason, lifetime in s)
    pub disconnected: Vec<(u32, bool, u64)>,
    pub errors: u32,
    pub failed: Option<bool>,
}

/// Resource name -> fractions; `None` = unknown (anything)
pub type Amounts = BTreeMap<String, u64>;

#[derive(Debug, Clone, PartialEq)]
pub struct QSnap {
    pub id: u32,
    pub paused: bool,
    pub backlog: u32,
    pub max_workers_per_alloc: u32,
    pub max_worker_count: Option<u32>,
    pub timelimit_s: u64,
    pub min_utilization: f32,
    pub known: Option<Amounts>,
    pub cli: Option<Amounts>,
    pub allocs: Vec<ASnap>,
    /// (delay level, last attempt in s, allocation fails, submission fails): for coverage and
    /// debugging, never for verdicts
    pub limiter: (usize, Option<u64>, u64, u64),
}

impl QSnap {
    pub fn queued(&self) -> usize {
        self.allocs.iter().filter(|a| a.rank == 0).count()
    }
    pub fn active_workers(&self) -> u64 {
        self.allocs
            .iter()
            .filter(|a| a.rank <= 1)
            .map(|a| a.target)
            .sum()
    }
    pub fn alloc(&self, id: &str) -> Option<&ASnap> {
        self.allocs.iter().find(|a| a.id == id)
    }
}

#[derive(Debug, Clone, PartialEq)]
pub struct Snap {
    pub queues: Vec<QSnap>,
    pub index: Vec<(String, u32)>,
    pub inactive_directories: usize,
}

impl Snap {
    pub fn queue(&self, id: u32) -> Option<&QSnap> {
        self.queues.iter().find(|q| q.id == id)
    }
    pub fn find_alloc(&self, id: &str) -> Option<(&QSnap, &ASnap)> {
        self.queues
            .iter()
            .find_map(|q| q.alloc(id).map(|a| (q, a)))
    }
    /// Everything except the limiter's clock value (which is an `Instant`)
    pub fn fingerprint(&self) -> String {
        format!("{:?}", self)
    }
}

#[derive(Debug, Clone, Default)]
pub struct CoreView {
    pub workers: usize,
    /// job -> number of ready (or prefilled) tasks
    pub ready: BTreeMap<u32, u32>,
    pub prefilled: BTreeMap<u32, u32>,
    pub tasks: usize,
}

#[derive(Debug, Clone, PartialEq, Eq)]
pub enum Ev {
    QueueCreated(u32),
    QueueRemoved(u32),
    Queued { queue: u32, alloc: String, workers: u64 },
    Started(u32, String),
    Finished(u32, String),
}

#[derive(Debug, Clone, PartialEq, Eq)]
pub enum Resp {
    None,
    Added(Result<u32, String>),
    Unit(Result<(), String>),
    /// Ok(false): no active queue, nothing was done
    Tick(Result<bool, String>),
    Refreshed(bool),
    Queues(Vec<(u32, bool)>),
    Allocations(Result<Vec<(String, Rank)>, String>),
    Allocation(Result<(String, Rank), String>),
    /// "should schedule" flag of a message
    Flag(bool),
}

pub struct StepObs {
    pub now_s: u64,
    pub before: Snap,
    pub after: Snap,
    pub core_before: CoreView,
    pub calls: Vec<Call>,
    pub events: Vec<Ev>,
    pub resp: Resp,
    /// queue -> allocations that really wait in the batch system (after the step)
    pub truth_queued: BTreeMap<u32, usize>,
    /// allocations that the batch system has not started (yet)
    pub truth_not_running: std::collections::BTreeSet<String>,
}

/* ------------------------------------------------------------------------------------------ */
/* World                                                                                      */
/* ------------------------------------------------------------------------------------------ */

struct Sink;

impl EventProcessor for Sink {
    fn on_task_finished(&mut self, _task_id: TaskId) {}
    fn on_task_started(
        &mut self,
        _task_id: TaskId,
        _instance_id: tako::InstanceId,
        _worker_ids: &[WorkerId],
        _rv_id: tako::ResourceVariantId,
        _context: tako::task::SerializedTaskContext,
    ) {
    }
    fn on_task_error(
        &mut self,
        _task_id: TaskId,
        _consumers_id: Vec<TaskId>,
        _error_info: tako::internal::messages::common::TaskFailInfo,
    ) -> Vec<TaskId> {
        Vec::new()
    }
    fn on_worker_new(&mut self, _worker_id: WorkerId, _configuration: &WorkerConfiguration) {}
    fn on_worker_lost(
        &mut self,
        _worker_id: WorkerId,
        _running_tasks: &[TaskId],
        _reason: LostWorkerReason,
    ) {
    }
    fn on_worker_overview(&mut self, _overview: Box<tako::worker::WorkerOverview>) {}
    fn on_task_notify(&mut self, _task_id: TaskId, _worker_id: WorkerId, _message: Box<[u8]>) {}
}

pub fn descriptor(shape: &Shape) -> ResourceDescriptor {
    let mut items = vec![ResourceDescriptorItem {
        name: "cpus".to_string(),
        kind: ResourceDescriptorKind::Range {
            start: ResourceIndex::new(0),
            end: ResourceIndex::new(shape.cpus.max(1) - 1),
        },
    }];
    for (name, units) in &shape.extra {
        items.push(ResourceDescriptorItem {
            name: name.clone(),
            kind: ResourceDescriptorKind::Sum {
                size: tako::resources::ResourceAmount::new_units(*units),
            },
        });
    }
    ResourceDescriptor::new(items, Default::default())
}

fn amounts(desc: &ResourceDescriptor) -> Amounts {
    desc.resources
        .iter()
        .map(|item| {
            let size = item.kind.size();
            let (u, f) = size.split();
            (item.name.clone(), u as u64 * 10_000 + f as u64)
        })
        .collect()
}

fn worker_configuration(shape: &Shape, index: u32, manager: Option<&ManagerInfo>) -> WorkerConfiguration {
    let mut extra: tako::Map<String, String> = Default::default();
    if let Some(info) = manager {
        extra.insert(
            "JobManager".to_string(),
            serde_json::to_string(info).expect("manager info"),
        );
    }
    WorkerConfiguration {
        resources: descriptor(shape),
        listen_address: format!("simhost{index}:1"),
        hostname: format!("simhost{index}"),
        group: "default".to_string(),
        work_dir: PathBuf::from("/sim/work"),
        heartbeat_interval: Duration::from_secs(8),
        overview_configuration: Default::default(),
        idle_timeout: None,
        time_limit: None,
        retract_check_interval: Duration::from_secs(10),
        on_server_lost: ServerLostPolicy::Stop,
        min_utilization: 0.0,
        extra,
    }
}

pub fn request(rq: &Rq) -> ResourceRequestVariants {
    let mut resources = Vec::new();
    if rq.n_nodes == 0 {
        resources.push(ResourceRequestEntry {
            resource: "cpus".to_string(),
            policy: if rq.all_cpus {
                AllocationRequest::All
            } else {
                AllocationRequest::Compact(tako::resources::ResourceAmount::new_units(rq.cpus.max(1)))
            },
        });
        if let Some((name, units)) = &rq.extra {
            resources.push(ResourceRequestEntry {
                resource: name.clone(),
                policy: AllocationRequest::Compact(tako::resources::ResourceAmount::new_units(
                    (*units).max(1),
                )),
            });
        }
    }
    ResourceRequestVariants::new(
        vec![ResourceRequest {
            n_nodes: rq.n_nodes,
            resources: resources.into_iter().collect(),
            min_time: Duration::from_secs(rq.min_time_s),
            weight: Default::default(),
        }]
        .into_iter()
        .collect(),
    )
}

fn reason(r: Reason) -> LostWorkerReason {
    match r {
        Reason::Stopped => LostWorkerReason::Stopped,
        Reason::ConnectionLost => LostWorkerReason::ConnectionLost,
        Reason::HeartbeatLost => LostWorkerReason::HeartbeatLost,
        Reason::IdleTimeout => LostWorkerReason::IdleTimeout,
        Reason::TimeLimitReached => LostWorkerReason::TimeLimitReached,
    }
}

pub fn queue_parameters(spec: &QueueSpec) -> QueueParameters {
    QueueParameters {
        manager: if spec.slurm {
            ManagerType::Slurm
        } else {
            ManagerType::Pbs
        },
        max_workers_per_alloc: spec.max_workers_per_alloc,
        backlog: spec.backlog,
        timelimit: Duration::from_secs(spec.timelimit_s),
        name: None,
        max_worker_count: spec.max_worker_count,
        min_utilization: spec.min_utilization as f32 / 100.0,
        additional_args: vec![],
        worker_start_cmd: None,
        worker_stop_cmd: None,
        worker_wrap_cmd: None,
        cli_resource_descriptor: spec.cli_shape.as_ref().map(descriptor),
        worker_args: vec![],
        idle_timeout: None,
    }
}

struct Inner {
    server: SimServer,
    server_ref: tako::control::ServerRef,
    sim: SimAutoAlloc,
    batch: Rc<RefCell<Batch>>,
    events_rx: tokio::sync::mpsc::UnboundedReceiver<Event>,
    start: tokio::time::Instant,
    core_workers: BTreeMap<u32, (WorkerId, tokio::sync::mpsc::UnboundedReceiver<bytes::Bytes>)>,
    jobs: BTreeMap<u32, (Rq, Vec<TaskId>)>,
}

pub struct World {
    rt: tokio::runtime::Runtime,
    inner: Inner,
}

impl World {
    pub fn new() -> World {
        tako::verif::set_sim_clock(true);
        let rt = tokio::runtime::Builder::new_current_thread()
            .enable_all()
            .start_paused(true)
            .build()
            .expect("runtime");
        let inner = rt.block_on(async {
            let server = SimServer::new(
                "simautoalloc".to_string(),
                WorkerId::new(0),
                None,
                tako::server::SchedulerConfig {
                    proactive_filling_reserve: 16,
                    proactive_filling_max: 40,
                    mip_time_limit: Duration::from_secs(60),
                },
            );
            let server_ref = server.server_ref();
            server_ref.set_client_events(Box::new(Sink));
            let events = EventStreamer::new(None);
            let (tx, rx) = tokio::sync::mpsc::unbounded_channel::<Event>();
            events.register_listener(EventFilter::all_events(), tx);
            let sim = SimAutoAlloc::new(server_ref.clone(), events, 1);
            Inner {
                server,
                server_ref,
                sim,
                batch: Rc::new(RefCell::new(Batch::default())),
                events_rx: rx,
                start: tokio::time::Instant::now(),
                core_workers: BTreeMap::new(),
                jobs: BTreeMap::new(),
            }
        });
        World { rt, inner }
    }

    pub fn snapshot(&self) -> Snap {
        let _g = self.rt.enter();
        self.inner.snapshot()
    }

    pub fn core_view(&self) -> CoreView {
        self.inner.core_view()
    }

    pub fn now_s(&self) -> u64 {
        let _g = self.rt.enter();
        (tokio::time::Instant::now() - self.inner.start).as_secs()
    }

    pub fn batch(&self) -> std::cell::Ref<'_, Batch> {
        self.inner.batch.borrow()
    }

    pub fn job_rq(&self, job: u32) -> Option<Rq> {
        self.inner.jobs.get(&job).map(|(rq, _)| rq.clone())
    }

    pub fn jobs(&self) -> Vec<u32> {
        self.inner.jobs.keys().copied().collect()
    }

    pub fn core_worker_keys(&self) -> Vec<u32> {
        self.inner.core_workers.keys().copied().collect()
    }

    /// Executes one step against the real code
    pub fn execute(&mut self, step: &Step) -> StepObs {
        let before = self.snapshot();
        let core_before = self.core_view();
        let inner = &mut self.inner;
        let resp = self.rt.block_on(inner.exec(step));
        let now_s = self.now_s();
        let inner = &mut self.inner;
        let mut events = Vec::new();
        while let Ok(ev) = inner.events_rx.try_recv() {
            match ev.payload {
                EventPayload::AllocationQueueCreated(q, _) => events.push(Ev::QueueCreated(q)),
                EventPayload::AllocationQueueRemoved(q) => events.push(Ev::QueueRemoved(q)),
                EventPayload::AllocationQueued {
                    queue_id,
                    allocation_id,
                    worker_count,
                } => events.push(Ev::Queued {
                    queue: queue_id,
                    alloc: allocation_id,
                    workers: worker_count,
                }),
                EventPayload::AllocationStarted(q, a) => events.push(Ev::Started(q, a)),
                EventPayload::AllocationFinished(q, a) => events.push(Ev::Finished(q, a)),
                _ => {}
            }
        }
        let calls = std::mem::take(&mut inner.batch.borrow_mut().log);
        let mut truth_queued: BTreeMap<u32, usize> = BTreeMap::new();
        let mut truth_not_running = std::collections::BTreeSet::new();
        for (id, a) in &inner.batch.borrow().allocs {
            if a.state == BState::Queued {
                *truth_queued.entry(a.queue).or_insert(0) += 1;
                truth_not_running.insert(id.clone());
            }
        }
        let after = self.snapshot();
        StepObs {
            truth_queued,
            truth_not_running,
            now_s,
            before,
            after,
            core_before,
            calls,
            events,
            resp,
        }
    }
}

impl Inner {
    fn manager_info(&self, alloc: &str) -> ManagerInfo {
        let slurm = self
            .batch
            .borrow()
            .allocs
            .get(alloc)
            .map(|a| a.queue)
            .and_then(|q| {
                self.sim
                    .snapshot()
                    .queues
                    .iter()
                    .find(|s| s.id == q)
                    .map(|s| matches!(s.params.manager, ManagerType::Slurm))
            })
            .unwrap_or(false);
        ManagerInfo {
            manager: if slurm {
                ManagerType::Slurm
            } else {
                ManagerType::Pbs
            },
            allocation_id: alloc.to_string(),
            time_limit: None,
            max_memory_mb: None,
        }
    }

    async fn exec(&mut self, step: &Step) -> Resp {
        match step {
            Step::AddQueue(spec) => {
                let cell = Rc::new(Cell::new(None));
                let handler = MockHandler {
                    batch: self.batch.clone(),
                    queue: cell.clone(),
                    start: self.start,
                };
                let (result, _flag) = self
                    .sim
                    .add_queue(
                        PathBuf::from("/nonexistent/hqsim-autoalloc"),
                        queue_parameters(spec),
                        None,
                        spec.known_shape.as_ref().map(descriptor),
                        Box::new(handler),
                    )
                    .await;
                match result {
                    Ok(id) => {
                        cell.set(Some(id));
                        self.batch.borrow_mut().queues.entry(id).or_default();
                        Resp::Added(Ok(id))
                    }
                    Err(e) => Resp::Added(Err(format!("{e}"))),
                }
            }
            Step::Tasks { job, count, rq } => {
                let entry = self
                    .jobs
                    .entry(*job)
                    .or_insert_with(|| (rq.clone(), Vec::new()));
                let rq = entry.0.clone();
                let first = entry.1.len() as u32;
                let rq_id = self.server_ref.get_or_create_resource_rq_id(&request(&rq));
                let ids: Vec<TaskId> = (first..first + *count)
                    .map(|i| TaskId::new(JobId::new(*job), i.into()))
                    .collect();
                entry.1.extend(ids.iter().copied());
                let submit = TaskSubmit {
                    tasks: ids
                        .iter()
                        .map(|id| TaskConfiguration {
                            id: *id,
                            resource_rq_id: rq_id,
                            shared_data_index: 0,
                            task_deps: Default::default(),
                            entry: None,
                        })
                        .collect(),
                    shared_data: vec![SharedTaskConfiguration {
                        time_limit: None,
                        priority: UserPriority::new(0),
                        crash_limit: CrashLimit::default(),
                        body: Rc::from(Vec::<u8>::new().into_boxed_slice()),
                    }],
                    adjust_instance_id_and_crash_counters: Default::default(),
                };
                match self.server_ref.add_new_tasks(submit) {
                    Ok(()) => Resp::None,
                    Err(e) => Resp::Unit(Err(format!("{e}"))),
                }
            }
            Step::CancelJob { job } => {
                if let Some((_, ids)) = self.jobs.get(job) {
                    self.server_ref.cancel_tasks(ids);
                }
                Resp::None
            }
            Step::CoreWorker { key, shape, group } => {
                if !self.core_workers.contains_key(key) {
                    let mut cfg = worker_configuration(shape, 1000 + *key, None);
                    if *group > 0 {
                        cfg.group = format!("g{group}");
                    }
                    let (id, rx) = self.server.register_worker(cfg, tako::verif::now());
                    self.core_workers.insert(*key, (id, rx));
                }
                Resp::None
            }
            Step::CoreWorkerGone { key } => {
                if let Some((id, _rx)) = self.core_workers.remove(key) {
                    self.server.remove_worker(id, LostWorkerReason::ConnectionLost);
                }
                Resp::None
            }
            Step::JobSubmitted { job } => {
                Resp::Flag(self.sim.job_submitted(JobId::new(*job)).await)
            }
            Step::Tick => match self.sim.scheduling_tick().await {
                Ok(done) => Resp::Tick(Ok(done)),
                Err(e) => Resp::Tick(Err(format!("{e}"))),
            },
            Step::Refresh => Resp::Refreshed(self.sim.periodic_update().await),
            Step::Advance { secs } => {
                tokio::time::advance(Duration::from_secs(*secs)).await;
                Resp::None
            }
            Step::SubmitPlan { queue, outcomes } => {
                if let Some(q) = self.batch.borrow_mut().queues.get_mut(queue) {
                    q.outcomes = outcomes.iter().copied().collect();
                }
                Resp::None
            }
            Step::Report { alloc, mode } => {
                if let Some(a) = self.batch.borrow_mut().allocs.get_mut(alloc) {
                    a.report = *mode;
                }
                Resp::None
            }
            Step::StatusCallFails { queue, on } => {
                if let Some(q) = self.batch.borrow_mut().queues.get_mut(queue) {
                    q.status_fails = *on;
                }
                Resp::None
            }
            Step::RemoveFails { queue, on } => {
                if let Some(q) = self.batch.borrow_mut().queues.get_mut(queue) {
                    q.remove_fails = *on;
                }
                Resp::None
            }
            Step::BatchStart { alloc } => {
                if let Some(a) = self.batch.borrow_mut().allocs.get_mut(alloc)
                    && a.state == BState::Queued
                {
                    a.state = BState::Running;
                }
                Resp::None
            }
            Step::BatchEnd { alloc, failed } => {
                if let Some(a) = self.batch.borrow_mut().allocs.get_mut(alloc) {
                    match a.state {
                        BState::Queued => {
                            a.state = BState::Done {
                                failed: *failed,
                                started: false,
                            }
                        }
                        BState::Running => {
                            a.state = BState::Done {
                                failed: *failed,
                                started: true,
                            }
                        }
                        BState::Done { .. } => {}
                    }
                }
                Resp::None
            }
            Step::Connect {
                alloc,
                worker,
                shape,
            } => {
                let info = self.manager_info(alloc);
                let cfg = worker_configuration(shape, *worker, Some(&info));
                Resp::Flag(
                    self.sim
                        .worker_connected(WorkerId::new(*worker), cfg, info)
                        .await,
                )
            }
            Step::Lost {
                alloc,
                worker,
                reason: r,
                lifetime_s,
            } => {
                let info = self.manager_info(alloc);
                Resp::Flag(
                    self.sim
                        .worker_lost(
                            WorkerId::new(*worker),
                            info,
                            LostWorkerDetails {
                                reason: reason(*r),
                                lifetime: Duration::from_secs(*lifetime_s),
                            },
                        )
                        .await,
                )
            }
            Step::Pause { queue } => {
                let (r, _) = self.sim.pause_queue(*queue).await;
                Resp::Unit(r.map_err(|e| format!("{e}")))
            }
            Step::Resume { queue } => {
                let (r, _) = self.sim.resume_queue(*queue).await;
                Resp::Unit(r.map_err(|e| format!("{e}")))
            }
            Step::Remove { queue, force } => {
                let (r, _) = self.sim.remove_queue(*queue, *force).await;
                Resp::Unit(r.map_err(|e| format!("{e}")))
            }
            Step::Ask(Ask::Queues) => {
                let mut v: Vec<(u32, bool)> = self
                    .sim
                    .get_queues()
                    .await
                    .into_iter()
                    .map(|(id, data)| {
                        (
                            id,
                            matches!(
                                data.state,
                                hyperqueue::transfer::messages::QueueState::Paused
                            ),
                        )
                    })
                    .collect();
                v.sort();
                Resp::Queues(v)
            }
            Step::Ask(Ask::Allocations(queue)) => {
                Resp::Allocations(match self.sim.get_queue_allocations(*queue).await {
                    Ok(list) => {
                        let mut v: Vec<(String, Rank)> =
                            list.iter().map(|a| (a.id.clone(), rank(a))).collect();
                        v.sort();
                        Ok(v)
                    }
                    Err(e) => Err(format!("{e}")),
                })
            }
            Step::Ask(Ask::Allocation(alloc)) => {
                Resp::Allocation(match self.sim.get_allocation(alloc.clone()).await {
                    Ok(a) => Ok((a.id.clone(), rank(&a))),
                    Err(e) => Err(format!("{e}")),
                })
            }
        }
    }

    fn snapshot(&self) -> Snap {
        let s = self.sim.snapshot();
        let start = self.start.into_std();
        Snap {
            queues: s
                .queues
                .iter()
                .map(|q| QSnap {
                    id: q.id,
                    paused: q.paused,
                    backlog: q.params.backlog,
                    max_workers_per_alloc: q.params.max_workers_per_alloc,
                    max_worker_count: q.params.max_worker_count,
                    timelimit_s: q.params.timelimit.as_secs(),
                    min_utilization: q.params.min_utilization,
                    known: q.worker_resources.as_ref().map(amounts),
                    cli: q.params.cli_resource_descriptor.as_ref().map(amounts),
                    allocs: q.allocations.iter().map(asnap).collect(),
                    limiter: (
                        q.limiter.current_delay,
                        q.limiter
                            .last_submission
                            .map(|t| t.saturating_duration_since(start).as_secs()),
                        q.limiter.allocation_fails,
                        q.limiter.submission_fails,
                    ),
                })
                .collect(),
            index: s.allocation_index.clone(),
            inactive_directories: s.inactive_directories,
        }
    }

    fn core_view(&self) -> CoreView {
        let core = self.server.snapshot();
        let mut view = CoreView {
            workers: core.workers.len(),
            tasks: core.tasks.len(),
            ..Default::default()
        };
        for q in &core.queues {
            for (_, ids) in &q.ready {
                for id in ids {
                    *view.ready.entry(id.job_id().as_num()).or_insert(0) += 1;
                }
            }
            if let Some((_, ids)) = &q.prefill {
                for id in ids {
                    *view.prefilled.entry(id.job_id().as_num()).or_insert(0) += 1;
                }
            }
        }
        view
    }
}

fn rank(a: &Allocation) -> Rank {
    match &a.status {
        AllocationState::Queued { .. } => 0,
        AllocationState::Running { .. } => 1,
        AllocationState::Finished { .. } => 2,
        AllocationState::FinishedUnexpectedly { .. } => 3,
    }
}

fn asnap(a: &Allocation) -> ASnap {
    let conv = |d: &_| -> Vec<(u32, bool, u64)> {
        disconnected_workers(d)
            .into_iter()
            .map(|(w, details)| {
                (
                    w.as_num(),
                    details.reason.is_failure(),
                    details.lifetime.as_secs(),
                )
            })
            .collect()
    };
    let ids = |s: &tako::Set<WorkerId>| -> Vec<u32> {
        let mut v: Vec<u32> = s.iter().map(|w| w.as_num()).collect();
        v.sort();
        v
    };
    let (connected, disconnected, errors, failed) = match &a.status {
        AllocationState::Queued { status_error_count } => (vec![], vec![], *status_error_count, None),
        AllocationState::Running {
            connected_workers,
            disconnected_workers,
            status_error_count,
            ..
        } => (
            ids(connected_workers),
            conv(disconnected_workers),
            *status_error_count,
            None,
        ),
        AllocationState::Finished {
            disconnected_workers,
            ..
        } => (vec![], conv(disconnected_workers), 0, None),
        AllocationState::FinishedUnexpectedly {
            connected_workers,
            disconnected_workers,
            failed,
            ..
        } => (
            ids(connected_workers),
            conv(disconnected_workers),
            0,
            Some(*failed),
        ),
    };
    ASnap {
        id: a.id.clone(),
        target: a.target_worker_count,
        rank: rank(a),
        connected,
        disconnected,
        errors,
        failed,
    }
}
