//! End of a run: check the writer's files against what was handed over, apply the crash cuts,
//! read the directory with the real `OutputLog` (as `hq output-log <dir> summary/cat/export`) and
//! compare with what the scenario sent.

use std::collections::BTreeMap;
use std::path::PathBuf;

use hyperqueue::client::commands::outputlog::{CatOpts, Channel, ExportOpts};
use hyperqueue::common::arraydef::IntArray;
use hyperqueue::stream::reader::outputlog::OutputLog;
use tako::JobId;

use super::capture::Capture;
use super::model::*;
use super::run::{Exec, IState, lg};
use crate::sim::panic::catch;

/// What of one instance is in the files after the cuts
#[derive(Default, Clone, Debug)]
struct Vis {
    visible: bool,
    /// every streamed channel has its closing chunk in the file
    complete: bool,
    any_close: bool,
    /// per channel: sizes of the chunks whose header is in the file
    hdr: [Vec<u64>; 2],
    /// per channel: how many of them have their whole payload in the file
    full: [usize; 2],
}

enum Cat {
    Ok(Vec<u8>),
    Err(String, Vec<u8>),
}

impl Exec {
    fn reader<T>(&mut self, cap: &mut Capture, f: impl FnOnce() -> T) -> Option<(T, Vec<u8>)> {
        self.stats.reader_calls += 1;
        match cap.run(|| catch(f)) {
            Ok((Ok(v), bytes)) => Some((v, bytes)),
            Ok((Err(p), _)) => {
                self.panic_finding(&p);
                None
            }
            Err(e) => {
                self.harness_error = Some(format!("stdout capture failed: {e}"));
                self.abort = true;
                None
            }
        }
    }

    fn uid(&self) -> Option<String> {
        if self.cfg.uid_filter { Some(self.cfg.server_uid.clone()) } else { None }
    }

    fn cat(
        &mut self,
        cap: &mut Capture,
        shared: &mut Option<OutputLog>,
        ch: u32,
        task: Option<u32>,
        allow_unfinished: bool,
    ) -> Option<Cat> {
        let dir = self.dir.clone();
        let uid = self.uid();
        let job = self.cfg.job;
        let use_shared = !self.cfg.fresh_open && task.is_some();
        let mut taken = if use_shared { shared.take() } else { None };
        let r = self.reader(cap, || {
            let mut log = match taken.take() {
                Some(l) => l,
                None => match OutputLog::open(&dir, uid.as_deref()) {
                    Ok(l) => l,
                    Err(e) => return (Err(format!("open: {e}")), None),
                },
            };
            let opts = CatOpts {
                job: JobId::new(job),
                channel: if ch == 0 { Channel::Stdout } else { Channel::Stderr },
                task: task.map(IntArray::from_id),
                allow_unfinished,
            };
            let r = log.cat(&opts).map_err(|e| format!("{e}"));
            (r, Some(log))
        });
        let ((res, log), bytes) = r?;
        if use_shared {
            *shared = log;
        }
        let what = match task {
            Some(t) => format!("t{t}"),
            None => "job".to_string(),
        };
        match res {
            Ok(()) => {
                lg!(self, "cat {what} c{ch} au={allow_unfinished} -> ok {} bytes {:016x}", bytes.len(), hash_bytes(&bytes));
                Some(Cat::Ok(bytes))
            }
            Err(e) => {
                lg!(self, "cat {what} c{ch} au={allow_unfinished} -> error {e:?} after {} bytes", bytes.len());
                Some(Cat::Err(e, bytes))
            }
        }
    }

    pub fn finish(&mut self, cap: &mut Capture) {
        if self.abort {
            return;
        }
        let job = self.cfg.job;
        /* ---- 1. the files as the writers left them ---------------------------------- */
        let mut final_len: Vec<u64> = vec![0; self.workers.len()];
        for w in 0..self.workers.len() {
            if !self.workers[w].opened {
                continue;
            }
            let Some(path) = self.workers[w].path.clone() else {
                self.harness_error = Some(format!("worker {} opened a stream but has no file", self.workers[w].id));
                return;
            };
            let bytes = match std::fs::read(&path) {
                Ok(b) => b,
                Err(e) => {
                    self.harness_error = Some(format!("cannot read {}: {e}", path.display()));
                    return;
                }
            };
            if bytes.len() as u64 != self.workers[w].f {
                self.harness_error = Some(format!(
                    "file of worker {} has {} bytes after the runtime was dropped, the model expects {}",
                    self.workers[w].id,
                    bytes.len(),
                    self.workers[w].f
                ));
                return;
            }
            self.check_file(w, &bytes);
            self.stats.files += 1;
            let len = match self.workers[w].cut {
                Some(cut) => {
                    let r = std::fs::OpenOptions::new().write(true).open(&path).and_then(|f| f.set_len(cut));
                    if let Err(e) = r {
                        self.harness_error = Some(format!("cannot cut {}: {e}", path.display()));
                        return;
                    }
                    self.classify_cut(w, cut, bytes.len() as u64);
                    cut
                }
                None => bytes.len() as u64,
            };
            final_len[w] = len;
            self.stats.bytes_on_disk += len;
        }
        if self.stats.files >= 2 {
            self.probe("several_files_in_directory");
        }
        /* ---- 2. discovery order ------------------------------------------------------- */
        let mut discovery: Vec<u32> = Vec::new();
        if let Ok(rd) = std::fs::read_dir(&self.dir) {
            for e in rd.flatten() {
                let p: PathBuf = e.path();
                if let Some(w) = self.workers.iter().find(|w| w.path.as_ref() == Some(&p)) {
                    discovery.push(w.id);
                }
            }
        }
        lg!(self, "discovery order (tmpfs: newest file first) {discovery:?}");
        /* ---- 3. what is visible ------------------------------------------------------- */
        let mut vis: BTreeMap<(u32, u32), Vis> = BTreeMap::new();
        for (w, ws) in self.workers.iter().enumerate() {
            if !ws.opened || final_len[w] < ws.file_header_len {
                continue;
            }
            for c in &ws.layout {
                if c.data_start > final_len[w] {
                    break;
                }
                let v = vis.entry((c.t, c.i)).or_default();
                v.visible = true;
                v.hdr[c.c as usize].push(c.size);
                if c.end() <= final_len[w] {
                    v.full[c.c as usize] += 1;
                }
                if c.size == 0 {
                    v.any_close = true;
                }
            }
        }
        for inst in &self.insts {
            if let Some(v) = vis.get_mut(&(inst.t, inst.i)) {
                v.complete = (0..2).all(|ch| !inst.lanes[ch].piped || v.hdr[ch].last() == Some(&0))
                    && (0..2).all(|ch| v.full[ch] == v.hdr[ch].len());
            }
        }
        // flush acknowledged => everything of the instance is in the file
        for idx in 0..self.insts.len() {
            let (t, i, state) = (self.insts[idx].t, self.insts[idx].i, self.insts[idx].state);
            if state == IState::Acked {
                let sent: usize = self.insts[idx].lanes.iter().map(|l| l.sent.len()).sum();
                let ok = if sent == 0 {
                    true
                } else {
                    vis.get(&(t, i))
                        .map(|v| {
                            (0..2).all(|ch| v.hdr[ch].len() == self.insts[idx].lanes[ch].sent.len() && v.full[ch] == v.hdr[ch].len())
                        })
                        .unwrap_or(false)
                };
                if !ok {
                    let w = self.insts[idx].w;
                    self.finding(
                        "flushed-data-not-in-file",
                        "",
                        format!(
                            "flush of task {t} instance {i} was acknowledged but the file of worker {} ({} bytes) does not hold all its {sent} chunks",
                            self.workers[w].id, final_len[w]
                        ),
                    );
                }
            }
        }
        // effective last instance per task
        struct TaskExp {
            t: u32,
            last: Option<u32>,
            n_visible: usize,
        }
        let mut texp: Vec<TaskExp> = Vec::new();
        let cfg_tasks = self.cfg.tasks.clone();
        for tc in &cfg_tasks {
            let mut ids: Vec<u32> = tc.instances.iter().map(|i| i.id).filter(|i| vis.get(&(tc.id, *i)).map(|v| v.visible).unwrap_or(false)).collect();
            ids.sort();
            ids.dedup();
            texp.push(TaskExp { t: tc.id, last: ids.last().copied(), n_visible: ids.len() });
            if ids.len() >= 2 {
                self.probe("superseded_instance_present");
                // the file of a superseded instance is discovered after the file of the last one
                let wl = self.insts[self.index[&(tc.id, *ids.last().unwrap())]].w;
                let w0 = self.insts[self.index[&(tc.id, ids[0])]].w;
                let pos = |w: usize| discovery.iter().position(|id| *id == self.workers[w].id);
                if pos(w0) > pos(wl) {
                    self.probe("superseded_instance_indexed_after_last");
                }
            }
            let highest = tc.instances.iter().map(|i| i.id).max();
            if ids.last().copied() != highest && !ids.is_empty() {
                self.probe("newest_instance_left_no_trace");
            }
        }
        texp.sort_by_key(|t| t.t);
        {
            let mut sig = format!("f{} c{}", self.workers.iter().filter(|w| w.opened).count(), self.workers.iter().filter(|w| w.crashed).count());
            let mut per: Vec<String> = texp
                .iter()
                .map(|t| format!("{}{}", t.n_visible, match t.last { Some(l) => if vis[&(t.t, l)].complete { 'c' } else if vis[&(t.t, l)].any_close { 'h' } else { 'p' }, None => '-' }))
                .collect();
            per.sort();
            sig.push_str(&per.join(","));
            sig.push_str(if self.probes.contains_key("backpressure_send_blocked") { " bp" } else { "" });
            self.abstract_state = hash_bytes(sig.as_bytes());
        }
        let n_files_valid = (0..self.workers.len()).filter(|w| self.workers[*w].opened && final_len[*w] >= self.workers[*w].file_header_len).count();
        let n_files_any = self.workers.iter().filter(|w| w.opened).count();
        /* ---- 4. summary ----------------------------------------------------------------- */
        let dir = self.dir.clone();
        let uid = self.uid();
        let Some((summary, _)) = self.reader(cap, || OutputLog::open(&dir, uid.as_deref()).map(|l| l.summary()).map_err(|e| format!("{e}"))) else {
            return;
        };
        let summary = match summary {
            Ok(s) => s,
            Err(e) => {
                lg!(self, "open -> error {e:?}");
                if n_files_any > 0 {
                    self.finding("open-error", "", format!("OutputLog::open failed on a directory with {n_files_any} stream file(s) of one server: {e}"));
                } else {
                    self.probe("empty_directory_rejected");
                }
                return;
            }
        };
        lg!(
            self,
            "summary files={} jobs={} tasks={} streams={} opened={} out={} err={} superseded={} sout={} serr={}",
            summary.n_files, summary.n_jobs, summary.n_tasks, summary.n_streams, summary.n_opened, summary.stdout_size,
            summary.stderr_size, summary.n_superseded, summary.superseded_stdout_size, summary.superseded_stderr_size
        );
        let n_tasks_vis = texp.iter().filter(|t| t.last.is_some()).count() as u64;
        let n_streams_vis: u64 = texp.iter().map(|t| t.n_visible as u64).sum();
        let mut exact: Vec<(&str, u64, u64)> = vec![
            ("n_files", summary.n_files as u64, n_files_valid as u64),
            ("n_jobs", summary.n_jobs as u64, (n_tasks_vis > 0) as u64),
            ("n_tasks", summary.n_tasks, n_tasks_vis),
            ("n_streams", summary.n_streams, n_streams_vis),
            ("n_superseded", summary.n_superseded, n_streams_vis - n_tasks_vis),
        ];
        // bounds: a cut chunk may or may not be counted
        let mut opened = (0u64, 0u64);
        let mut sizes = [(0u64, 0u64); 4]; // stdout, stderr, superseded stdout, superseded stderr
        for te in &texp {
            let Some(last) = te.last else { continue };
            for ((t, i), v) in vis.range((te.t, 0)..=(te.t, u32::MAX)) {
                if !v.visible {
                    continue;
                }
                let _ = t;
                let base = if *i == last { 0 } else { 2 };
                for ch in 0..2 {
                    let lo: u64 = v.hdr[ch][..v.full[ch]].iter().sum();
                    let hi: u64 = v.hdr[ch].iter().sum();
                    sizes[base + ch].0 += lo;
                    sizes[base + ch].1 += hi;
                }
                if *i == last {
                    if !v.any_close {
                        opened.0 += 1;
                    }
                    if !v.complete {
                        opened.1 += 1;
                    }
                }
            }
        }
        let all_certain = sizes.iter().all(|(lo, hi)| lo == hi);
        if all_certain {
            exact.push(("stdout_size", summary.stdout_size, sizes[0].0));
            exact.push(("stderr_size", summary.stderr_size, sizes[1].0));
            exact.push(("superseded_stdout_size", summary.superseded_stdout_size, sizes[2].0));
            exact.push(("superseded_stderr_size", summary.superseded_stderr_size, sizes[3].0));
        }
        for (name, got, want) in exact {
            if got != want {
                self.finding("summary", name, format!("summary reports {name}={got}, the files hold {want} (visible instances per task: {:?})", texp.iter().map(|t| (t.t, t.n_visible)).collect::<Vec<_>>()));
            }
        }
        let ranged = [
            ("n_opened", summary.n_opened, opened),
            ("stdout_size", summary.stdout_size, sizes[0]),
            ("stderr_size", summary.stderr_size, sizes[1]),
            ("superseded_stdout_size", summary.superseded_stdout_size, sizes[2]),
            ("superseded_stderr_size", summary.superseded_stderr_size, sizes[3]),
        ];
        for (name, got, (lo, hi)) in ranged {
            if got < lo || got > hi {
                self.finding("summary", name, format!("summary reports {name}={got}, outside of what the files allow [{lo}, {hi}]"));
            }
        }
        /* ---- 5. per task ---------------------------------------------------------------- */
        let mut shared: Option<OutputLog> = None;
        let mut complete_tasks: Vec<u32> = Vec::new();
        let mut nontrivial = false;
        for te in &texp {
            let t = te.t;
            let Some(last) = te.last else {
                // nothing of the task is in the files: no output may be attributed to it
                for ch in 0..2 {
                    match self.cat(cap, &mut shared, ch, Some(t), true) {
                        None => return,
                        Some(Cat::Ok(b)) | Some(Cat::Err(_, b)) => {
                            if !b.is_empty() {
                                let who = attribute(&b, 0);
                                self.finding("ghost-output", "", format!("task {t} has no chunk in any file, but cat --task {t} channel {ch} printed {} bytes (written by {who:?})", b.len()));
                            }
                        }
                    }
                }
                self.probe("task_without_trace");
                continue;
            };
            let idx = self.index[&(t, last)];
            let v = vis[&(t, last)].clone();
            let acked = self.insts[idx].state == IState::Acked;
            for ch in 0..2u32 {
                let c = ch as usize;
                let sent_total: u64 = self.insts[idx].lanes[c].sent.iter().map(|s| *s as u64).sum();
                let full = fill(t, last, ch, 0, sent_total);
                if v.complete {
                    // statement: exactly the bytes, in order, stream finished
                    match self.cat(cap, &mut shared, ch, Some(t), false) {
                        None => return,
                        Some(Cat::Ok(b)) => {
                            if let Some((kind, why)) = explain_mismatch(t, last, ch, &full, &b) {
                                self.finding(
                                    "readback-mismatch",
                                    &kind,
                                    format!(
                                        "task {t}: last instance {last} (flush acknowledged: {acked}) is completely in the file, cat --task {t} channel {ch}: {why}; instances of the task in the files: {}",
                                        te.n_visible
                                    ),
                                );
                            } else if !b.is_empty() {
                                nontrivial = true;
                            }
                        }
                        Some(Cat::Err(e, _)) => {
                            let key = if e.contains("not finished") { "reported-unfinished" } else { "error" };
                            self.finding(
                                "cat-fails-on-finished-task",
                                key,
                                format!("task {t}: last instance {last} (flush acknowledged: {acked}) is completely in the file, but cat --task {t} channel {ch} fails: {e}"),
                            );
                        }
                    }
                    if sent_total == 0 && self.insts[idx].lanes[c].piped {
                        self.probe("empty_output_channel_read");
                    }
                } else {
                    // the last instance was cut / still runs: error or a chunk-aligned prefix
                    self.probe("partial_last_instance_read");
                    for au in [false, true] {
                        let r = self.cat(cap, &mut shared, ch, Some(t), au);
                        let (b, err) = match r {
                            None => return,
                            Some(Cat::Ok(b)) => (b, None),
                            Some(Cat::Err(e, b)) => (b, Some(e)),
                        };
                        if err.is_none() && !au {
                            self.probe("partial_instance_reported_finished");
                        }
                        if err.is_some() {
                            self.probe("partial_instance_cat_error");
                        }
                        if b.len() <= full.len() && b[..] == full[..b.len()] {
                            // a prefix; without an error it must end at a chunk boundary
                            if err.is_none() {
                                let mut acc = 0u64;
                                let mut aligned = b.is_empty();
                                for s in &self.insts[idx].lanes[c].sent {
                                    acc += *s as u64;
                                    if acc == b.len() as u64 {
                                        aligned = true;
                                    }
                                }
                                if !aligned {
                                    self.finding("partial-not-chunk-aligned", "", format!("task {t}: last instance {last} is only partly in the file; cat --task {t} channel {ch} (allow_unfinished={au}) succeeded with {} bytes, which is not a chunk boundary of what was sent {:?}", b.len(), self.insts[idx].lanes[c].sent));
                                }
                                let on_disk: u64 = v.hdr[c][..v.full[c]].iter().sum();
                                if b.len() as u64 > on_disk {
                                    self.finding("partial-more-than-file", "", format!("task {t} instance {last} channel {ch}: {} bytes returned, only {on_disk} are in the file", b.len()));
                                }
                            }
                        } else {
                            let (kind, why) = explain_mismatch(t, last, ch, &full, &b).unwrap_or(("garbage".into(), String::new()));
                            self.finding(
                                "partial-not-prefix",
                                &kind,
                                format!("task {t}: last instance {last} is only partly in the file; cat --task {t} channel {ch} (allow_unfinished={au}, result {err:?}) printed bytes that are not a prefix of what the instance sent: {why}"),
                            );
                        }
                    }
                }
            }
            if v.complete {
                complete_tasks.push(t);
            }
        }
        drop(shared);
        /* ---- 6. whole job, export -------------------------------------------------------- */
        let visible_tasks: Vec<u32> = texp.iter().filter(|t| t.last.is_some()).map(|t| t.t).collect();
        if !visible_tasks.is_empty() && visible_tasks.len() == complete_tasks.len() {
            self.probe("whole_job_cat_checked");
            for ch in 0..2u32 {
                let mut want = Vec::new();
                for te in &texp {
                    let Some(last) = te.last else { continue };
                    let idx = self.index[&(te.t, last)];
                    let total: u64 = self.insts[idx].lanes[ch as usize].sent.iter().map(|s| *s as u64).sum();
                    want.extend_from_slice(&fill(te.t, last, ch, 0, total));
                }
                let mut none = None;
                match self.cat(cap, &mut none, ch, None, false) {
                    None => return,
                    Some(Cat::Ok(b)) => {
                        if b != want {
                            let common = b.iter().zip(want.iter()).take_while(|(a, b)| a == b).count();
                            self.finding(
                                "job-cat-mismatch",
                                "",
                                format!(
                                    "every task is completely in the files; cat of the whole job channel {ch} returned {} bytes, expected the outputs of tasks {visible_tasks:?} in this order ({} bytes); first difference at {common}: reader has bytes of {:?}, expected bytes of {:?}",
                                    b.len(),
                                    want.len(),
                                    attribute(&b, common),
                                    attribute(&want, common)
                                ),
                            );
                        }
                    }
                    Some(Cat::Err(e, _)) => {
                        self.finding("job-cat-mismatch", "error", format!("every task is completely in the files, but cat of the whole job channel {ch} fails: {e}"));
                    }
                }
            }
        }
        if !complete_tasks.is_empty() {
            self.probe("export_checked");
            let dir = self.dir.clone();
            let uid = self.uid();
            let ids = complete_tasks.clone();
            let r = self.reader(cap, || {
                let mut log = OutputLog::open(&dir, uid.as_deref()).map_err(|e| format!("open: {e}"))?;
                log.export(&ExportOpts { job: JobId::new(job), task: Some(IntArray::from_sorted_ids(ids.into_iter())) })
                    .map_err(|e| format!("{e}"))
            });
            let Some((res, bytes)) = r else { return };
            lg!(self, "export {complete_tasks:?} -> {:?} {} bytes {:016x}", res, bytes.len(), hash_bytes(&bytes));
            match res {
                Err(e) => self.finding("export-mismatch", "error", format!("export of the completely stored tasks {complete_tasks:?} fails: {e}")),
                Ok(()) => match serde_json::from_slice::<serde_json::Value>(&bytes) {
                    Ok(serde_json::Value::Array(items)) => {
                        if items.len() != complete_tasks.len() {
                            self.finding("export-mismatch", "count", format!("export of tasks {complete_tasks:?} returned {} entries", items.len()));
                        }
                        for (item, t) in items.iter().zip(complete_tasks.iter()) {
                            let last = texp.iter().find(|x| x.t == *t).unwrap().last.unwrap();
                            let idx = self.index[&(*t, last)];
                            let total: u64 = self.insts[idx].lanes[0].sent.iter().map(|s| *s as u64).sum();
                            let want = fill(*t, last, 0, 0, total);
                            let id_ok = item.get("id").and_then(|x| x.as_u64()) == Some(*t as u64);
                            let fin = item.get("finished").and_then(|x| x.as_bool()) == Some(true);
                            let out = item.get("stdout").and_then(|x| x.as_str()).unwrap_or("").as_bytes().to_vec();
                            if !id_ok || !fin {
                                self.finding("export-mismatch", "meta", format!("export entry for task {t}: {}", serde_json::to_string(&serde_json::json!({"id": item.get("id"), "finished": item.get("finished")})).unwrap()));
                            }
                            if let Some((kind, why)) = explain_mismatch(*t, last, 0, &want, &out) {
                                self.finding("export-mismatch", &kind, format!("export of task {t} (instance {last} completely stored): stdout {why}"));
                            }
                        }
                    }
                    _ => self.finding("export-mismatch", "format", format!("export did not print a JSON array ({} bytes)", bytes.len())),
                },
            }
        }
        if nontrivial {
            self.probe("nontrivial");
        }
    }

    /// Writer side: the file must hold exactly what was handed to the writer, in the order of
    /// admission to its queue (minus the tail that is still in the BufWriter).
    fn check_file(&mut self, w: usize, bytes: &[u8]) {
        let pf = parse_file(bytes);
        let wid = self.workers[w].id;
        if let Some(m) = &pf.malformed {
            self.finding("writer-file", "malformed", format!("file of worker {wid}: {m}"));
            return;
        }
        let len = bytes.len() as u64;
        let fh = self.workers[w].file_header_len;
        if len >= fh {
            if !pf.header_ok || pf.server_uid != self.cfg.server_uid || pf.worker_id != wid || pf.header_len != fh {
                self.finding("writer-file", "header", format!("file of worker {wid}: header uid {:?} worker {} length {} (ok={})", pf.server_uid, pf.worker_id, pf.header_len, pf.header_ok));
                return;
            }
        } else {
            return;
        }
        let expected: Vec<_> = self.workers[w].layout.iter().take_while(|c| c.data_start <= len).cloned().collect();
        if pf.chunks.len() != expected.len() {
            self.finding("writer-file", "count", format!("file of worker {wid} ({len} bytes) holds {} chunk headers, {} were handed over up to that length", pf.chunks.len(), expected.len()));
            return;
        }
        let job = self.cfg.job;
        let mut interleaved = false;
        for (k, (p, e)) in pf.chunks.iter().zip(expected.iter()).enumerate() {
            if (p.job, p.task, p.instance, p.channel, p.size, p.hdr_start, p.data_start) != (job, e.t, e.i, e.c, e.size, e.hdr_start, e.data_start) {
                self.finding(
                    "writer-file",
                    "order",
                    format!(
                        "file of worker {wid}: chunk #{k} at {} is (task {}, instance {}, channel {}, {} bytes), the {k}-th message admitted to the queue was (task {}, instance {}, channel {}, {} bytes at {})",
                        p.hdr_start, p.task, p.instance, p.channel, p.size, e.t, e.i, e.c, e.size, e.hdr_start
                    ),
                );
                return;
            }
            let avail = (len.min(e.end()) - e.data_start) as usize;
            let want = fill(e.t, e.i, e.c, e.lane_offset, avail as u64);
            let got = &bytes[e.data_start as usize..e.data_start as usize + avail];
            if got != &want[..] {
                self.finding("writer-file", "content", format!("file of worker {wid}: payload of chunk #{k} (task {}, instance {}, channel {}, stream offset {}) differs from what was sent; it holds bytes of {:?}", e.t, e.i, e.c, e.lane_offset, attribute(got, 0)));
                return;
            }
            if k > 0 && (expected[k - 1].t, expected[k - 1].i) != (e.t, e.i) {
                interleaved = true;
            }
            if e.size == STDIO_BUFFER_SIZE as u64 {
                self.probe("chunk_at_stdio_buffer_size");
            }
            if e.size > STDIO_BUFFER_SIZE as u64 {
                self.probe("chunk_larger_than_stdio_buffer");
            }
        }
        if interleaved {
            self.probe("tasks_interleaved_in_one_file");
        }
    }

    fn classify_cut(&mut self, w: usize, cut: u64, len: u64) {
        let ws = &self.workers[w];
        let name = if len == 0 {
            "cut_nothing_had_reached_the_file"
        } else if cut < ws.file_header_len {
            "cut_inside_file_header"
        } else if cut == len {
            "cut_loses_only_buffered_tail"
        } else if let Some(c) = ws.layout.iter().find(|c| c.hdr_start <= cut && cut < c.end().max(c.data_start)) {
            if cut == c.hdr_start {
                "cut_at_chunk_boundary"
            } else if cut < c.data_start {
                "cut_inside_chunk_header"
            } else {
                "cut_inside_payload"
            }
        } else {
            "cut_at_chunk_boundary"
        };
        let flushed = ws.flushed_len;
        self.probe(name);
        if cut == flushed && cut < len {
            self.probe("cut_at_last_acknowledged_flush");
        }
    }
}
