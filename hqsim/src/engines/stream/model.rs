//! Scenario types of the `stream` engine, the attributable content function, and an independent
//! decoder of the stream file format (written from the format description in
//! `transfer/stream.rs` + bincode's documented varint encoding; it shares no code with the reader
//! under test).

use serde::{Deserialize, Serialize};

/// Size of the read buffer in `worker/start/program.rs` (`STDIO_BUFFER_SIZE`): the largest chunk a
/// real task can produce.
pub const STDIO_BUFFER_SIZE: u32 = 16 * 1024;
/// Depth of the per-directory writer queue in `worker/streamer.rs` (`STREAMER_BUFFER_SIZE`).
pub const QUEUE_DEPTH: usize = 128;
/// Capacity of tokio's `BufWriter` (`DEFAULT_BUF_SIZE`), used by the harness model of "what has
/// reached the OS" to know when the writer task is quiescent.
pub const BUFWRITER_CAP: u64 = 8 * 1024;
pub const FILE_MAGIC: &[u8] = b"hqsf0000";

#[derive(Clone, Debug, Serialize, Deserialize, PartialEq, Eq)]
pub struct InstCfg {
    /// instance id
    pub id: u32,
    /// worker id the instance runs on
    pub worker: u32,
    /// is stdout / stderr streamed (`StdioDef::Pipe`)
    pub stdout: bool,
    pub stderr: bool,
}

impl InstCfg {
    pub fn piped(&self, ch: u32) -> bool {
        if ch == 0 { self.stdout } else { self.stderr }
    }
}

#[derive(Clone, Debug, Serialize, Deserialize, PartialEq, Eq)]
pub struct TaskCfg {
    /// job task id
    pub id: u32,
    pub instances: Vec<InstCfg>,
}

#[derive(Clone, Debug, Serialize, Deserialize, PartialEq, Eq)]
pub struct Config {
    pub server_uid: String,
    pub job: u32,
    /// worker ids; every worker is one `StreamerRef` and (once it opened a stream) one file
    pub workers: Vec<u32>,
    pub tasks: Vec<TaskCfg>,
    /// `true`: every reader command works on a freshly opened `OutputLog` (as the CLI does);
    /// `false`: the per-task `cat` calls share one `OutputLog` (whole-job cat, export and summary
    /// still open their own)
    pub fresh_open: bool,
    /// pass `--server-uid` to the reader
    pub uid_filter: bool,
}

/// One scheduler decision. Everything needed for re-execution is explicit.
#[derive(Clone, Debug, Serialize, Deserialize, PartialEq, Eq)]
pub enum Step {
    /// task instance starts streaming: `Streamer::get_stream` (the first one of a worker spawns
    /// the writer task and creates the file)
    Open { t: u32, i: u32 },
    /// the `resend_stdio` loop of channel `ch` sends its next chunk of `size` bytes (0 = the
    /// closing chunk after EOF)
    Send { t: u32, i: u32, ch: u32, size: u32 },
    /// the task future ends: lanes that are still open are dropped (stop/cancel path), then
    /// `StreamSender::flush`
    End { t: u32, i: u32 },
    /// the runtime runs until every writer task is idle, then the pending send/flush futures are
    /// polled in `order` ((task, instance, kind) kind 0/1 = channel, 2 = flush)
    Drain { order: Vec<(u32, u32, u32)> },
    /// worker process dies: the file keeps `length - cut_back` bytes (never less than what the
    /// last acknowledged flush covered)
    Crash { w: u32, cut_back: u64 },
}

#[derive(Clone, Debug, Serialize, Deserialize, PartialEq, Eq)]
pub struct Trace {
    pub config: Config,
    pub steps: Vec<Step>,
}

/* ---------------------------------------------------------------------------------------- */
/* Attributable content                                                                     */
/* ---------------------------------------------------------------------------------------- */

pub const REC: u64 = 24;

const HEX: &[u8; 16] = b"0123456789abcdef";

fn put_hex(dst: &mut [u8], mut v: u64) {
    for d in dst.iter_mut().rev() {
        *d = HEX[(v & 15) as usize];
        v >>= 4;
    }
}

/// Record `k` of stream (task, instance, channel): `tTTTTTTiIIIIcC@KKKKKKKK\n` (24 bytes).
pub fn record(t: u32, i: u32, c: u32, k: u64) -> [u8; REC as usize] {
    let mut r = *b"t000000i0000c0@00000000\n";
    put_hex(&mut r[1..7], t as u64);
    put_hex(&mut r[8..12], i as u64);
    put_hex(&mut r[13..14], c as u64);
    put_hex(&mut r[15..23], k);
    r
}

/// Bytes `offset .. offset+len` of the stream (task, instance, channel): byte `o` is byte
/// `o % 24` of record `o / 24`.
pub fn fill(t: u32, i: u32, c: u32, offset: u64, len: u64) -> Vec<u8> {
    let mut out = Vec::with_capacity(len as usize);
    if len == 0 {
        return out;
    }
    let mut k = offset / REC;
    let mut r = record(t, i, c, k);
    let skip = (offset % REC) as usize;
    let first = (REC as usize - skip).min(len as usize);
    out.extend_from_slice(&r[skip..skip + first]);
    while (out.len() as u64) < len {
        k += 1;
        put_hex(&mut r[15..23], k);
        let n = (len as usize - out.len()).min(REC as usize);
        out.extend_from_slice(&r[..n]);
    }
    out
}

fn hex_val(b: &[u8]) -> Option<u64> {
    let mut v = 0u64;
    for c in b {
        let d = match c {
            b'0'..=b'9' => c - b'0',
            b'a'..=b'f' => c - b'a' + 10,
            _ => return None,
        };
        v = v * 16 + d as u64;
    }
    Some(v)
}

/// Who wrote `bytes[pos]`? Looks for the first complete record at or after `pos` and derives
/// (task, instance, channel, stream offset of bytes[pos]).
pub fn attribute(bytes: &[u8], pos: usize) -> Option<(u32, u32, u32, i64)> {
    let n = REC as usize;
    let parse = |j: usize| -> Option<(u32, u32, u32, u64)> {
        if j + n > bytes.len() {
            return None;
        }
        let r = &bytes[j..j + n];
        if r[0] == b't' && r[7] == b'i' && r[12] == b'c' && r[14] == b'@' && r[23] == b'\n' {
            Some((
                hex_val(&r[1..7])? as u32,
                hex_val(&r[8..12])? as u32,
                hex_val(&r[13..14])? as u32,
                hex_val(&r[15..23])?,
            ))
        } else {
            None
        }
    };
    // a record that contains bytes[pos]
    for j in (pos.saturating_sub(n - 1)..=pos).rev() {
        if let Some((t, i, c, k)) = parse(j) {
            return Some((t, i, c, (k * REC) as i64 + (pos - j) as i64));
        }
    }
    // the first record after it
    for j in pos + 1..pos + 2 * n {
        if let Some((t, i, c, k)) = parse(j) {
            return Some((t, i, c, (k * REC) as i64 - (j - pos) as i64));
        }
    }
    None
}

/// Compares what the reader returned with the expected bytes of stream (t, i, c).
/// `None` = equal. Otherwise (kind, explanation).
pub fn explain_mismatch(t: u32, i: u32, c: u32, expected: &[u8], got: &[u8]) -> Option<(String, String)> {
    if expected == got {
        return None;
    }
    let common = expected.iter().zip(got.iter()).take_while(|(a, b)| a == b).count();
    if common == got.len() && got.len() < expected.len() {
        return Some((
            "missing-tail".into(),
            format!(
                "returned {} of {} bytes: a correct prefix, the last {} bytes are missing",
                got.len(),
                expected.len(),
                expected.len() - got.len()
            ),
        ));
    }
    let who = attribute(got, common);
    let tail = if common == expected.len() { "after the complete expected output" } else { "" };
    let (kind, what) = match who {
        Some((t2, i2, c2, off)) => {
            if t2 != t {
                ("foreign-task", format!("bytes written by task {t2} instance {i2} channel {c2} (its offset {off})"))
            } else if i2 != i {
                ("other-instance", format!("bytes written by instance {i2} of the same task (channel {c2}, its offset {off})"))
            } else if c2 != c {
                ("other-channel", format!("bytes of channel {c2} of the same instance (its offset {off})"))
            } else if off == common as i64 {
                ("garbage", "bytes that look like the right record but differ from what was sent".to_string())
            } else if off > common as i64 {
                ("gap", format!("bytes of the same stream from offset {off}: {} bytes were skipped", off - common as i64))
            } else {
                ("reordered", format!("bytes of the same stream from the earlier offset {off} (repeated or reordered)"))
            }
        }
        None => ("garbage", {
            let end = (common + 24).min(got.len());
            format!("bytes that no task wrote: {:?}", String::from_utf8_lossy(&got[common..end]))
        }),
    };
    Some((
        kind.to_string(),
        format!(
            "returned {} bytes, expected {}; first difference at offset {common} {tail}: there the reader returned {what}",
            got.len(),
            expected.len()
        ),
    ))
}

/* ---------------------------------------------------------------------------------------- */
/* Independent decoder of the file format                                                   */
/* ---------------------------------------------------------------------------------------- */

/// Length of bincode's varint encoding of an unsigned value.
pub fn varint_len(v: u64) -> u64 {
    if v < 251 {
        1
    } else if v < (1 << 16) {
        3
    } else if v < (1 << 32) {
        5
    } else {
        9
    }
}

/// Length of a serialised `StreamChunkHeader` (time: zigzag varint of milliseconds since 1970 =
/// 9 bytes for every date after January 1970).
pub fn chunk_header_len(job: u32, task: u32, instance: u32, channel: u32, size: u64) -> u64 {
    9 + varint_len(job as u64)
        + varint_len(task as u64)
        + varint_len(instance as u64)
        + varint_len(channel as u64)
        + varint_len(size)
}

/// Length of the file header after the magic: string (varint length + bytes) + worker id.
pub fn file_header_len(server_uid: &str, worker_id: u32) -> u64 {
    varint_len(server_uid.len() as u64) + server_uid.len() as u64 + varint_len(worker_id as u64)
}

fn get_varint(buf: &[u8], pos: &mut usize) -> Result<u64, bool> {
    // Err(true) = end of data, Err(false) = malformed
    let Some(&b) = buf.get(*pos) else { return Err(true) };
    let (n, v): (usize, u64) = match b {
        0..=250 => (0, b as u64),
        251 => (2, 0),
        252 => (4, 0),
        253 => (8, 0),
        _ => return Err(false),
    };
    if n == 0 {
        *pos += 1;
        return Ok(v);
    }
    if *pos + 1 + n > buf.len() {
        return Err(true);
    }
    let mut x = 0u64;
    for k in 0..n {
        x |= (buf[*pos + 1 + k] as u64) << (8 * k);
    }
    *pos += 1 + n;
    Ok(x)
}

#[derive(Clone, Debug)]
pub struct PChunk {
    pub hdr_start: u64,
    pub data_start: u64,
    pub size: u64,
    pub job: u32,
    pub task: u32,
    pub instance: u32,
    pub channel: u32,
    pub time_ms: i64,
}

#[derive(Clone, Debug, Default)]
pub struct ParsedFile {
    pub header_ok: bool,
    pub server_uid: String,
    pub worker_id: u32,
    /// magic + file header
    pub header_len: u64,
    /// chunks whose header is complete (the payload of the last one may be cut)
    pub chunks: Vec<PChunk>,
    pub malformed: Option<String>,
}

pub fn parse_file(buf: &[u8]) -> ParsedFile {
    let mut out = ParsedFile::default();
    if buf.len() < FILE_MAGIC.len() {
        return out;
    }
    if &buf[..FILE_MAGIC.len()] != FILE_MAGIC {
        out.malformed = Some("bad magic".into());
        return out;
    }
    let mut pos = FILE_MAGIC.len();
    let len = match get_varint(buf, &mut pos) {
        Ok(l) => l as usize,
        Err(eof) => {
            if !eof {
                out.malformed = Some("bad uid length".into());
            }
            return out;
        }
    };
    if pos + len > buf.len() {
        return out;
    }
    out.server_uid = String::from_utf8_lossy(&buf[pos..pos + len]).into_owned();
    pos += len;
    match get_varint(buf, &mut pos) {
        Ok(w) => out.worker_id = w as u32,
        Err(eof) => {
            if !eof {
                out.malformed = Some("bad worker id".into());
            }
            return out;
        }
    }
    out.header_ok = true;
    out.header_len = pos as u64;
    loop {
        let hdr_start = pos;
        let mut p = pos;
        let mut fields = [0u64; 6];
        let mut eof = false;
        for f in fields.iter_mut() {
            match get_varint(buf, &mut p) {
                Ok(v) => *f = v,
                Err(true) => {
                    eof = true;
                    break;
                }
                Err(false) => {
                    out.malformed = Some(format!("malformed chunk header at {hdr_start}"));
                    return out;
                }
            }
        }
        if eof {
            break;
        }
        let z = fields[0];
        let time_ms = ((z >> 1) as i64) ^ -((z & 1) as i64);
        out.chunks.push(PChunk {
            hdr_start: hdr_start as u64,
            data_start: p as u64,
            size: fields[5],
            job: fields[1] as u32,
            task: fields[2] as u32,
            instance: fields[3] as u32,
            channel: fields[4] as u32,
            time_ms,
        });
        let end = p as u64 + fields[5];
        if end > buf.len() as u64 {
            break;
        }
        pos = end as usize;
    }
    out
}

/// FNV-1a, used for the observable log
#[derive(Clone, Copy)]
pub struct Fnv(pub u64);

impl Default for Fnv {
    fn default() -> Self {
        Fnv(0xcbf29ce484222325)
    }
}

impl Fnv {
    pub fn feed(&mut self, bytes: &[u8]) {
        for b in bytes {
            self.0 ^= *b as u64;
            self.0 = self.0.wrapping_mul(0x100000001b3);
        }
    }
}

pub fn hash_bytes(bytes: &[u8]) -> u64 {
    let mut f = Fnv::default();
    f.feed(bytes);
    f.0
}
