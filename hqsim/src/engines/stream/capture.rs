//! Process-level helpers: scratch directory on tmpfs, capture of fd 1 around a reader call (the
//! reader prints to `std::io::stdout()`; nothing public returns the bytes), and a tap on the panic
//! hook for panics that tokio swallows inside spawned tasks.

use std::cell::RefCell;
use std::fs::File;
use std::io::{Read, Seek, SeekFrom, Write};
use std::os::fd::AsRawFd;
use std::path::{Path, PathBuf};
use std::sync::Once;

unsafe extern "C" {
    fn dup(fd: i32) -> i32;
    fn dup2(old: i32, new: i32) -> i32;
    fn close(fd: i32) -> i32;
}

pub struct Scratch {
    pub root: PathBuf,
    counter: u64,
}

impl Scratch {
    pub fn new() -> std::io::Result<Scratch> {
        let root = PathBuf::from(format!("/dev/shm/hqsim.{}", std::process::id()));
        let _ = std::fs::remove_dir_all(&root);
        std::fs::create_dir_all(&root)?;
        Ok(Scratch { root, counter: 0 })
    }

    /// A fresh, empty stream directory
    pub fn next_dir(&mut self) -> PathBuf {
        self.counter += 1;
        let p = self.root.join(format!("s{}", self.counter)).join("stream");
        let _ = std::fs::create_dir_all(p.parent().unwrap());
        p
    }

    pub fn remove(&self, dir: &Path) {
        if let Some(parent) = dir.parent() {
            let _ = std::fs::remove_dir_all(parent);
        }
    }
}

impl Drop for Scratch {
    fn drop(&mut self) {
        let _ = std::fs::remove_dir_all(&self.root);
    }
}

pub struct Capture {
    file: File,
}

impl Capture {
    pub fn new(scratch: &Scratch) -> std::io::Result<Capture> {
        let path = scratch.root.join("capture");
        let file = std::fs::OpenOptions::new()
            .read(true)
            .write(true)
            .create(true)
            .truncate(true)
            .open(path)?;
        Ok(Capture { file })
    }

    /// Runs `f` with fd 1 redirected into the capture file; returns what `f` printed.
    /// The process must not have another thread that writes to stdout.
    pub fn run<T>(&mut self, f: impl FnOnce() -> T) -> std::io::Result<(T, Vec<u8>)> {
        std::io::stdout().flush()?;
        self.file.set_len(0)?;
        self.file.seek(SeekFrom::Start(0))?;
        let saved = unsafe { dup(1) };
        if saved < 0 {
            return Err(std::io::Error::last_os_error());
        }
        if unsafe { dup2(self.file.as_raw_fd(), 1) } < 0 {
            let e = std::io::Error::last_os_error();
            unsafe { close(saved) };
            return Err(e);
        }
        let r = std::panic::catch_unwind(std::panic::AssertUnwindSafe(f));
        let flushed = std::io::stdout().flush();
        let restored = unsafe { dup2(saved, 1) };
        unsafe { close(saved) };
        if restored < 0 {
            return Err(std::io::Error::last_os_error());
        }
        flushed?;
        let r = match r {
            Ok(r) => r,
            Err(p) => std::panic::resume_unwind(p),
        };
        let mut out = Vec::new();
        self.file.seek(SeekFrom::Start(0))?;
        self.file.read_to_end(&mut out)?;
        Ok((r, out))
    }
}

/* ---- panic tap ------------------------------------------------------------------------- */

thread_local! {
    static TAP: RefCell<Vec<(String, u32, String)>> = const { RefCell::new(Vec::new()) };
}

static TAP_INSTALL: Once = Once::new();

/// Chains a hook in front of the installed one that remembers every panic of this thread
/// (tokio catches panics of spawned tasks; without the tap they would go unnoticed).
pub fn install_tap() {
    TAP_INSTALL.call_once(|| {
        let prev = std::panic::take_hook();
        std::panic::set_hook(Box::new(move |info| {
            let (file, line) = info
                .location()
                .map(|l| (l.file().to_string(), l.line()))
                .unwrap_or_else(|| ("<unknown>".to_string(), 0));
            let message = if let Some(s) = info.payload().downcast_ref::<&str>() {
                s.to_string()
            } else if let Some(s) = info.payload().downcast_ref::<String>() {
                s.clone()
            } else {
                "<non-string panic payload>".to_string()
            };
            TAP.with(|t| t.borrow_mut().push((file, line, message)));
            prev(info);
        }));
    });
}

pub fn tap_clear() {
    TAP.with(|t| t.borrow_mut().clear());
}

pub fn tap_take() -> Vec<(String, u32, String)> {
    TAP.with(|t| std::mem::take(&mut *t.borrow_mut()))
}

pub fn tap_len() -> usize {
    TAP.with(|t| t.borrow().len())
}
