//! Execution of one scenario: real `StreamerRef`s + their `stream_writer` tasks on one
//! current-thread tokio runtime (LocalSet, one blocking thread), task instances as hand-polled
//! futures of the real `StreamSender::{send_data, flush}`.
//!
//! Determinism: the writer tasks only run while the simulator awaits (`settle`); a settle always
//! runs until every writer is idle (queue empty, all file operations complete). Between two
//! settles ("burst") the writers do not run at all, so whether a send is admitted or blocked by
//! the bounded queue is a pure function of the step list.

use std::collections::BTreeMap;
use std::future::Future;
use std::path::PathBuf;
use std::pin::Pin;
use std::sync::Arc;
use std::sync::atomic::{AtomicBool, Ordering};
use std::task::{Context, Poll, Waker};

use hyperqueue::worker::streamer::{StreamSender, StreamerRef};
use tako::{InstanceId, JobId, JobTaskId, TaskId, WorkerId};

use super::capture::{tap_len, tap_take};
use super::model::*;
use crate::sim::exec::Flag;
use crate::sim::rng::Rng;

#[derive(Clone, Debug)]
pub struct Finding {
    pub oracle: String,
    pub key: String,
    pub message: String,
}

impl Finding {
    pub fn signature(&self) -> String {
        format!("{}@{}", self.oracle, self.key)
    }
}

type Fut = Pin<Box<dyn Future<Output = Result<(), String>>>>;

pub(super) struct Pending {
    fut: Fut,
    flag: Arc<Flag>,
}

impl Pending {
    fn new(fut: Fut) -> Pending {
        Pending {
            fut,
            flag: Arc::new(Flag(AtomicBool::new(false))),
        }
    }

    fn poll(&mut self) -> Poll<Result<(), String>> {
        self.flag.0.store(false, Ordering::SeqCst);
        let waker = Waker::from(self.flag.clone());
        let mut cx = Context::from_waker(&waker);
        self.fut.as_mut().poll(&mut cx)
    }

    fn woken(&self) -> bool {
        self.flag.0.load(Ordering::SeqCst)
    }
}

#[derive(Default)]
pub(super) struct LaneSt {
    pub piped: bool,
    /// the closing chunk was issued (admitted or pending)
    pub close_sent: bool,
    /// the closing chunk was admitted to the writer queue
    pub closed: bool,
    pub pending: Option<(Pending, u32)>,
    /// sizes of the admitted chunks (the closing chunk is a 0)
    pub sent: Vec<u32>,
    /// bytes admitted
    pub offset: u64,
}

#[derive(Clone, Copy, Debug, PartialEq, Eq)]
pub(super) enum IState {
    NotStarted,
    Running,
    /// flush issued, not acknowledged yet
    Ending,
    /// flush acknowledged: the task future returned
    Acked,
    /// the worker died while the instance was running / ending
    Dead,
}

pub(super) struct InstSt {
    pub t: u32,
    pub i: u32,
    pub w: usize,
    pub state: IState,
    pub sender: Option<StreamSender>,
    pub lanes: [LaneSt; 2],
    pub flush: Option<Pending>,
    pub flush_admitted: bool,
    /// bytes of the file that the flush covers (file offset after the last message admitted
    /// before the flush message)
    pub flush_mark: u64,
    /// ended through the stop path (a lane was still open)
    pub stopped: bool,
}

/// One admitted chunk with its position in the worker's file
#[derive(Clone, Debug)]
pub(super) struct LChunk {
    pub t: u32,
    pub i: u32,
    pub c: u32,
    pub size: u64,
    pub hdr_start: u64,
    pub data_start: u64,
    /// offset of the payload inside the (t, i, c) stream
    pub lane_offset: u64,
}

impl LChunk {
    pub fn end(&self) -> u64 {
        self.data_start + self.size
    }
}

pub(super) struct WorkerSt {
    pub id: u32,
    pub streamer: Option<StreamerRef>,
    pub opened: bool,
    pub crashed: bool,
    pub path: Option<PathBuf>,
    pub layout: Vec<LChunk>,
    /// messages admitted since the writer last ran
    pub queue_len: usize,
    /// futures blocked on the queue (with or without an assigned permit)
    pub waiters: usize,
    /// model: bytes that reached the OS once the writer is idle / bytes in the BufWriter
    pub f: u64,
    pub b: u64,
    /// all bytes handed to the writer
    pub total: u64,
    pub flushed_len: u64,
    pub cut: Option<u64>,
    pub file_header_len: u64,
    pub creation_rank: Option<usize>,
}

impl WorkerSt {
    fn model_write(&mut self, n: u64) {
        if self.b + n > BUFWRITER_CAP {
            self.f += self.b;
            self.b = 0;
        }
        if n >= BUFWRITER_CAP {
            self.f += n;
        } else {
            self.b += n;
        }
        self.total += n;
    }

    fn model_flush(&mut self) {
        self.f += self.b;
        self.b = 0;
    }

    fn has_room(&self) -> bool {
        self.queue_len + self.waiters < QUEUE_DEPTH
    }
}

#[derive(Default, Clone, Debug)]
pub struct Stats {
    pub steps: u64,
    pub chunks: u64,
    pub bytes_sent: u64,
    pub bytes_on_disk: u64,
    pub crashes: u64,
    pub drains: u64,
    pub settles: u64,
    pub reader_calls: u64,
    pub files: u64,
}

pub(super) struct Exec {
    pub cfg: Config,
    pub dir: PathBuf,
    pub workers: Vec<WorkerSt>,
    pub insts: Vec<InstSt>,
    pub index: BTreeMap<(u32, u32), usize>,
    pub trace: Vec<Step>,
    pub findings: Vec<Finding>,
    pub harness_error: Option<String>,
    pub abort: bool,
    pub probes: BTreeMap<&'static str, u64>,
    pub stats: Stats,
    pub hash: Fnv,
    pub verbose: bool,
    pub lines: Vec<String>,
    pub known_files: Vec<PathBuf>,
    pub settle_iters: u64,
    pub abstract_state: u64,
}

macro_rules! lg {
    ($s:expr, $($arg:tt)*) => {{
        let line = format!($($arg)*);
        $s.hash.feed(line.as_bytes());
        $s.hash.feed(b"\n");
        if $s.verbose {
            $s.lines.push(line);
        }
    }};
}
pub(super) use lg;

impl Exec {
    pub fn new(cfg: &Config, dir: PathBuf, verbose: bool) -> Exec {
        let workers: Vec<WorkerSt> = cfg
            .workers
            .iter()
            .map(|id| WorkerSt {
                id: *id,
                streamer: None,
                opened: false,
                crashed: false,
                path: None,
                layout: Vec::new(),
                queue_len: 0,
                waiters: 0,
                f: 0,
                b: 0,
                total: 0,
                flushed_len: 0,
                cut: None,
                file_header_len: FILE_MAGIC.len() as u64 + file_header_len(&cfg.server_uid, *id),
                creation_rank: None,
            })
            .collect();
        let mut insts = Vec::new();
        let mut index = BTreeMap::new();
        for t in &cfg.tasks {
            for i in &t.instances {
                let Some(w) = cfg.workers.iter().position(|w| *w == i.worker) else {
                    continue;
                };
                if index.contains_key(&(t.id, i.id)) {
                    continue;
                }
                index.insert((t.id, i.id), insts.len());
                insts.push(InstSt {
                    t: t.id,
                    i: i.id,
                    w,
                    state: IState::NotStarted,
                    sender: None,
                    lanes: [
                        LaneSt { piped: i.stdout, ..Default::default() },
                        LaneSt { piped: i.stderr, ..Default::default() },
                    ],
                    flush: None,
                    flush_admitted: false,
                    flush_mark: 0,
                    stopped: false,
                });
            }
        }
        Exec {
            cfg: cfg.clone(),
            dir,
            workers,
            insts,
            index,
            trace: Vec::new(),
            findings: Vec::new(),
            harness_error: None,
            abort: false,
            probes: BTreeMap::new(),
            stats: Stats::default(),
            hash: Fnv::default(),
            verbose,
            lines: Vec::new(),
            known_files: Vec::new(),
            settle_iters: 0,
            abstract_state: 0,
        }
    }

    pub fn probe(&mut self, name: &'static str) {
        *self.probes.entry(name).or_default() += 1;
    }

    pub fn finding(&mut self, oracle: &str, key: &str, message: String) {
        lg!(self, "FINDING {oracle}@{key}");
        self.findings.push(Finding {
            oracle: oracle.to_string(),
            key: key.to_string(),
            message,
        });
    }

    pub fn harness(&mut self, msg: String) {
        if self.harness_error.is_none() {
            self.harness_error = Some(msg);
        }
        self.abort = true;
    }

    /// Panics that tokio caught inside a spawned task (the writer)
    pub fn absorb_tap(&mut self) {
        for (file, line, message) in tap_take() {
            let info = crate::sim::panic::PanicInfo { file, line, message };
            self.panic_finding(&info);
        }
        self.abort = true;
    }

    pub fn panic_finding(&mut self, info: &crate::sim::panic::PanicInfo) {
        if info.in_harness() {
            self.harness(format!("panic in harness code at {}: {}", info.location(), info.message));
        } else {
            let loc = info.location();
            self.finding("panic", &loc, format!("panic at {loc}: {}", info.message));
            self.abort = true;
        }
    }

    /* ---------------------------------------------------------------------------------- */

    pub async fn drive(&mut self, decider: &mut Decider) {
        loop {
            if self.abort {
                break;
            }
            let step = match decider {
                Decider::Seeded(s) => s.choose(self),
                Decider::Recorded { steps, pos } => {
                    if *pos < steps.len() {
                        *pos += 1;
                        Some(steps[*pos - 1].clone())
                    } else {
                        None
                    }
                }
            };
            let Some(step) = step else { break };
            self.apply(step).await;
        }
        if !self.abort && let Err(e) = self.settle().await {
            self.harness(e);
        }
    }

    async fn apply(&mut self, step: Step) {
        match step {
            Step::Open { t, i } => self.do_open(t, i).await,
            Step::Send { t, i, ch, size } => self.do_send(t, i, ch, size),
            Step::End { t, i } => self.do_end(t, i),
            Step::Drain { order } => self.do_drain(order).await,
            Step::Crash { w, cut_back } => self.do_crash(w, cut_back).await,
        }
    }

    async fn do_open(&mut self, t: u32, i: u32) {
        let Some(&idx) = self.index.get(&(t, i)) else { return };
        let w = self.insts[idx].w;
        if self.insts[idx].state != IState::NotStarted || self.workers[w].crashed {
            return;
        }
        let streamer = match &self.workers[w].streamer {
            Some(s) => s.clone(),
            None => {
                // as worker/bootstrap.rs: StreamerRef::new(server_uid, worker_id)
                let s = StreamerRef::new(&self.cfg.server_uid, WorkerId::new(self.workers[w].id));
                self.workers[w].streamer = Some(s.clone());
                s
            }
        };
        let task_id = TaskId::new(JobId::new(self.cfg.job), JobTaskId::new(t));
        let r = streamer
            .get_mut()
            .get_stream(&streamer, &self.dir, task_id, InstanceId::new(i));
        self.trace.push(Step::Open { t, i });
        self.stats.steps += 1;
        match r {
            Ok(sender) => {
                self.insts[idx].sender = Some(sender);
                self.insts[idx].state = IState::Running;
                lg!(self, "open t{t} i{i} w{}", self.workers[w].id);
            }
            Err(e) => {
                self.finding("get-stream-error", "", format!("get_stream for task {t} instance {i} failed: {e}"));
                self.abort = true;
                return;
            }
        }
        if !self.workers[w].opened {
            let ws = &mut self.workers[w];
            ws.opened = true;
            // stream_writer: write_all(magic), write_all(file header)
            ws.model_write(FILE_MAGIC.len() as u64);
            let fh = ws.file_header_len - FILE_MAGIC.len() as u64;
            ws.model_write(fh);
            // wait until the file exists: makes the creation order = order of first opens
            if let Err(e) = self.settle().await {
                self.harness(e);
            }
        }
    }

    fn admit_chunk(&mut self, idx: usize, ch: u32, size: u32) {
        let (t, i, w) = (self.insts[idx].t, self.insts[idx].i, self.insts[idx].w);
        let lane_offset = self.insts[idx].lanes[ch as usize].offset;
        let job = self.cfg.job;
        let ws = &mut self.workers[w];
        let hdr = chunk_header_len(job, t, i, ch, size as u64);
        let hdr_start = ws.total;
        ws.model_write(hdr);
        if size > 0 {
            ws.model_write(size as u64);
        }
        ws.queue_len += 1;
        ws.layout.push(LChunk {
            t,
            i,
            c: ch,
            size: size as u64,
            hdr_start,
            data_start: hdr_start + hdr,
            lane_offset,
        });
        let lane = &mut self.insts[idx].lanes[ch as usize];
        lane.sent.push(size);
        lane.offset += size as u64;
        if size == 0 {
            lane.closed = true;
        }
        self.stats.chunks += 1;
        self.stats.bytes_sent += size as u64;
    }

    fn admit_flush(&mut self, idx: usize) {
        let w = self.insts[idx].w;
        let ws = &mut self.workers[w];
        ws.queue_len += 1;
        ws.model_flush();
        self.insts[idx].flush_mark = ws.total;
        self.insts[idx].flush_admitted = true;
    }

    fn do_send(&mut self, t: u32, i: u32, ch: u32, size: u32) {
        let Some(&idx) = self.index.get(&(t, i)) else { return };
        if ch > 1 {
            return;
        }
        let inst = &self.insts[idx];
        let lane = &inst.lanes[ch as usize];
        if inst.state != IState::Running || !lane.piped || lane.close_sent || lane.pending.is_some() {
            return;
        }
        let w = inst.w;
        let data = fill(t, i, ch, lane.offset, size as u64);
        let sender = inst.sender.clone().unwrap();
        let fut: Fut = Box::pin(tokio::task::unconstrained(async move {
            sender.send_data(ch, data).await.map_err(|e| e.to_string())
        }));
        let mut p = Pending::new(fut);
        let expect_room = self.workers[w].has_room();
        let r = p.poll();
        self.trace.push(Step::Send { t, i, ch, size });
        self.stats.steps += 1;
        if size == 0 {
            self.insts[idx].lanes[ch as usize].close_sent = true;
        }
        match r {
            Poll::Ready(Ok(())) => {
                if !expect_room {
                    self.harness(format!("queue model: send of t{t} i{i} c{ch} admitted although the model says the queue is full"));
                    return;
                }
                self.admit_chunk(idx, ch, size);
                lg!(self, "send t{t} i{i} c{ch} {size} admitted");
            }
            Poll::Ready(Err(e)) => {
                self.finding("send-error", "", format!("send_data of task {t} instance {i} channel {ch} ({size} bytes) failed: {e}"));
                self.abort = true;
            }
            Poll::Pending => {
                if expect_room {
                    self.harness(format!("queue model: send of t{t} i{i} c{ch} blocked although the model says the queue has room"));
                    return;
                }
                self.workers[w].waiters += 1;
                self.insts[idx].lanes[ch as usize].pending = Some((p, size));
                self.probe("backpressure_send_blocked");
                lg!(self, "send t{t} i{i} c{ch} {size} blocked");
            }
        }
    }

    fn do_end(&mut self, t: u32, i: u32) {
        let Some(&idx) = self.index.get(&(t, i)) else { return };
        if self.insts[idx].state != IState::Running {
            return;
        }
        let w = self.insts[idx].w;
        // handle_task_with_signals returned: the main future (both resend_stdio loops) is gone
        let mut stopped = false;
        for ch in 0..2 {
            let lane = &mut self.insts[idx].lanes[ch];
            if lane.pending.take().is_some() {
                self.workers[w].waiters -= 1;
            }
            if lane.piped && !lane.closed {
                stopped = true;
            }
        }
        self.insts[idx].stopped = stopped;
        let sender = self.insts[idx].sender.clone().unwrap();
        let fut: Fut = Box::pin(tokio::task::unconstrained(async move {
            sender.flush().await.map_err(|e| e.to_string())
        }));
        let mut p = Pending::new(fut);
        let expect_room = self.workers[w].has_room();
        let r = p.poll();
        self.trace.push(Step::End { t, i });
        self.stats.steps += 1;
        self.insts[idx].state = IState::Ending;
        if stopped {
            self.probe("ended_by_stop_path");
        }
        match r {
            Poll::Pending => {
                if expect_room {
                    self.admit_flush(idx);
                    lg!(self, "end t{t} i{i} stopped={stopped} flush queued");
                } else {
                    self.workers[w].waiters += 1;
                    self.probe("backpressure_flush_blocked");
                    lg!(self, "end t{t} i{i} stopped={stopped} flush blocked");
                }
                self.insts[idx].flush = Some(p);
            }
            Poll::Ready(Ok(())) => {
                self.harness(format!("flush of t{t} i{i} completed although the writer did not run"));
            }
            Poll::Ready(Err(e)) => {
                self.finding("flush-error", "", format!("flush of task {t} instance {i} failed: {e}"));
                self.abort = true;
            }
        }
    }

    pub fn pending_keys(&self) -> Vec<(u32, u32, u32)> {
        let mut out = Vec::new();
        for inst in &self.insts {
            for ch in 0..2 {
                if inst.lanes[ch].pending.is_some() {
                    out.push((inst.t, inst.i, ch as u32));
                }
            }
            if inst.flush.is_some() {
                out.push((inst.t, inst.i, 2));
            }
        }
        out
    }

    async fn do_drain(&mut self, order: Vec<(u32, u32, u32)>) {
        if let Err(e) = self.settle().await {
            self.harness(e);
            return;
        }
        if self.abort {
            return;
        }
        let pending = self.pending_keys();
        let mut actual: Vec<(u32, u32, u32)> = Vec::new();
        for k in &order {
            if pending.contains(k) && !actual.contains(k) {
                actual.push(*k);
            }
        }
        for k in &pending {
            if !actual.contains(k) {
                actual.push(*k);
            }
        }
        self.stats.drains += 1;
        self.stats.steps += 1;
        lg!(self, "drain poll order {actual:?}");
        for (t, i, kind) in &actual {
            let idx = self.index[&(*t, *i)];
            let w = self.insts[idx].w;
            if *kind < 2 {
                let ch = *kind;
                let (mut p, size) = self.insts[idx].lanes[ch as usize].pending.take().unwrap();
                match p.poll() {
                    Poll::Ready(Ok(())) => {
                        self.workers[w].waiters -= 1;
                        self.admit_chunk(idx, ch, size);
                        lg!(self, " resumed send t{t} i{i} c{ch} {size}");
                    }
                    Poll::Ready(Err(e)) => {
                        self.finding("send-error", "", format!("blocked send_data of task {t} instance {i} channel {ch} failed: {e}"));
                        self.abort = true;
                        return;
                    }
                    Poll::Pending => {
                        self.harness(format!("queue model: blocked send of t{t} i{i} c{ch} still pending after the writer drained the queue"));
                        return;
                    }
                }
            } else if !self.insts[idx].flush_admitted {
                let mut p = self.insts[idx].flush.take().unwrap();
                match p.poll() {
                    Poll::Pending => {
                        self.workers[w].waiters -= 1;
                        self.admit_flush(idx);
                        self.insts[idx].flush = Some(p);
                        lg!(self, " flush of t{t} i{i} queued");
                    }
                    Poll::Ready(Ok(())) => {
                        self.harness(format!("blocked flush of t{t} i{i} completed without the writer running"));
                        return;
                    }
                    Poll::Ready(Err(e)) => {
                        self.finding("flush-error", "", format!("flush of task {t} instance {i} failed: {e}"));
                        self.abort = true;
                        return;
                    }
                }
            } else {
                let mut p = self.insts[idx].flush.take().unwrap();
                match p.poll() {
                    Poll::Ready(Ok(())) => {
                        self.insts[idx].state = IState::Acked;
                        self.insts[idx].sender = None;
                        let mark = self.insts[idx].flush_mark;
                        let ws = &mut self.workers[w];
                        ws.flushed_len = ws.flushed_len.max(mark);
                        lg!(self, " flush of t{t} i{i} acknowledged, covers {mark} bytes");
                    }
                    Poll::Ready(Err(e)) => {
                        self.finding("flush-error", "", format!("flush of task {t} instance {i} failed: {e}"));
                        self.abort = true;
                        return;
                    }
                    Poll::Pending => {
                        self.harness(format!("flush of t{t} i{i} not acknowledged although the writer is idle"));
                        return;
                    }
                }
            }
        }
        self.trace.push(Step::Drain { order: actual });
    }

    async fn do_crash(&mut self, wid: u32, cut_back: u64) {
        let Some(w) = self.workers.iter().position(|x| x.id == wid) else { return };
        if !self.workers[w].opened || self.workers[w].crashed {
            return;
        }
        if let Err(e) = self.settle().await {
            self.harness(e);
            return;
        }
        if self.abort {
            return;
        }
        let ws = &mut self.workers[w];
        let cut = ws.f.saturating_sub(cut_back).max(ws.flushed_len).min(ws.f);
        let actual_back = ws.f - cut;
        ws.crashed = true;
        ws.cut = Some(cut);
        let (f, fl) = (ws.f, ws.flushed_len);
        for inst in self.insts.iter_mut().filter(|x| x.w == w) {
            if matches!(inst.state, IState::Running | IState::Ending) {
                inst.state = IState::Dead;
                for ch in 0..2 {
                    inst.lanes[ch].pending = None;
                }
                inst.flush = None;
                inst.sender = None;
            }
        }
        self.workers[w].waiters = 0;
        self.stats.crashes += 1;
        self.stats.steps += 1;
        self.trace.push(Step::Crash { w: wid, cut_back: actual_back });
        lg!(self, "crash w{wid}: file {f} bytes, flushed {fl}, keeps {cut}");
    }

    fn discover_files(&mut self) -> Result<(), String> {
        let missing: Vec<usize> = (0..self.workers.len())
            .filter(|w| self.workers[*w].opened && self.workers[*w].path.is_none())
            .collect();
        if missing.is_empty() {
            return Ok(());
        }
        let Ok(rd) = std::fs::read_dir(&self.dir) else { return Ok(()) };
        let mut fresh = Vec::new();
        for e in rd.flatten() {
            let p = e.path();
            if !self.known_files.contains(&p) {
                fresh.push(p);
            }
        }
        if fresh.is_empty() {
            return Ok(());
        }
        if fresh.len() > 1 || missing.len() > 1 {
            return Err(format!("{} new files for {} newly opened workers", fresh.len(), missing.len()));
        }
        let p = fresh.pop().unwrap();
        self.known_files.push(p.clone());
        let rank = self.known_files.len() - 1;
        self.workers[missing[0]].path = Some(p);
        self.workers[missing[0]].creation_rank = Some(rank);
        Ok(())
    }

    fn files_match(&self) -> bool {
        self.workers.iter().all(|w| {
            !w.opened
                || w.path
                    .as_ref()
                    .and_then(|p| std::fs::metadata(p).ok())
                    .map(|m| m.len() == w.f)
                    .unwrap_or(false)
        })
    }

    fn all_pending_woken(&self) -> bool {
        self.insts.iter().all(|inst| {
            inst.lanes.iter().all(|l| l.pending.as_ref().map(|(p, _)| p.woken()).unwrap_or(true))
                && inst.flush.as_ref().map(|p| p.woken()).unwrap_or(true)
        })
    }

    /// Lets the runtime run until every writer task is idle: all admitted messages are consumed,
    /// every file operation is complete. Detection: the file length equals the harness model of
    /// tokio's BufWriter (bytes handed over minus the buffered tail) and every blocked future was
    /// woken (permit assigned / flush acknowledged). One blocking thread: the no-op blocking task
    /// completes after all file operations queued before it.
    pub async fn settle(&mut self) -> Result<(), String> {
        let started = std::time::Instant::now();
        let mut iters = 0u64;
        loop {
            for _ in 0..2 {
                tokio::task::yield_now().await;
            }
            tokio::task::spawn_blocking(|| ())
                .await
                .map_err(|e| format!("barrier task failed: {e}"))?;
            for _ in 0..2 {
                tokio::task::yield_now().await;
            }
            if tap_len() > 0 {
                self.absorb_tap();
                return Ok(());
            }
            self.discover_files()?;
            if self.files_match() && self.all_pending_woken() {
                break;
            }
            iters += 1;
            if iters > 20_000 || started.elapsed().as_secs() > 20 {
                // a flush was acknowledged although the file is shorter than what it covers:
                // independent of the BufWriter model, a defect of the writer
                let mut acked_short = None;
                for inst in &self.insts {
                    if inst.flush_admitted
                        && inst.flush.as_ref().map(|p| p.woken()).unwrap_or(false)
                    {
                        let ws = &self.workers[inst.w];
                        let len = ws.path.as_ref().and_then(|p| std::fs::metadata(p).ok()).map(|m| m.len()).unwrap_or(0);
                        if len < inst.flush_mark {
                            acked_short = Some((inst.t, inst.i, ws.id, len, inst.flush_mark));
                        }
                    }
                }
                if let Some((t, i, w, len, mark)) = acked_short {
                    self.finding(
                        "flush-acknowledged-without-data",
                        "",
                        format!("flush of task {t} instance {i} was acknowledged, the file of worker {w} has {len} bytes, the flush covers {mark}"),
                    );
                    self.abort = true;
                    return Ok(());
                }
                if self.files_match() && !self.all_pending_woken() {
                    let stuck: Vec<String> = self
                        .insts
                        .iter()
                        .flat_map(|inst| {
                            let mut v = Vec::new();
                            for ch in 0..2 {
                                if inst.lanes[ch].pending.as_ref().map(|(p, _)| !p.woken()).unwrap_or(false) {
                                    v.push(format!("send t{} i{} c{ch}", inst.t, inst.i));
                                }
                            }
                            if inst.flush.as_ref().map(|p| !p.woken()).unwrap_or(false) {
                                v.push(format!("flush t{} i{}", inst.t, inst.i));
                            }
                            v
                        })
                        .collect();
                    self.finding(
                        "blocked-future-never-completes",
                        "",
                        format!("the writers consumed everything handed over (file lengths final), but these futures were never woken: {stuck:?}"),
                    );
                    self.abort = true;
                    return Ok(());
                }
                let lens: Vec<String> = self
                    .workers
                    .iter()
                    .filter(|w| w.opened)
                    .map(|w| {
                        format!(
                            "w{}: file {:?} model {} (buffered {}, handed over {})",
                            w.id,
                            w.path.as_ref().and_then(|p| std::fs::metadata(p).ok()).map(|m| m.len()),
                            w.f,
                            w.b,
                            w.total
                        )
                    })
                    .collect();
                return Err(format!(
                    "writers did not become idle (all blocked futures woken: {}): {}",
                    self.all_pending_woken(),
                    lens.join("; ")
                ));
            }
        }
        tokio::task::spawn_blocking(|| ())
            .await
            .map_err(|e| format!("barrier task failed: {e}"))?;
        for _ in 0..2 {
            tokio::task::yield_now().await;
        }
        if !self.files_match() {
            return Err("a stream file changed after the writers were considered idle".into());
        }
        for w in self.workers.iter_mut() {
            w.queue_len = 0;
        }
        self.stats.settles += 1;
        self.settle_iters += iters;
        let lens: Vec<String> = self.workers.iter().filter(|w| w.opened).map(|w| format!("w{}={}", w.id, w.f)).collect();
        lg!(self, "settled: {}", lens.join(" "));
        Ok(())
    }

    /// Drops everything that refers to the runtime (before the LocalSet is dropped)
    pub fn release(&mut self) {
        for inst in self.insts.iter_mut() {
            for l in inst.lanes.iter_mut() {
                l.pending = None;
            }
            inst.flush = None;
            inst.sender = None;
        }
        for w in self.workers.iter_mut() {
            w.streamer = None;
        }
    }
}

/* ---------------------------------------------------------------------------------------- */
/* Deciders                                                                                 */
/* ---------------------------------------------------------------------------------------- */

pub enum Decider {
    Seeded(Box<Seeded>),
    Recorded { steps: Vec<Step>, pos: usize },
}

pub struct LanePlan {
    pub remaining: u32,
    pub profile: u8,
}

pub struct Seeded {
    pub rng: Rng,
    pub lanes: BTreeMap<(u32, u32, u32), LanePlan>,
    /// a voluntary drain with probability 1/drain_den per step (0 = only when nothing else can run)
    pub drain_den: u64,
    pub sticky_pct: u64,
    pub crash_left: u32,
    pub crash_den: u64,
    pub stop_den: u64,
    pub end_after: Option<u64>,
    pub last: Option<(u32, u32, u32)>,
    pub steps: u64,
    pub max_steps: u64,
    pub oversize: bool,
    pub budget: i64,
}

impl Seeded {
    fn size_for(&mut self, profile: u8) -> u32 {
        let r = &mut self.rng;
        let mut s = match profile {
            0 => r.range(1, 16) as u32,
            1 => r.range(1, 200) as u32,
            3 => {
                if r.chance(9, 10) {
                    STDIO_BUFFER_SIZE
                } else {
                    r.range(1, STDIO_BUFFER_SIZE as u64 - 1) as u32
                }
            }
            4 => r.range(8150, 8194) as u32,
            5 => r.range(4096, STDIO_BUFFER_SIZE as u64) as u32,
            _ => match r.pick_weighted(&[10, 25, 25, 15, 4, 8, 10, 3]) {
                0 => 1,
                1 => r.range(2, 64) as u32,
                2 => r.range(65, 1024) as u32,
                3 => r.range(1025, 8191) as u32,
                4 => 8192,
                5 => r.range(8193, STDIO_BUFFER_SIZE as u64 - 1) as u32,
                6 => STDIO_BUFFER_SIZE,
                _ => {
                    if self.oversize {
                        r.range(STDIO_BUFFER_SIZE as u64 + 1, 40_000) as u32
                    } else {
                        STDIO_BUFFER_SIZE
                    }
                }
            },
        };
        if self.budget <= 0 {
            s = s.min(1 + (s % 48));
        }
        self.budget -= s as i64;
        s
    }

    fn choose(&mut self, ex: &Exec) -> Option<Step> {
        self.steps += 1;
        if self.steps > self.max_steps {
            return None;
        }
        if let Some(n) = self.end_after
            && self.steps > n
        {
            return None;
        }
        let pending = ex.pending_keys();
        // crash
        if self.crash_left > 0 && self.rng.chance(1, self.crash_den) {
            let alive: Vec<usize> = (0..ex.workers.len())
                .filter(|w| ex.workers[*w].opened && !ex.workers[*w].crashed)
                .collect();
            if !alive.is_empty() {
                let w = *self.rng.pick(&alive);
                self.crash_left -= 1;
                let ws = &ex.workers[w];
                // after the settle the file holds ws.f bytes
                let lo = ws.flushed_len.min(ws.f);
                let f = ws.f;
                let cands: Vec<&LChunk> = ws.layout.iter().filter(|c| c.hdr_start >= lo && c.hdr_start <= f).collect();
                let cut = match self.rng.below(8) {
                    0 => f,
                    1 => lo,
                    2 | 3 if !cands.is_empty() => {
                        // inside a chunk header
                        let c = *self.rng.pick(&cands);
                        self.rng.range(c.hdr_start + 1, c.data_start - 1)
                    }
                    4 if !cands.is_empty() => self.rng.pick(&cands).hdr_start,
                    5 if !cands.is_empty() => {
                        // inside a payload
                        let c = *self.rng.pick(&cands);
                        if c.size > 1 { self.rng.range(c.data_start + 1, c.end() - 1) } else { c.data_start }
                    }
                    6 => self.rng.range(0, ws.file_header_len),
                    _ => self.rng.range(lo, f),
                };
                let cut = cut.max(lo).min(f);
                return Some(Step::Crash { w: ws.id, cut_back: f - cut });
            }
        }
        if self.drain_den > 0 && self.rng.chance(1, self.drain_den) {
            let mut order = pending.clone();
            self.rng.shuffle(&mut order);
            return Some(Step::Drain { order });
        }
        // candidates
        let mut opens = Vec::new();
        let mut sends = Vec::new();
        let mut ends = Vec::new();
        let mut stoppable = Vec::new();
        for inst in &ex.insts {
            match inst.state {
                IState::NotStarted => {
                    if !ex.workers[inst.w].crashed {
                        opens.push((inst.t, inst.i));
                    }
                }
                IState::Running => {
                    let mut all_closed = true;
                    for ch in 0..2u32 {
                        let l = &inst.lanes[ch as usize];
                        if l.piped && !l.closed {
                            all_closed = false;
                        }
                        if l.piped && !l.close_sent && l.pending.is_none() {
                            sends.push((inst.t, inst.i, ch));
                        }
                    }
                    if all_closed {
                        ends.push((inst.t, inst.i));
                    } else {
                        stoppable.push((inst.t, inst.i));
                    }
                }
                _ => {}
            }
        }
        if !stoppable.is_empty() && self.stop_den > 0 && self.rng.chance(1, self.stop_den) {
            let (t, i) = *self.rng.pick(&stoppable);
            return Some(Step::End { t, i });
        }
        if let Some(last) = self.last
            && sends.contains(&last)
            && self.rng.chance(self.sticky_pct, 100)
        {
            return Some(self.make_send(last));
        }
        let w_open = opens.len() as u64 * 3;
        let w_end = ends.len() as u64 * 8;
        let w_send = sends.len() as u64 * 2;
        if w_open + w_end + w_send == 0 {
            if pending.is_empty() {
                return None;
            }
            let mut order = pending.clone();
            self.rng.shuffle(&mut order);
            return Some(Step::Drain { order });
        }
        match self.rng.pick_weighted(&[w_open, w_end, w_send]) {
            0 => {
                let (t, i) = *self.rng.pick(&opens);
                Some(Step::Open { t, i })
            }
            1 => {
                let (t, i) = *self.rng.pick(&ends);
                Some(Step::End { t, i })
            }
            _ => {
                let lane = *self.rng.pick(&sends);
                Some(self.make_send(lane))
            }
        }
    }

    fn make_send(&mut self, lane: (u32, u32, u32)) -> Step {
        let (t, i, ch) = lane;
        let (remaining, profile) = {
            let p = self.lanes.get(&lane).map(|p| (p.remaining, p.profile)).unwrap_or((0, 0));
            p
        };
        let size = if remaining == 0 {
            0
        } else {
            if let Some(p) = self.lanes.get_mut(&lane) {
                p.remaining -= 1;
            }
            self.size_for(profile)
        };
        self.last = if size == 0 { None } else { Some(lane) };
        Step::Send { t, i, ch, size }
    }
}

/// Draws the configuration of a run and the plan of its seeded scheduler.
pub fn generate(seed: u64) -> (Config, Decider) {
    let mut rng = Rng::new(seed);
    let n_workers = *rng.pick(&[1usize, 2, 2, 3, 3]);
    let mut workers: Vec<u32> = Vec::new();
    while workers.len() < n_workers {
        let id = *rng.pick(&[1u32, 2, 3, 4, 5, 6, 7, 8, 9, 17, 250, 251, 1000, 65535, 70000]);
        if !workers.contains(&id) {
            workers.push(id);
        }
    }
    let uid_chars: Vec<u8> = (b'a'..=b'z').chain(b'A'..=b'Z').chain(b'0'..=b'9').collect();
    let server_uid: String = (0..6).map(|_| *rng.pick(&uid_chars) as char).collect();
    let job = *rng.pick(&[1u32, 1, 1, 2, 7, 250, 251, 300, 70000]);
    let n_tasks = *rng.pick(&[1usize, 1, 2, 2, 3, 3, 4, 5, 6, 8]);
    let big_ids = rng.chance(1, 4);
    let mut tasks: Vec<TaskCfg> = Vec::new();
    let run_scale = *rng.pick(&[0u32, 1, 1, 2, 2, 2, 3]);
    let mut lanes = BTreeMap::new();
    while tasks.len() < n_tasks {
        let id = if big_ids {
            *rng.pick(&[0u32, 1, 5, 249, 250, 251, 252, 1000, 65535, 65536, 99999, 1_000_000])
        } else {
            rng.below(12) as u32
        };
        if tasks.iter().any(|t| t.id == id) {
            continue;
        }
        let n_inst = (1 + rng.pick_weighted(&[5, 3, 2])).min(n_workers);
        let mut ws = workers.clone();
        rng.shuffle(&mut ws);
        let mut inst_id = *rng.pick(&[0u32, 0, 0, 0, 1, 3, 250]);
        let mut instances = Vec::new();
        for k in 0..n_inst {
            let (stdout, stderr) = match rng.below(10) {
                0 => (true, false),
                1 => (false, true),
                _ => (true, true),
            };
            instances.push(InstCfg { id: inst_id, worker: ws[k], stdout, stderr });
            for ch in 0..2u32 {
                if (ch == 0 && stdout) || (ch == 1 && stderr) {
                    let profile = *rng.pick(&[0u8, 1, 1, 2, 2, 2, 2, 3, 4, 5]);
                    let cat = rng.pick_weighted(&[15, 25, 30, 20, 10]);
                    let mut remaining = match cat {
                        0 => 0,
                        1 => rng.range(1, 3),
                        2 => rng.range(4, 20),
                        3 => rng.range(21, 80),
                        _ => rng.range(81, 260),
                    } as u32;
                    if run_scale == 0 {
                        remaining = remaining.min(6);
                    } else if run_scale == 1 {
                        remaining = remaining.min(40);
                    }
                    if profile >= 3 {
                        remaining = remaining.min(40);
                    }
                    lanes.insert((id, inst_id, ch), LanePlan { remaining, profile });
                }
            }
            inst_id += *rng.pick(&[1u32, 1, 1, 2, 5]);
        }
        tasks.push(TaskCfg { id, instances });
    }
    let total_chunks: u64 = lanes.values().map(|l| l.remaining as u64).sum();
    let fresh_open = if total_chunks > 200 { rng.chance(1, 4) } else { rng.chance(3, 4) };
    let cfg = Config {
        server_uid,
        job,
        workers,
        tasks,
        fresh_open,
        uid_filter: rng.chance(1, 4),
    };
    let expected_steps = total_chunks + 4 * lanes.len() as u64 + 4;
    let seeded = Seeded {
        drain_den: *rng.pick(&[0u64, 0, 4, 12, 40, 150, 500]),
        sticky_pct: *rng.pick(&[0u64, 0, 50, 90]),
        crash_left: rng.pick_weighted(&[5, 3, 1, 1]) as u32,
        crash_den: (expected_steps / 2).max(4),
        stop_den: *rng.pick(&[0u64, 0, 0, 300, 2000]),
        end_after: if rng.chance(1, 6) { Some(rng.range(1, expected_steps)) } else { None },
        last: None,
        steps: 0,
        max_steps: 4000,
        oversize: rng.chance(1, 8),
        budget: *rng.pick(&[40_000i64, 200_000, 600_000, 1_500_000]),
        lanes,
        rng,
    };
    (cfg, Decider::Seeded(Box::new(seeded)))
}
