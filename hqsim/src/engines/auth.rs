//! Engine `auth` (see /verif/DESIGN.md section 5). Entry points used by main.rs.

use crate::batch::CheckArgs;
use std::path::Path;

/// Property ids this engine decides
pub const PROPERTIES: &[&str] = &[];

/// Runs the check of `args.property`; returns the process exit code (0 / 1 / 2).
pub fn check(_args: &CheckArgs) -> i32 {
    eprintln!("engine auth: not implemented yet");
    2
}

/// Replays a replay file written by this engine; exit code as for `check`.
pub fn replay(_path: &Path, _verbose: bool) -> i32 {
    eprintln!("engine auth: not implemented yet");
    2
}
