//! Engine `auth` (see /verif/DESIGN.md section 5, C20). Entry points used by main.rs.
//!
//! Real: `tako::comm::do_authentication` (Authenticator, make_auth_request/_response,
//! finish_authentication, bincode (de)serialisation, orion sealing/opening, the tokio timeouts on
//! a paused clock) and the tokio-util `LengthDelimitedCodec` on both ends of every connection.
//! Stub: the TCP stream (an in-memory byte pipe owned by the adversary), the task scheduler
//! (futures are polled by hand), the three-line codec builder (copy of make_protocol_builder).

mod genr;
mod oracle;
mod wire;
mod world;

use crate::batch::{CheckArgs, load_known_findings, write_json};
use crate::sim::panic::catch;
use crate::sim::rng::{Rng, mix};
use oracle::{Finding, N_CONFIG_CLASSES, config_class, config_class_name, judge, undisturbed_pair};
use serde_json::{Value, json};
use std::collections::BTreeMap;
use std::path::Path;
use std::time::Instant;
use world::{CLASSES, Decision, Exec, Outcome, Scenario, WorldResult};

/// Property ids this engine decides
pub const PROPERTIES: &[&str] = &["C20"];

const ENGINE_TAG: u64 = 0xA07;
const PROPERTY_TAG: u64 = 20;
const QUICK_RUNS: u64 = 2_500_000;
/// distinct cases / states are counted among the first runs only (memory); a lower bound
const DISTINCT_TRACKED_RUNS: u64 = 12_000_000;
const THOROUGH_MIN_ROUNDS: u64 = 20;
const THOROUGH_MAX_ROUNDS: u64 = 120;
const THOROUGH_CAP_S: f64 = 2400.0;
const MIN_HITS: u64 = 5;
const N_SLOTS: usize = 4;
/// CLASSES without "peer-gone" (a consequence, not a choice of the adversary)
const N_GRID_CLASSES: usize = 12;

fn fnv(s: &str) -> u64 {
    let mut h = 0xcbf29ce484222325u64;
    for b in s.bytes() {
        h ^= b as u64;
        h = h.wrapping_mul(0x100000001b3);
    }
    h
}

fn new_runtime() -> tokio::runtime::Runtime {
    tokio::runtime::Builder::new_current_thread()
        .enable_time()
        .start_paused(true)
        .build()
        .expect("tokio runtime")
}

/* ---------------------------------------------------------------------------------------- */
/* Aggregation                                                                              */
/* ---------------------------------------------------------------------------------------- */

#[derive(Clone)]
struct FirstFinding {
    run: u64,
    seed: u64,
    count: u64,
    message: String,
    scenario: Scenario,
    template: usize,
}

#[derive(Default)]
struct Agg {
    runs: u64,
    endpoints: u64,
    connections: u64,
    sim_ms: u64,
    steps: u64,
    grid: Vec<u64>,
    outcomes: BTreeMap<String, u64>,
    faults: BTreeMap<String, u64>,
    probes: BTreeMap<String, u64>,
    templates: BTreeMap<String, u64>,
    nontrivial: Vec<u64>,
    states: Vec<u64>,
    hash: u64,
    findings: BTreeMap<String, FirstFinding>,
    samples: BTreeMap<u64, Value>,
    harness_errors: Vec<String>,
}

fn bump(m: &mut BTreeMap<String, u64>, k: &str, by: u64) {
    if by > 0 {
        *m.entry(k.to_string()).or_insert(0) += by;
    }
}

fn sorted_dedup(v: &mut Vec<u64>) {
    v.sort_unstable();
    v.dedup();
}

impl Agg {
    fn new() -> Self {
        Agg {
            grid: vec![0; N_CONFIG_CLASSES * N_SLOTS * N_GRID_CLASSES],
            ..Default::default()
        }
    }

    fn merge(&mut self, o: Agg) {
        self.runs += o.runs;
        self.endpoints += o.endpoints;
        self.connections += o.connections;
        self.sim_ms += o.sim_ms;
        self.steps += o.steps;
        for (a, b) in self.grid.iter_mut().zip(o.grid.iter()) {
            *a += *b;
        }
        for (k, v) in &o.outcomes {
            bump(&mut self.outcomes, k, *v);
        }
        for (k, v) in &o.faults {
            bump(&mut self.faults, k, *v);
        }
        for (k, v) in &o.probes {
            bump(&mut self.probes, k, *v);
        }
        for (k, v) in &o.templates {
            bump(&mut self.templates, k, *v);
        }
        self.nontrivial.extend(o.nontrivial);
        self.states.extend(o.states);
        self.hash = self.hash.wrapping_add(o.hash);
        for (sig, f) in o.findings {
            match self.findings.get_mut(&sig) {
                None => {
                    self.findings.insert(sig, f);
                }
                Some(mine) => {
                    let total = mine.count + f.count;
                    if f.run < mine.run {
                        *mine = f;
                    }
                    mine.count = total;
                }
            }
        }
        self.samples.extend(o.samples);
        self.harness_errors.extend(o.harness_errors);
    }

    fn grid_stats(&self) -> (usize, usize, usize, u64) {
        let total = self.grid.len();
        let hit = self.grid.iter().filter(|x| **x > 0).count();
        let full = self.grid.iter().filter(|x| **x >= MIN_HITS).count();
        let min = self.grid.iter().copied().min().unwrap_or(0);
        (total, hit, full, min)
    }
}

fn grid_index(cc: usize, slot: usize, class: usize) -> usize {
    (cc * N_SLOTS + (slot - 1)) * N_GRID_CLASSES + class
}

fn cfg_json(sc: &Scenario) -> Value {
    json!(
        sc.endpoints
            .iter()
            .enumerate()
            .map(|(i, c)| format!(
                "E{i}: key={} {}->{} protocol={} connected-to={}",
                ["none", "K1", "K2"][c.key.min(2) as usize],
                c.my_role,
                c.peer_role,
                c.protocol,
                c.peer.map(|p| format!("E{p}")).unwrap_or("adversary only".into())
            ))
            .collect::<Vec<_>>()
    )
}

fn account(
    agg: &mut Agg,
    idx: u64,
    seed: u64,
    sc: &Scenario,
    template: usize,
    res: &WorldResult,
    findings: &[Finding],
) {
    let n = sc.endpoints.len();
    agg.runs += 1;
    agg.endpoints += n as u64;
    agg.sim_ms += res.sim_ms;
    agg.steps += res.steps as u64;
    bump(&mut agg.templates, genr::TEMPLATES[template], 1);
    bump(&mut agg.probes, "timeouts_fired", res.timeouts_fired as u64);
    let mut abstract_case = String::new();
    let mut state = String::new();
    let mut nontrivial = false;
    for e in 0..n {
        let c = &sc.endpoints[e];
        match c.peer {
            Some(q) if q > e => {
                agg.connections += 1;
                if !oracle::compatible(c, &sc.endpoints[q]) {
                    nontrivial = true;
                }
            }
            None => agg.connections += 1,
            _ => {}
        }
        abstract_case.push_str(&format!(
            "|{}:{}>{}:{}:{:?}",
            c.key, c.my_role, c.peer_role, c.protocol, c.peer
        ));
        let r = &res.eps[e];
        bump(&mut agg.outcomes, &r.outcome.short(), 1);
        state.push_str(&format!("|{}", r.outcome.short()));
        if let Outcome::Accept { sealer, opener } = &r.outcome {
            if sealer != opener {
                bump(&mut agg.probes, "accept_with_half_encryption", 1);
            }
            if (c.key != 0) != *sealer {
                bump(&mut agg.probes, "accept_encryption_differs_from_key_presence", 1);
            }
        }
        for p in 0..2 {
            let Some(inj) = &r.injected[p] else { continue };
            if inj.class != 0 {
                nontrivial = true;
                if inj.class < N_GRID_CLASSES {
                    bump(&mut agg.faults, CLASSES[inj.class], 1);
                }
            }
            let name = if inj.class == 1 {
                "delay-short"
            } else {
                inj.detail.as_str()
            };
            abstract_case.push_str(&format!(";{p}:{}:{name}", inj.class));
            state.push_str(&format!(
                ";{}:{:?}:{}",
                inj.class, inj.source, inj.modified as u8
            ));
            match c.peer {
                Some(q) => {
                    let (a, b) = (e.min(q), e.max(q));
                    let cc = config_class(&sc.endpoints[a], &sc.endpoints[b]);
                    // slot 1: request A->B, 2: request B->A, 3: response A->B, 4: response B->A
                    let slot = 1 + 2 * p + (e == a) as usize;
                    if inj.class < N_GRID_CLASSES {
                        agg.grid[grid_index(cc, slot, inj.class)] += 1;
                    } else {
                        bump(&mut agg.probes, "peer_gone_before_sending", 1);
                    }
                }
                None => bump(&mut agg.probes, "inputs_of_adversary_only_endpoints", 1),
            }
        }
        if r.injected.iter().flatten().any(|i| i.class > 1) {
            bump(
                &mut agg.probes,
                if c.key != 0 {
                    "keyed_endpoints_with_active_adversary"
                } else {
                    "keyless_endpoints_with_active_adversary"
                },
                1,
            );
        }
        // probes on accepting endpoints
        if r.outcome.accepted() {
            let attacked = r.injected.iter().flatten().any(|i| i.class > 1);
            if c.key == 0 {
                bump(&mut agg.probes, "keyless_accepts", 1);
                if attacked {
                    bump(&mut agg.probes, "keyless_accepts_with_active_adversary_unconstrained", 1);
                }
            } else {
                bump(&mut agg.probes, "keyed_accepts_judged_by_provenance", 1);
                if attacked {
                    bump(&mut agg.probes, "keyed_accepts_with_active_adversary", 1);
                }
                let resp_src = r.injected[1].as_ref().and_then(|i| i.source);
                if let Some(s) = resp_src {
                    if Some(s.ep) != c.peer {
                        bump(&mut agg.probes, "accept_of_answer_relayed_from_third_endpoint", 1);
                    }
                    if res.eps[s.ep].injected[0].as_ref().is_some_and(|i| i.modified) {
                        bump(&mut agg.probes, "accept_although_responder_saw_rewritten_claims", 1);
                    }
                    let req = r.injected[0].as_ref();
                    if req.is_some_and(|i| i.modified || i.source.map(|x| x.ep) != Some(s.ep)) {
                        bump(&mut agg.probes, "accept_with_foreign_or_modified_request", 1);
                    }
                }
            }
        }
    }
    for x in 0..n {
        for y in x + 1..n {
            if undisturbed_pair(sc, res, x, y) {
                let m = oracle::compatible(&sc.endpoints[x], &sc.endpoints[y]);
                bump(
                    &mut agg.probes,
                    if m {
                        "undisturbed_pairs_matching"
                    } else {
                        "undisturbed_pairs_mismatching"
                    },
                    1,
                );
                if sc.endpoints[x].peer != Some(y) {
                    bump(&mut agg.probes, "undisturbed_pairs_cross_relayed", 1);
                }
            }
        }
    }
    let sh = fnv(&state);
    if idx < DISTINCT_TRACKED_RUNS {
        if nontrivial {
            agg.nontrivial.push(fnv(&abstract_case));
        }
        agg.states.push(sh);
    }
    agg.hash = agg.hash.wrapping_add(mix(&[idx, sh, fnv(&abstract_case)]));
    let mut seen = std::collections::BTreeSet::new();
    for f in findings {
        let sig = f.signature();
        if !seen.insert(sig.clone()) {
            continue;
        }
        let e = agg.findings.entry(sig).or_insert_with(|| FirstFinding {
            run: idx,
            seed,
            count: 0,
            message: f.message.clone(),
            scenario: sc.clone(),
            template,
        });
        e.count += 1;
    }
}

fn sample_json(idx: u64, seed: u64, sc: &Scenario, template: usize, res: &WorldResult) -> Value {
    json!({
        "run": idx,
        "run_seed": seed,
        "template": genr::TEMPLATES[template],
        "endpoints": cfg_json(sc),
        "decisions": sc.decisions,
        "trace": res.log,
        "outcomes": res.eps.iter().map(|e| e.outcome.short()).collect::<Vec<_>>(),
    })
}

/* ---------------------------------------------------------------------------------------- */
/* Runs                                                                                     */
/* ---------------------------------------------------------------------------------------- */

fn run_seed(verif_seed: u64, idx: u64) -> u64 {
    mix(&[verif_seed, ENGINE_TAG, PROPERTY_TAG, idx])
}

const SAMPLE_RUNS: [u64; 3] = [0, 1, 2];

fn run_range(verif_seed: u64, from: u64, n: u64, offset: u64, stride: u64) -> Agg {
    let rt = new_runtime();
    let mut agg = Agg::new();
    let mut idx = from + offset;
    while idx < from + n {
        let seed = run_seed(verif_seed, idx);
        let sample = SAMPLE_RUNS.contains(&idx);
        let r = catch(|| {
            let mut rng = Rng::new(seed);
            let (sc, t) = genr::gen_scenario(&mut rng);
            let exec = Exec {
                rt: &rt,
                verbose: sample,
            };
            let res = exec.run(&sc);
            (sc, t, res)
        });
        match r {
            Ok((sc, t, Ok(res))) => {
                for e in &res.eps {
                    if let Outcome::Panic(p) = &e.outcome
                        && p.in_harness()
                    {
                        agg.harness_errors
                            .push(format!("run {idx}: harness panic at {}: {}", p.location(), p.message));
                    }
                }
                let findings = judge(&sc, &res);
                account(&mut agg, idx, seed, &sc, t, &res, &findings);
                if sample {
                    agg.samples.insert(idx, sample_json(idx, seed, &sc, t, &res));
                }
            }
            Ok((_, _, Err(e))) => agg.harness_errors.push(format!("run {idx}: {e}")),
            Err(p) => agg
                .harness_errors
                .push(format!("run {idx}: panic outside the handshake at {}: {}", p.location(), p.message)),
        }
        idx += stride;
    }
    agg
}

fn run_round(verif_seed: u64, from: u64, n: u64, jobs: u64) -> Agg {
    let jobs = jobs.clamp(1, 256);
    let mut parts: Vec<Agg> = std::thread::scope(|s| {
        let handles: Vec<_> = (0..jobs)
            .map(|t| s.spawn(move || run_range(verif_seed, from, n, t, jobs)))
            .collect();
        handles
            .into_iter()
            .map(|h| h.join().unwrap_or_else(|_| {
                let mut a = Agg::new();
                a.harness_errors.push("worker thread panicked".into());
                a
            }))
            .collect()
    });
    let mut agg = Agg::new();
    for p in parts.drain(..) {
        agg.merge(p);
    }
    sorted_dedup(&mut agg.nontrivial);
    sorted_dedup(&mut agg.states);
    agg
}

/* ---------------------------------------------------------------------------------------- */
/* Self-test of the oracle (no repository code is changed)                                  */
/* ---------------------------------------------------------------------------------------- */

/// (probe name, value); Err = the harness cannot be trusted
fn selftest(rt: &tokio::runtime::Runtime) -> Result<Vec<(String, u64)>, String> {
    use world::{EndpointCfg, FrameRef, SELFTEST_ROLE};
    let exec = Exec { rt, verbose: false };
    let mut probes = Vec::new();
    // 1. a role that is its own complement makes reflection succeed; the provenance oracle must
    //    notice. (No HyperQueue endpoint is configured like this; the check runs never are.)
    let sc = Scenario {
        endpoints: vec![EndpointCfg {
            key: 1,
            my_role: SELFTEST_ROLE.into(),
            peer_role: SELFTEST_ROLE.into(),
            protocol: 0,
            peer: None,
        }],
        decisions: vec![vec![
            Decision::Subst {
                from: FrameRef { ep: 0, kind: 0 },
            },
            Decision::Subst {
                from: FrameRef { ep: 0, kind: 1 },
            },
        ]],
        order: vec![],
    };
    let res = exec.run(&sc)?;
    let f = judge(&sc, &res);
    let detected = f
        .iter()
        .any(|f| f.signature() == "accept-unproven@reflected-own-response");
    if res.eps[0].outcome.accepted() && !detected {
        return Err("self-test: a reflected handshake was accepted and the oracle stayed silent".into());
    }
    probes.push(("selftest_reflection_on_symmetric_role_detected".to_string(), detected as u64));
    // 2. honest matching pair: both accept, nothing fires, no time passes
    let pair = |ka: u8, kb: u8| Scenario {
        endpoints: vec![
            EndpointCfg {
                key: ka,
                my_role: "server".into(),
                peer_role: "worker".into(),
                protocol: 0,
                peer: Some(1),
            },
            EndpointCfg {
                key: kb,
                my_role: "worker".into(),
                peer_role: "server".into(),
                protocol: 0,
                peer: Some(0),
            },
        ],
        decisions: vec![
            vec![Decision::Deliver, Decision::Deliver],
            vec![Decision::Deliver, Decision::Deliver],
        ],
        order: vec![],
    };
    let sc = pair(1, 1);
    let res = exec.run(&sc)?;
    if !judge(&sc, &res).is_empty() || res.sim_ms != 0 {
        return Err("self-test: the honest exchange is not clean".into());
    }
    probes.push((
        "selftest_honest_pair_accepts".to_string(),
        res.eps.iter().all(|e| e.outcome.accepted()) as u64,
    ));
    // 3. a dropped response: the timeout machinery must end the handshake after 15 s
    let mut sc = pair(1, 1);
    sc.decisions[0][1] = Decision::Drop;
    let res = exec.run(&sc)?;
    let timed_out = matches!(&res.eps[0].outcome, Outcome::Refuse(c) if c == "timeout");
    if !timed_out || res.sim_ms < world::TIMEOUT_MS {
        return Err(format!(
            "self-test: a dropped response did not end in a timeout ({}, {} ms)",
            res.eps[0].outcome.short(),
            res.sim_ms
        ));
    }
    probes.push(("selftest_drop_ends_in_timeout".to_string(), 1));
    // 4. the oracle must fire when an accepting endpoint is judged against a wrong table: feed
    //    the judge a result in which a mismatching pair is claimed to have accepted
    let sc = pair(1, 2);
    let mut res = exec.run(&sc)?;
    if res.eps.iter().any(|e| e.outcome.accepted()) {
        // a real violation: the normal runs will report it
        probes.push(("selftest_forged_result_detected".to_string(), 0));
    } else {
        for e in res.eps.iter_mut() {
            e.outcome = Outcome::Accept {
                sealer: true,
                opener: true,
            };
        }
        let sigs: Vec<String> = judge(&sc, &res).iter().map(|f| f.signature()).collect();
        if !sigs.contains(&"accept-on-mismatch@keys-differ".to_string())
            || !sigs.contains(&"accept-unproven@foreign-key".to_string())
        {
            return Err(format!("self-test: forged acceptance not detected ({sigs:?})"));
        }
        probes.push(("selftest_forged_result_detected".to_string(), 1));
    }
    Ok(probes)
}

/* ---------------------------------------------------------------------------------------- */
/* Minimisation and replay files                                                            */
/* ---------------------------------------------------------------------------------------- */

fn fires(exec: &Exec, sc: &Scenario, sig: &str) -> bool {
    match catch(|| exec.run(sc)) {
        Ok(Ok(res)) => judge(sc, &res).iter().any(|f| f.signature() == sig),
        _ => false,
    }
}

fn references(sc: &Scenario, x: usize) -> bool {
    sc.decisions.iter().enumerate().any(|(e, ds)| {
        e != x
            && ds.iter().any(|d| match d {
                Decision::Subst { from } => from.ep == x,
                Decision::Mutate { from, .. } | Decision::Wire { from, .. } => {
                    from.is_some_and(|f| f.ep == x)
                }
                _ => false,
            })
    })
}

fn minimise(exec: &Exec, sc: &Scenario, sig: &str) -> (Scenario, u32) {
    let mut best = sc.clone();
    let mut tries = 0u32;
    let mut changed = true;
    while changed {
        changed = false;
        if !best.order.is_empty() {
            let mut c = best.clone();
            c.order.clear();
            tries += 1;
            if fires(exec, &c, sig) {
                best = c;
                changed = true;
            }
        }
        // drop the last endpoint when nothing refers to it
        if best.endpoints.len() > 1 {
            let x = best.endpoints.len() - 1;
            if !references(&best, x) {
                let mut c = best.clone();
                c.endpoints.pop();
                c.decisions.pop();
                for e in 0..c.endpoints.len() {
                    if c.endpoints[e].peer == Some(x) {
                        c.endpoints[e].peer = None;
                        for d in c.decisions[e].iter_mut() {
                            if matches!(
                                d,
                                Decision::Deliver
                                    | Decision::DelayShort { .. }
                                    | Decision::DelayPastTimeout
                            ) || matches!(d, Decision::Mutate { from: None, .. } | Decision::Wire { from: None, .. })
                            {
                                *d = Decision::Drop;
                            }
                        }
                    }
                }
                tries += 1;
                if fires(exec, &c, sig) {
                    best = c;
                    changed = true;
                    continue;
                }
            }
        }
        for e in 0..best.endpoints.len() {
            for p in 0..2 {
                let neutral = genr::neutral_decision(&best, e);
                if best.decisions[e][p] == neutral {
                    continue;
                }
                let mut c = best.clone();
                c.decisions[e][p] = neutral;
                tries += 1;
                if fires(exec, &c, sig) {
                    best = c;
                    changed = true;
                }
            }
        }
    }
    (best, tries)
}

fn sanitize(sig: &str) -> String {
    sig.chars()
        .map(|c| if c.is_ascii_alphanumeric() || c == '-' { c } else { '_' })
        .collect()
}

fn replay_json(
    seed: u64,
    verif_seed: u64,
    run: u64,
    sig: &str,
    message: &str,
    sc: &Scenario,
    template: usize,
    minimised: bool,
) -> Value {
    json!({
        "engine": "auth",
        "property": "C20",
        "seed": seed,
        "verif_seed": verif_seed,
        "run_index": run,
        "signature": format!("C20 {sig}"),
        "message": message,
        "template": genr::TEMPLATES[template],
        "minimised": minimised,
        "endpoints_readable": cfg_json(sc),
        "scenario": sc,
    })
}

/// Replays a replay file written by this engine; exit code as for `check`.
pub fn replay(path: &Path, verbose: bool) -> i32 {
    let Some(v) = std::fs::read_to_string(path)
        .ok()
        .and_then(|t| serde_json::from_str::<Value>(&t).ok())
    else {
        eprintln!("auth replay: cannot read {}", path.display());
        return 2;
    };
    let Some(sc) = v
        .get("scenario")
        .and_then(|s| serde_json::from_value::<Scenario>(s.clone()).ok())
    else {
        eprintln!("auth replay: no scenario in {}", path.display());
        return 2;
    };
    let property = v.get("property").and_then(|p| p.as_str()).unwrap_or("C20").to_string();
    let recorded = v
        .get("signature")
        .and_then(|s| s.as_str())
        .unwrap_or("")
        .to_string();
    let rt = new_runtime();
    let exec = Exec { rt: &rt, verbose: true };
    let res = match catch(|| exec.run(&sc)) {
        Ok(Ok(r)) => r,
        Ok(Err(e)) => {
            eprintln!("auth replay: cannot execute: {e}");
            return 2;
        }
        Err(p) => {
            eprintln!("auth replay: harness panic at {}: {}", p.location(), p.message);
            return 2;
        }
    };
    for l in cfg_json(&sc).as_array().unwrap() {
        println!("{}", l.as_str().unwrap());
    }
    if verbose {
        for l in &res.log {
            println!("  {l}");
        }
    }
    for (i, e) in res.eps.iter().enumerate() {
        println!("E{i}: {}", e.outcome.short());
    }
    let findings = judge(&sc, &res);
    let mut fired = false;
    for f in &findings {
        let sig = format!("{property} {}", f.signature());
        println!("FINDING {sig}: {}", f.message);
        if sig == recorded {
            fired = true;
        }
    }
    if fired {
        println!("VIOLATION property={property} replay={}", path.display());
        1
    } else {
        println!("recorded signature '{recorded}' does not fire");
        0
    }
}

/* ---------------------------------------------------------------------------------------- */
/* Check                                                                                    */
/* ---------------------------------------------------------------------------------------- */

/// Runs the check of `args.property`; returns the process exit code (0 / 1 / 2).
pub fn check(args: &CheckArgs) -> i32 {
    if args.property != "C20" {
        eprintln!("engine auth: unknown property {}", args.property);
        return 2;
    }
    let start = Instant::now();
    let main_rt = new_runtime();
    let selftest_probes = match catch(|| selftest(&main_rt)) {
        Ok(Ok(p)) => p,
        Ok(Err(e)) => {
            eprintln!("engine auth: {e}");
            return 2;
        }
        Err(p) => {
            eprintln!("engine auth: self-test panicked at {}: {}", p.location(), p.message);
            return 2;
        }
    };
    let round = args.runs_override.unwrap_or(QUICK_RUNS).max(1);
    let thorough = args.tier == "thorough";
    let mut agg = Agg::new();
    let mut rounds = 0u64;
    let mut capped = false;
    loop {
        let part = run_round(args.seed, rounds * round, round, args.jobs);
        agg.merge(part);
        sorted_dedup(&mut agg.nontrivial);
        sorted_dedup(&mut agg.states);
        rounds += 1;
        if !thorough {
            break;
        }
        let (_, _, _, min) = agg.grid_stats();
        if rounds >= THOROUGH_MIN_ROUNDS && min >= MIN_HITS {
            break;
        }
        if rounds >= THOROUGH_MAX_ROUNDS || start.elapsed().as_secs_f64() > THOROUGH_CAP_S {
            capped = true;
            break;
        }
    }
    for (k, v) in &selftest_probes {
        agg.probes.insert(k.clone(), *v);
    }
    let explore_wall = start.elapsed().as_secs_f64();

    // violations
    let known = load_known_findings(&args.verif_dir.join("known_findings.txt"));
    let exec = Exec {
        rt: &main_rt,
        verbose: false,
    };
    let mut violations = 0u64;
    let mut known_hit: Vec<String> = Vec::new();
    let mut violation_lines: Vec<String> = Vec::new();
    let mut finding_summaries: Vec<Value> = Vec::new();
    let mut harness_error = !agg.harness_errors.is_empty();
    for (sig, f) in &agg.findings {
        if let Some(k) = known
            .iter()
            .find(|k| k.property == args.property && &k.signature == sig)
        {
            println!(
                "KNOWN-FINDING: property={} signature={} {} ({} runs, first run {})",
                args.property, sig, k.text, f.count, f.run
            );
            known_hit.push(sig.clone());
            continue;
        }
        violations += 1;
        let (min_sc, tries) = minimise(&exec, &f.scenario, sig);
        let still = fires(&exec, &min_sc, sig);
        let (sc, minimised) = if still { (min_sc, true) } else { (f.scenario.clone(), false) };
        let message = match catch(|| exec.run(&sc)) {
            Ok(Ok(res)) => judge(&sc, &res)
                .into_iter()
                .find(|x| &x.signature() == sig)
                .map(|x| x.message)
                .unwrap_or_else(|| f.message.clone()),
            _ => f.message.clone(),
        };
        let path = args.verif_dir.join("replays").join(format!(
            "{}-{}-{}.json",
            args.property,
            f.seed,
            sanitize(sig)
        ));
        write_json(
            &path,
            &replay_json(f.seed, args.seed, f.run, sig, &message, &sc, f.template, minimised),
        );
        // re-execute in a fresh process
        let code = std::env::current_exe()
            .ok()
            .and_then(|exe| {
                std::process::Command::new(exe)
                    .arg("replay")
                    .arg(&path)
                    .stdout(std::process::Stdio::null())
                    .stderr(std::process::Stdio::null())
                    .status()
                    .ok()
            })
            .and_then(|s| s.code());
        if code != Some(1) {
            eprintln!(
                "engine auth: replay of {} in a fresh process exited with {:?} instead of 1",
                path.display(),
                code
            );
            harness_error = true;
        }
        println!(
            "FINDING {} {} ({} runs, first run {}, minimised in {} replays): {}",
            args.property, sig, f.count, f.run, tries, message
        );
        violation_lines.push(format!(
            "VIOLATION property={} replay={}",
            args.property,
            path.display()
        ));
        finding_summaries.push(json!({"signature": sig, "runs": f.count, "first_run": f.run,
            "replay": path.display().to_string(), "message": message}));
    }

    // evidence
    let (cells, hit, full, min) = agg.grid_stats();
    let mut cell_rows: Vec<Value> = Vec::new();
    let mut below: Vec<String> = Vec::new();
    for cc in 0..N_CONFIG_CLASSES {
        let mut per_slot = Vec::new();
        for slot in 1..=N_SLOTS {
            let row: Vec<u64> = (0..N_GRID_CLASSES)
                .map(|c| agg.grid[grid_index(cc, slot, c)])
                .collect();
            for (c, h) in row.iter().enumerate() {
                if *h < MIN_HITS {
                    below.push(format!("{} / slot {} / {}: {}", config_class_name(cc), slot, CLASSES[c], h));
                }
            }
            per_slot.push(json!(row));
        }
        cell_rows.push(json!({"configuration": config_class_name(cc), "hits_slot1_to_slot4_by_class": per_slot}));
    }
    let wall = start.elapsed().as_secs_f64();
    let evidence = json!({
        "property_id": args.property,
        "tier": if thorough { "thorough" } else { "quick" },
        "seed": args.seed,
        "level": "exploration",
        "coverage": {
            "evaluations": agg.runs,
            "distinct_nontrivial": agg.nontrivial.len(),
            "rule": "One evaluation = one world drawn from mix(seed, engine, property, run index): a target connection E0-E1 whose configuration class (keys: none/same/different/one-sided x protocol: same/different x role expectations unmet: 0/1/2) is drawn first and then instantiated with keys {none,K1,K2}, roles {server,worker,hq-server,hq-client} (my role != expected role) and protocol {0,1}; optionally one or two more honest endpoints (other connections of the same parties: replay material and answering oracles); one adversary decision per (endpoint, input position) - 30% of the worlds instantiate one of 8 attack templates, the others carry 0-4 random decisions (57% exactly one) over the 11 active substitution classes. Every endpoint runs the real do_authentication; the adversary's decision is applied when the endpoint waits for that input. A case is non-trivial when at least one non-'deliver' class was applied or a connected pair mismatches; cases are distinct by (all endpoint configurations, applied class + source frame + mutation/forgery kind per input), parameters such as bit positions and delays are not counted; both distinct counts are taken over the first 12,000,000 runs only (lower bound in the thorough tier). distinct_states counts distinct vectors of (outcome, applied class, provenance) over the endpoints.",
            "samples": agg.samples.values().cloned().collect::<Vec<_>>(),
            "runs_per_hour": (agg.runs as f64 / explore_wall.max(1e-9) * 3600.0) as u64,
            "simulated_time_s": agg.sim_ms / 1000,
            "faults_injected": agg.faults,
            "probes": agg.probes,
            "distinct_states": agg.states.len(),
            "connections": agg.connections,
            "handshakes_executed": agg.endpoints,
            "adversary_actions": agg.steps,
            "rounds": rounds,
            "time_capped": capped,
            "templates": agg.templates,
            "outcomes": agg.outcomes,
            "grid": {
                "dimensions": format!("{} configuration classes x {} message slots x {} substitution classes", N_CONFIG_CLASSES, N_SLOTS, N_GRID_CLASSES),
                "classes": CLASSES[..N_GRID_CLASSES].to_vec(),
                "slots": ["1: request A->B", "2: request B->A", "3: response A->B", "4: response B->A"],
                "cells": cells,
                "cells_hit": hit,
                "cells_hit_at_least_5": full,
                "fraction_hit": hit as f64 / cells as f64,
                "fraction_hit_at_least_5": full as f64 / cells as f64,
                "min_hits": min,
                "cells_below_5": below,
                "hits": cell_rows,
            },
            "log_hash": format!("{:016x}", agg.hash),
            "components": {
                "real": [
                    "tako::comm::do_authentication (Authenticator::make_auth_request / make_auth_response / finish_authentication)",
                    "tako::comm::serialize / deserialize (bincode)",
                    "orion StreamSealer / StreamOpener with OS randomness",
                    "tokio::time::timeout on a paused clock (15 s handshake timeouts fire exactly)",
                    "tokio_util LengthDelimitedCodec + Framed + split on every endpoint"
                ],
                "stub": [
                    "TCP stream: in-memory byte pipe per endpoint, owned by the adversary",
                    "task scheduling: endpoint futures polled by hand with a flag waker",
                    "make_protocol_builder: copied (little endian, MAX_FRAME_SIZE) because the path is pub(crate)",
                    "callers (worker_authentication, connect_to_server_and_authenticate, Connection::init): only their arguments (roles, protocol 0) are reproduced"
                ]
            },
            "known_findings_hit": known_hit,
            "findings": finding_summaries,
            "harness_errors": agg.harness_errors.iter().take(5).collect::<Vec<_>>(),
        },
        "assumptions": [
            "Refuse = do_authentication returns an error (including the 15 s timeout and a closed connection); accept = it returns Ok.",
            "Keyed endpoint: acceptance is allowed only if the response it was given is the unmodified answer of an honest endpoint with the same key, the expected role and the same protocol to this endpoint's request of this connection (challenge unmodified). Rewritten role/protocol claims in the request seen by the responder are not held against the accepting endpoint as long as the responder itself satisfies the three conditions (counted in probes.accept_although_responder_saw_rewritten_claims).",
            "Endpoint without key: there is no secret, anybody on the wire can play the peer, so 'proved that it holds the same key' is vacuous. Required there: undisturbed exchanges follow the configuration table, and an accepting endpoint was given a request that claims its protocol, the expected role and no-key mode, and a response that is not the refusal message.",
            "Roles with my_role == expected role are excluded (no HyperQueue endpoint is configured so; reflection trivially succeeds there and is used as the oracle self-test).",
            "The adversary has no key material: forged sealed responses contain constant bytes. Nonces, challenges and ciphertexts come from the OS and never enter logs, hashes or decisions.",
            "Frames on the wire are atomic except for the explicit wire-fault class; no write back-pressure (frames are < 200 bytes)."
        ],
        "wall_s": wall,
        "violations": violations,
    });
    write_json(
        &args.verif_dir.join("evidence").join(format!("{}.json", args.property)),
        &evidence,
    );
    for e in agg.harness_errors.iter().take(5) {
        eprintln!("engine auth: harness error: {e}");
    }
    println!(
        "{}: {} runs ({} handshakes, {} connections, {} rounds) in {:.1}s, grid {}/{} cells hit, {}/{} >= {} (min {}), distinct non-trivial {}, states {}, log_hash {:016x}, violations={} known={}",
        args.property,
        agg.runs,
        agg.endpoints,
        agg.connections,
        rounds,
        wall,
        hit,
        cells,
        full,
        cells,
        MIN_HITS,
        min,
        agg.nontrivial.len(),
        agg.states.len(),
        agg.hash,
        violations,
        known_hit.len()
    );
    for l in &violation_lines {
        println!("{l}");
    }
    if harness_error {
        2
    } else if violations > 0 {
        1
    } else {
        0
    }
}
