//! Brute-force reference for C16, written from the documentation (docs/jobs/resources.md) and the
//! property statement. It never calls the code under test: its input is the plain free state
//! (per group: number of completely free indices, free fractions of the partially used ones).

use std::collections::BTreeSet;

use super::spec::{Desc, EntrySpec, Kind, PolicySpec, UNIT};

#[derive(Debug, Clone, PartialEq, Eq)]
pub struct GroupFree {
    /// completely free indices
    pub whole: u64,
    /// biggest free fraction of a partially used index (0 = none)
    pub partial_max: u64,
}

#[derive(Debug, Clone, PartialEq, Eq)]
pub enum ResFree {
    Indexed(Vec<GroupFree>),
    Sum(u64),
}

/// Free state of the worker with nothing allocated
pub fn empty_free(kind: &Kind) -> ResFree {
    match kind {
        Kind::Sum { size } => ResFree::Sum(*size),
        k => ResFree::Indexed(
            k.group_sizes()
                .iter()
                .map(|s| GroupFree { whole: *s as u64, partial_max: 0 })
                .collect(),
        ),
    }
}

/// Is there a grant of `units` whole indices plus (if `frac` > 0) a part `frac` of one further
/// index that touches exactly the groups in `mask`?
/// The fractional part comes from a single index: a partially used index with at least `frac`
/// free, or a completely free index (which is then split).
fn exact_use(groups: &[GroupFree], mask: u32, units: u64, frac: u64) -> bool {
    let members: Vec<usize> = (0..groups.len()).filter(|g| mask & (1 << g) != 0).collect();
    let whole_total: u64 = members.iter().map(|g| groups[*g].whole).sum();
    if frac == 0 {
        return members.iter().all(|g| groups[*g].whole >= 1)
            && members.len() as u64 <= units
            && whole_total >= units;
    }
    for f in &members {
        let others_ok = members
            .iter()
            .filter(|g| *g != f)
            .all(|g| groups[*g].whole >= 1);
        let n_others = members.len() as u64 - 1;
        if !others_ok || n_others > units {
            continue;
        }
        // the part comes from a partially used index of group f
        if groups[*f].partial_max >= frac && whole_total >= units {
            return true;
        }
        // the part comes from a completely free index of group f
        if groups[*f].whole >= 1 && whole_total > units {
            return true;
        }
    }
    false
}

/// The numbers of groups a grant of the amount can touch in this free state (empty = no grant
/// is possible)
pub fn possible_group_counts(groups: &[GroupFree], amount: u64) -> BTreeSet<usize> {
    let (units, frac) = (amount / UNIT, amount % UNIT);
    let mut out = BTreeSet::new();
    if amount == 0 {
        return out;
    }
    for mask in 1u32..(1u32 << groups.len()) {
        if exact_use(groups, mask, units, frac) {
            out.insert(mask.count_ones() as usize);
        }
    }
    out
}

/// All group sets (bit masks) of exactly `k` groups that a grant of the amount can touch
pub fn group_sets_of_size(groups: &[GroupFree], amount: u64, k: usize) -> Vec<u32> {
    let (units, frac) = (amount / UNIT, amount % UNIT);
    (1u32..(1u32 << groups.len()))
        .filter(|m| m.count_ones() as usize == k && exact_use(groups, *m, units, frac))
        .collect()
}

#[derive(Debug, Clone)]
pub struct EntryRef {
    /// the resource is an indexed pool with more than one group
    pub grouped: bool,
    pub strict: bool,
    /// some grant of this entry is possible in the current free state
    pub feasible: bool,
    /// fewest / most groups a grant can touch now (grouped pools only)
    pub min_now: Option<usize>,
    pub max_now: Option<usize>,
    /// fewest groups a grant can touch on the worker with nothing allocated
    pub min_empty: Option<usize>,
    /// amount the grant must have (whole pool for `all`)
    pub amount: u64,
}

pub fn entry_reference(kind: &Kind, free: &ResFree, entry: &EntrySpec) -> EntryRef {
    let strict = matches!(entry.policy, PolicySpec::ForceCompact | PolicySpec::ForceTight);
    let total = kind.total();
    match (free, entry.policy) {
        (ResFree::Sum(f), PolicySpec::All) => EntryRef {
            grouped: false,
            strict,
            feasible: *f == total,
            min_now: None,
            max_now: None,
            min_empty: None,
            amount: total,
        },
        (ResFree::Sum(f), _) => EntryRef {
            grouped: false,
            strict,
            feasible: entry.amount <= *f,
            min_now: None,
            max_now: None,
            min_empty: None,
            amount: entry.amount,
        },
        (ResFree::Indexed(groups), PolicySpec::All) => {
            // `all`: granted iff the whole resource is free
            let free_whole: u64 = groups.iter().map(|g| g.whole).sum();
            EntryRef {
                grouped: kind.is_grouped(),
                strict,
                feasible: free_whole * UNIT == total,
                min_now: None,
                max_now: None,
                min_empty: None,
                amount: total,
            }
        }
        (ResFree::Indexed(groups), _) => {
            let now = possible_group_counts(groups, entry.amount);
            let empty = match empty_free(kind) {
                ResFree::Indexed(g) => possible_group_counts(&g, entry.amount),
                ResFree::Sum(_) => BTreeSet::new(),
            };
            EntryRef {
                grouped: kind.is_grouped(),
                strict,
                feasible: !now.is_empty(),
                min_now: now.iter().next().copied(),
                max_now: now.iter().next_back().copied(),
                min_empty: empty.iter().next().copied(),
                amount: entry.amount,
            }
        }
    }
}

#[derive(Debug, Clone)]
pub struct RequestRef {
    pub entries: Vec<EntryRef>,
    /// every entry can be granted from the free state (entries are on different resources, so
    /// this is simultaneous satisfiability)
    pub feasible: bool,
    /// every strict entry on a grouped pool can be granted now within the smallest number of
    /// groups that could ever hold it
    pub strict_ok: bool,
    pub has_strict_grouped: bool,
    /// every non-strict compact/tight entry on a grouped pool can also reach its empty-worker
    /// minimum now (the code applies the strict yardstick to them when the request also contains
    /// a strict entry; the documentation does not say so)
    pub nonstrict_at_optimum: bool,
    /// coupling weights between two (compact/tight) entries of this request, or inside one
    pub active_weights: Vec<(usize, u8, usize, u8, u16)>,
    pub all_weights_sum: u64,
}

fn in_coupling_set(kind: &Kind, p: PolicySpec) -> bool {
    kind.is_grouped()
        && matches!(
            p,
            PolicySpec::Compact | PolicySpec::Tight | PolicySpec::ForceCompact | PolicySpec::ForceTight
        )
}

pub fn request_reference(desc: &Desc, free: &[ResFree], entries: &[EntrySpec]) -> RequestRef {
    let mut refs = Vec::new();
    for e in entries {
        let pos = desc.position(&e.resource).expect("request for a resource of the descriptor");
        refs.push(entry_reference(&desc.resources[pos].1, &free[pos], e));
    }
    let feasible = refs.iter().all(|r| r.feasible);
    let has_strict_grouped = refs.iter().any(|r| r.strict && r.grouped);
    let strict_ok = refs
        .iter()
        .filter(|r| r.strict && r.grouped)
        .all(|r| r.feasible && r.min_now == r.min_empty);
    let nonstrict_at_optimum = entries.iter().zip(refs.iter()).all(|(e, r)| {
        !(r.grouped && matches!(e.policy, PolicySpec::Compact | PolicySpec::Tight))
            || (r.feasible && r.min_now == r.min_empty)
    });
    // entry position of each resource that takes part in the group optimisation
    let coupled: Vec<(usize, usize)> = entries
        .iter()
        .enumerate()
        .filter_map(|(i, e)| {
            let pos = desc.position(&e.resource).unwrap();
            in_coupling_set(&desc.resources[pos].1, e.policy).then_some((pos, i))
        })
        .collect();
    let mut active_weights = Vec::new();
    for (r1, g1, r2, g2, w) in &desc.coupling {
        let e1 = coupled.iter().find(|(pos, _)| *pos == *r1 as usize);
        let e2 = coupled.iter().find(|(pos, _)| *pos == *r2 as usize);
        if let (Some(e1), Some(e2)) = (e1, e2) {
            active_weights.push((e1.1, *g1, e2.1, *g2, *w));
        }
    }
    let all_weights_sum = active_weights.iter().map(|w| w.4 as u64).sum();
    RequestRef {
        entries: refs,
        feasible,
        strict_ok,
        has_strict_grouped,
        nonstrict_at_optimum,
        active_weights,
        all_weights_sum,
    }
}

/// Sum of the coupling weights both of whose groups are in the chosen group sets
/// (`sets[entry position]` = bit mask of groups, 0 for entries outside the optimisation)
pub fn weight_of(sets: &[u32], weights: &[(usize, u8, usize, u8, u16)]) -> u64 {
    weights
        .iter()
        .filter(|(e1, g1, e2, g2, _)| sets[*e1] & (1 << g1) != 0 && sets[*e2] & (1 << g2) != 0)
        .map(|w| w.4 as u64)
        .sum()
}

/// Best total coupling weight over all ways to give every compact/tight entry on a grouped pool
/// a group set of exactly its empty-worker minimum size (None: some entry cannot get that)
pub fn best_weight_at_minimum(
    desc: &Desc,
    free: &[ResFree],
    entries: &[EntrySpec],
    rr: &RequestRef,
) -> Option<u64> {
    let mut options: Vec<Vec<u32>> = Vec::new();
    for (e, r) in entries.iter().zip(rr.entries.iter()) {
        let pos = desc.position(&e.resource).unwrap();
        if in_coupling_set(&desc.resources[pos].1, e.policy) {
            let ResFree::Indexed(groups) = &free[pos] else {
                return None;
            };
            let sets = group_sets_of_size(groups, e.amount, r.min_empty?);
            if sets.is_empty() {
                return None;
            }
            options.push(sets);
        } else {
            options.push(vec![0]);
        }
    }
    let mut best: Option<u64> = None;
    let mut idx = vec![0usize; options.len()];
    loop {
        let sets: Vec<u32> = idx.iter().zip(options.iter()).map(|(i, o)| o[*i]).collect();
        let w = weight_of(&sets, &rr.active_weights);
        best = Some(best.map_or(w, |b| b.max(w)));
        let mut k = 0;
        loop {
            if k == idx.len() {
                return best;
            }
            idx[k] += 1;
            if idx[k] < options[k].len() {
                break;
            }
            idx[k] = 0;
            k += 1;
        }
    }
}

#[cfg(test)]
mod tests {
    use super::*;

    fn g(whole: u64, partial_max: u64) -> GroupFree {
        GroupFree { whole, partial_max }
    }

    #[test]
    fn doc_example() {
        // 3 groups x 4, amount 6: at least 2 groups, at most 3
        let groups = vec![g(4, 0), g(4, 0), g(4, 0)];
        let c = possible_group_counts(&groups, 6 * UNIT);
        assert_eq!(c.iter().copied().collect::<Vec<_>>(), vec![2, 3]);
    }

    #[test]
    fn fraction_single_index() {
        // two indices both used to 0.75: 0.5 is not available
        let groups = vec![g(0, 2500), g(0, 2500)];
        assert!(possible_group_counts(&groups, 5000).is_empty());
        let groups = vec![g(0, 5000)];
        assert_eq!(possible_group_counts(&groups, 5000).len(), 1);
        // 1.5 from one whole index in group 0 and half an index in group 1
        let groups = vec![g(1, 0), g(0, 5000)];
        assert_eq!(
            possible_group_counts(&groups, 15000).iter().copied().collect::<Vec<_>>(),
            vec![2]
        );
    }
}
