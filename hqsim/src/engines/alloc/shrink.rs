//! Minimiser: fewer operations, simpler requests, smaller descriptor, while the same signature
//! keeps firing.

use super::spec::*;

pub struct ShrinkStats {
    pub tries: u64,
    pub ops_from: usize,
    pub ops_to: usize,
}

/// Removes coupling items that the (shrunk) descriptor no longer supports
fn sanitize(desc: &mut Desc) {
    let resources = desc.resources.clone();
    desc.coupling.retain(|(r1, g1, r2, g2, _)| {
        [(r1, g1), (r2, g2)].iter().all(|(r, g)| {
            resources
                .get(**r as usize)
                .map(|(_, k)| k.is_grouped() && (**g as usize) < k.n_groups())
                .unwrap_or(false)
        })
    });
}

fn remove_resource(desc: &Desc, ops: &[Op], pos: usize) -> Option<(Desc, Vec<Op>)> {
    if pos == 0 || pos >= desc.resources.len() {
        return None;
    }
    let name = desc.resources[pos].0.clone();
    let mut d = desc.clone();
    d.resources.remove(pos);
    d.coupling = desc
        .coupling
        .iter()
        .filter(|c| c.0 as usize != pos && c.2 as usize != pos)
        .map(|c| {
            let fix = |r: u8| if r as usize > pos { r - 1 } else { r };
            (fix(c.0), c.1, fix(c.2), c.3, c.4)
        })
        .collect();
    let mut new_ops = Vec::new();
    for op in ops {
        match op {
            Op::Grant { id, entries, bounce } => {
                let e: Vec<EntrySpec> = entries.iter().filter(|e| e.resource != name).cloned().collect();
                if !e.is_empty() {
                    new_ops.push(Op::Grant { id: *id, entries: e, bounce: *bounce });
                }
            }
            Op::Probe { entries } => {
                let e: Vec<EntrySpec> = entries.iter().filter(|e| e.resource != name).cloned().collect();
                if !e.is_empty() {
                    new_ops.push(Op::Probe { entries: e });
                }
            }
            Op::Release { grant } => new_ops.push(Op::Release { grant: *grant }),
        }
    }
    Some((d, new_ops))
}

fn smaller_kinds(kind: &Kind) -> Vec<Kind> {
    let mut out = Vec::new();
    match kind {
        Kind::Range { start, end } => {
            if end > start {
                out.push(Kind::Range { start: *start, end: *end - 1 });
            }
            if *start > 0 {
                out.push(Kind::Range { start: 0, end: *end - *start });
            }
        }
        Kind::List { n } => {
            if *n > 1 {
                out.push(Kind::List { n: *n - 1 });
            }
        }
        Kind::Groups { sizes } => {
            for g in (0..sizes.len()).rev() {
                if sizes.len() > 1 {
                    let mut s = sizes.clone();
                    s.remove(g);
                    out.push(Kind::Groups { sizes: s });
                }
            }
            for g in 0..sizes.len() {
                if sizes[g] > 1 {
                    let mut s = sizes.clone();
                    s[g] -= 1;
                    out.push(Kind::Groups { sizes: s });
                }
            }
        }
        Kind::Sum { size } => {
            if *size > UNIT {
                out.push(Kind::Sum { size: *size - UNIT });
            }
            if *size % UNIT != 0 && *size > UNIT {
                out.push(Kind::Sum { size: *size / UNIT * UNIT });
            }
        }
    }
    out
}

fn map_entries(ops: &[Op], op_idx: usize, f: impl Fn(&Vec<EntrySpec>) -> Option<Vec<EntrySpec>>) -> Option<Vec<Op>> {
    let mut out = ops.to_vec();
    match &ops[op_idx] {
        Op::Grant { id, entries, bounce } => {
            out[op_idx] = Op::Grant { id: *id, entries: f(entries)?, bounce: *bounce };
        }
        Op::Probe { entries } => {
            out[op_idx] = Op::Probe { entries: f(entries)? };
        }
        Op::Release { .. } => return None,
    }
    Some(out)
}

/// `fires(desc, ops)`: does the target signature still fire?
pub fn minimise(
    desc: &Desc,
    ops: &[Op],
    first_op: usize,
    max_tries: u64,
    fires: &mut dyn FnMut(&Desc, &[Op]) -> bool,
) -> (Desc, Vec<Op>, ShrinkStats) {
    let mut stats = ShrinkStats { tries: 0, ops_from: ops.len(), ops_to: ops.len() };
    let mut desc = desc.clone();
    let mut ops = ops.to_vec();
    let mut attempt = |d: &Desc, o: &[Op], stats: &mut ShrinkStats| -> bool {
        if stats.tries >= max_tries || !d.well_formed() {
            return false;
        }
        stats.tries += 1;
        fires(d, o)
    };
    // nothing after the operation at which the signature fired first is needed
    if first_op + 1 < ops.len() {
        let cut = ops[..=first_op].to_vec();
        if attempt(&desc, &cut, &mut stats) {
            ops = cut;
        }
    }
    loop {
        let mut changed = false;
        // drop operations
        let mut i = ops.len();
        while i > 0 {
            i -= 1;
            let mut o = ops.clone();
            o.remove(i);
            if attempt(&desc, &o, &mut stats) {
                ops = o;
                changed = true;
            }
        }
        // simplify requests
        for i in 0..ops.len() {
            if let Op::Grant { id, entries, bounce: true } = &ops[i] {
                let mut o = ops.clone();
                o[i] = Op::Grant { id: *id, entries: entries.clone(), bounce: false };
                if attempt(&desc, &o, &mut stats) {
                    ops = o;
                    changed = true;
                }
            }
            loop {
                let n = match &ops[i] {
                    Op::Grant { entries, .. } | Op::Probe { entries } => entries.len(),
                    _ => 0,
                };
                let mut dropped = false;
                if n > 1 {
                    for e in 0..n {
                        let cand = map_entries(&ops, i, |es| {
                            let mut es = es.clone();
                            es.remove(e);
                            Some(es)
                        });
                        if let Some(o) = cand
                            && attempt(&desc, &o, &mut stats)
                        {
                            ops = o;
                            changed = true;
                            dropped = true;
                            break;
                        }
                    }
                }
                if !dropped {
                    break;
                }
            }
            // smaller amounts
            let n = match &ops[i] {
                Op::Grant { entries, .. } | Op::Probe { entries } => entries.len(),
                _ => 0,
            };
            for e in 0..n {
                loop {
                    let mut progressed = false;
                    for delta in [UNIT, 2_500] {
                        let cand = map_entries(&ops, i, |es| {
                            let mut es = es.clone();
                            if es[e].policy == PolicySpec::All || es[e].amount <= delta {
                                return None;
                            }
                            es[e].amount -= delta;
                            Some(es)
                        });
                        if let Some(o) = cand
                            && attempt(&desc, &o, &mut stats)
                        {
                            ops = o;
                            changed = true;
                            progressed = true;
                            break;
                        }
                    }
                    if !progressed {
                        break;
                    }
                }
            }
        }
        // smaller descriptor
        for c in (0..desc.coupling.len()).rev() {
            let mut d = desc.clone();
            d.coupling.remove(c);
            if attempt(&d, &ops, &mut stats) {
                desc = d;
                changed = true;
            }
        }
        for pos in (1..desc.resources.len()).rev() {
            if let Some((d, o)) = remove_resource(&desc, &ops, pos)
                && attempt(&d, &o, &mut stats)
            {
                desc = d;
                ops = o;
                changed = true;
            }
        }
        for pos in 0..desc.resources.len() {
            loop {
                let mut progressed = false;
                for k in smaller_kinds(&desc.resources[pos].1) {
                    let mut d = desc.clone();
                    d.resources[pos].1 = k;
                    sanitize(&mut d);
                    if attempt(&d, &ops, &mut stats) {
                        desc = d;
                        changed = true;
                        progressed = true;
                        break;
                    }
                }
                if !progressed {
                    break;
                }
            }
        }
        if !changed || stats.tries >= max_tries {
            break;
        }
    }
    stats.ops_to = ops.len();
    (desc, ops, stats)
}
