//! Serializable description of one run of the `alloc` engine: a worker resource descriptor and an
//! explicit list of operations on the real allocator. Also the seeded generator of both.

use serde::{Deserialize, Serialize};

use tako::resources::{
    ResourceDescriptor, ResourceDescriptorCoupling, ResourceDescriptorCouplingItem,
    ResourceDescriptorItem, ResourceDescriptorKind, ResourceIndex,
};

use crate::sim::rng::Rng;
pub use crate::spec::{EntrySpec, PolicySpec};

pub const UNIT: u64 = 10_000;

#[derive(Debug, Clone, Serialize, Deserialize, PartialEq, Eq, Hash)]
pub enum Kind {
    /// `range(start-end)`, end inclusive; the indices are the numbers themselves
    Range { start: u32, end: u32 },
    /// `[v0, v1, ...]`: n labelled values, indices are positions
    List { n: u32 },
    /// `[[..],[..]]`: groups of the given sizes; indices are positions in the flattened list.
    /// One group is the same as a list (the constructor of the descriptor collapses it).
    Groups { sizes: Vec<u32> },
    /// `sum(size)`, size in fractions (1 unit = 10_000)
    Sum { size: u64 },
}

impl Kind {
    pub fn total(&self) -> u64 {
        match self {
            Kind::Range { start, end } => (*end + 1 - *start) as u64 * UNIT,
            Kind::List { n } => *n as u64 * UNIT,
            Kind::Groups { sizes } => sizes.iter().map(|s| *s as u64).sum::<u64>() * UNIT,
            Kind::Sum { size } => *size,
        }
    }

    /// Number of groups the user can observe (a single group is a plain list)
    pub fn n_groups(&self) -> usize {
        match self {
            Kind::Groups { sizes } => sizes.len().max(1),
            _ => 1,
        }
    }

    pub fn is_grouped(&self) -> bool {
        self.n_groups() > 1
    }

    pub fn is_sum(&self) -> bool {
        matches!(self, Kind::Sum { .. })
    }

    /// Sizes of the groups (one group for list/range, none for sum)
    pub fn group_sizes(&self) -> Vec<u32> {
        match self {
            Kind::Range { start, end } => vec![*end + 1 - *start],
            Kind::List { n } => vec![*n],
            Kind::Groups { sizes } => {
                if sizes.len() > 1 {
                    sizes.clone()
                } else {
                    vec![sizes.iter().sum()]
                }
            }
            Kind::Sum { .. } => Vec::new(),
        }
    }

    /// (index, group) of every individual resource the descriptor defines
    pub fn universe(&self) -> Vec<(u32, u32)> {
        match self {
            Kind::Range { start, end } => (*start..=*end).map(|i| (i, 0)).collect(),
            Kind::List { n } => (0..*n).map(|i| (i, 0)).collect(),
            Kind::Groups { sizes } => {
                let mut out = Vec::new();
                let mut i = 0;
                for (g, s) in sizes.iter().enumerate() {
                    for _ in 0..*s {
                        out.push((i, if sizes.len() > 1 { g as u32 } else { 0 }));
                        i += 1;
                    }
                }
                out
            }
            Kind::Sum { .. } => Vec::new(),
        }
    }

    pub fn to_kind(&self) -> ResourceDescriptorKind {
        match self {
            Kind::Range { start, end } => ResourceDescriptorKind::Range {
                start: ResourceIndex::new(*start),
                end: ResourceIndex::new(*end),
            },
            Kind::List { n } => {
                ResourceDescriptorKind::list((0..*n).map(|i| format!("v{i}")).collect()).unwrap()
            }
            Kind::Groups { sizes } => {
                let mut i = 0;
                let groups: Vec<Vec<String>> = sizes
                    .iter()
                    .map(|s| {
                        (0..*s)
                            .map(|_| {
                                i += 1;
                                (i - 1).to_string()
                            })
                            .collect()
                    })
                    .collect();
                // the constructor users go through (one group becomes a list)
                ResourceDescriptorKind::groups(groups).unwrap()
            }
            Kind::Sum { size } => ResourceDescriptorKind::Sum {
                size: crate::spec::amount_from_fractions(*size),
            },
        }
    }

    pub fn describe(&self) -> String {
        match self {
            Kind::Range { start, end } => format!("range({start}-{end})"),
            Kind::List { n } => format!("list[{n}]"),
            Kind::Groups { sizes } => format!("groups{sizes:?}"),
            Kind::Sum { size } => format!("sum({})", fmt_amount(*size)),
        }
    }
}

pub fn fmt_amount(f: u64) -> String {
    if f % UNIT == 0 {
        format!("{}", f / UNIT)
    } else {
        let s = format!("{}.{:04}", f / UNIT, f % UNIT);
        s.trim_end_matches('0').to_string()
    }
}

#[derive(Debug, Clone, Serialize, Deserialize, PartialEq, Eq, Hash)]
pub struct Desc {
    /// `cpus` is always the first resource (a worker cannot start without it); resource ids of
    /// the allocator are then the positions in this list.
    pub resources: Vec<(String, Kind)>,
    /// (resource idx, group idx, resource idx, group idx, weight)
    #[serde(default)]
    pub coupling: Vec<(u8, u8, u8, u8, u16)>,
}

impl Desc {
    pub fn descriptor(&self) -> ResourceDescriptor {
        let mut weights: Vec<ResourceDescriptorCouplingItem> = self
            .coupling
            .iter()
            .map(|(r1, g1, r2, g2, w)| {
                let mut item = ResourceDescriptorCouplingItem {
                    resource1_idx: *r1,
                    group1_idx: (*g1).into(),
                    resource2_idx: *r2,
                    group2_idx: (*g2).into(),
                    weight: *w,
                };
                item.normalize();
                item
            })
            .collect();
        weights.sort();
        ResourceDescriptor::new(
            self.resources
                .iter()
                .map(|(name, kind)| ResourceDescriptorItem {
                    name: name.clone(),
                    kind: kind.to_kind(),
                })
                .collect(),
            ResourceDescriptorCoupling { weights },
        )
    }

    pub fn position(&self, name: &str) -> Option<usize> {
        self.resources.iter().position(|(n, _)| n == name)
    }

    pub fn kind(&self, name: &str) -> Option<&Kind> {
        self.resources.iter().find(|(n, _)| n == name).map(|x| &x.1)
    }

    /// Structural validity as far as this engine needs it (the real `validate` is called too)
    pub fn well_formed(&self) -> bool {
        if self.resources.is_empty() || self.resources[0].0 != "cpus" {
            return false;
        }
        for (i, (name, kind)) in self.resources.iter().enumerate() {
            if self.resources[i + 1..].iter().any(|(n, _)| n == name) {
                return false;
            }
            match kind {
                Kind::Range { start, end } => {
                    if end < start {
                        return false;
                    }
                }
                Kind::List { n } => {
                    if *n == 0 {
                        return false;
                    }
                }
                Kind::Groups { sizes } => {
                    if sizes.is_empty() || sizes.contains(&0) {
                        return false;
                    }
                }
                Kind::Sum { size } => {
                    if *size == 0 {
                        return false;
                    }
                }
            }
        }
        let mut seen = std::collections::BTreeSet::new();
        for (r1, g1, r2, g2, w) in &self.coupling {
            let (a, b) = if r1 <= r2 {
                ((*r1, *g1), (*r2, *g2))
            } else {
                ((*r2, *g2), (*r1, *g1))
            };
            if !seen.insert((a, b)) || *w == 0 {
                return false;
            }
            for (r, g) in [a, b] {
                let Some((_, k)) = self.resources.get(r as usize) else {
                    return false;
                };
                if !k.is_grouped() || g as usize >= k.n_groups() {
                    return false;
                }
            }
            if a == b {
                return false;
            }
        }
        true
    }

    pub fn describe(&self) -> String {
        let mut s: Vec<String> = self
            .resources
            .iter()
            .map(|(n, k)| format!("{n}={}", k.describe()))
            .collect();
        if !self.coupling.is_empty() {
            s.push(format!(
                "coupling={}",
                self.coupling
                    .iter()
                    .map(|(r1, g1, r2, g2, w)| format!(
                        "{}[{g1}]:{}[{g2}]={w}",
                        self.resources[*r1 as usize].0, self.resources[*r2 as usize].0
                    ))
                    .collect::<Vec<_>>()
                    .join(",")
            ));
        }
        s.join(" ")
    }
}

#[derive(Debug, Clone, Serialize, Deserialize, PartialEq, Eq, Hash)]
pub enum Op {
    /// `is_enabled` then `try_allocate`. With `bounce` a successful grant is released at once,
    /// the snapshot is compared with the one before, and the request is granted again.
    Grant {
        id: u32,
        entries: Vec<EntrySpec>,
        #[serde(default)]
        bounce: bool,
    },
    /// Releases the allocation granted by the operation `Grant{id}` (no-op if that grant was
    /// refused, is already released, or was dropped by the minimiser)
    Release { grant: u32 },
    /// `is_enabled` only
    Probe { entries: Vec<EntrySpec> },
}

pub fn describe_entries(entries: &[EntrySpec]) -> String {
    entries
        .iter()
        .map(|e| {
            let p = match e.policy {
                PolicySpec::Compact => "compact",
                PolicySpec::Tight => "tight",
                PolicySpec::Scatter => "scatter",
                PolicySpec::ForceCompact => "compact!",
                PolicySpec::ForceTight => "tight!",
                PolicySpec::All => "all",
            };
            if e.policy == PolicySpec::All {
                format!("{}=all", e.resource)
            } else {
                format!("{}={} {p}", e.resource, fmt_amount(e.amount))
            }
        })
        .collect::<Vec<_>>()
        .join(", ")
}

pub fn describe_op(op: &Op) -> String {
    match op {
        Op::Grant { id, entries, bounce } => format!(
            "grant#{id}{}({})",
            if *bounce { "[bounce]" } else { "" },
            describe_entries(entries)
        ),
        Op::Release { grant } => format!("release(#{grant})"),
        Op::Probe { entries } => format!("probe({})", describe_entries(entries)),
    }
}

pub fn policy_name(p: PolicySpec) -> &'static str {
    match p {
        PolicySpec::Compact => "compact",
        PolicySpec::Tight => "tight",
        PolicySpec::Scatter => "scatter",
        PolicySpec::ForceCompact => "compact!",
        PolicySpec::ForceTight => "tight!",
        PolicySpec::All => "all",
    }
}

/* ---------------------------------------------------------------------------------------- */
/* Generator                                                                                */
/* ---------------------------------------------------------------------------------------- */

fn gen_groups(rng: &mut Rng, wide: bool) -> Kind {
    let n = match rng.below(20) {
        0 => 1,
        1..=7 => 2,
        8..=13 => 3,
        _ => 4,
    };
    let max = if wide { 8 } else { 4 };
    let uniform = rng.chance(1, 4);
    let first = rng.range(1, max) as u32;
    let sizes = (0..n)
        .map(|_| if uniform { first } else { rng.range(1, max) as u32 })
        .collect();
    Kind::Groups { sizes }
}

fn gen_kind(rng: &mut Rng, cpus: bool, wide: bool) -> Kind {
    let roll = rng.below(100);
    let (g, r, l) = if cpus { (70, 85, 100) } else { (50, 62, 72) };
    if roll < g {
        gen_groups(rng, wide)
    } else if roll < r {
        let start = rng.below(4) as u32;
        let len = rng.range(1, 6) as u32;
        Kind::Range { start, end: start + len - 1 }
    } else if roll < l {
        Kind::List { n: rng.range(1, 5) as u32 }
    } else {
        let sizes = [5_000u64, 10_000, 15_000, 20_000, 22_500, 25_000, 30_000, 40_000, 60_000, 80_000, 100_000];
        Kind::Sum { size: *rng.pick(&sizes) }
    }
}

fn gen_coupling(rng: &mut Rng, resources: &[(String, Kind)]) -> Vec<(u8, u8, u8, u8, u16)> {
    let grouped: Vec<usize> = resources
        .iter()
        .enumerate()
        .filter(|(_, (_, k))| k.is_grouped())
        .map(|(i, _)| i)
        .collect();
    let mut out: Vec<(u8, u8, u8, u8, u16)> = Vec::new();
    if grouped.is_empty() {
        return out;
    }
    let heavy = rng.chance(1, 8);
    let light = [32u16, 64, 128, 256];
    let heavy_w = [1200u16, 2048, 5000];
    let weight = |rng: &mut Rng| -> u16 {
        if heavy && rng.chance(1, 2) {
            *rng.pick(&heavy_w)
        } else {
            *rng.pick(&light)
        }
    };
    let push = |out: &mut Vec<(u8, u8, u8, u8, u16)>, item: (u8, u8, u8, u8, u16)| {
        if (item.0, item.1) == (item.2, item.3) {
            return;
        }
        if !out
            .iter()
            .any(|o| (o.0, o.1, o.2, o.3) == (item.0, item.1, item.2, item.3))
        {
            out.push(item);
        }
    };
    if grouped.len() >= 2 && rng.chance(3, 5) {
        for a in 0..grouped.len() {
            for b in a + 1..grouped.len() {
                if !rng.chance(3, 4) {
                    continue;
                }
                let (ra, rb) = (grouped[a], grouped[b]);
                let (na, nb) = (resources[ra].1.n_groups(), resources[rb].1.n_groups());
                for i in 0..na {
                    if rng.chance(4, 5) {
                        let w = weight(rng);
                        push(&mut out, (ra as u8, i as u8, rb as u8, (i % nb) as u8, w));
                    }
                    if rng.chance(1, 6) {
                        let j = rng.usize_below(nb);
                        let w = weight(rng);
                        push(&mut out, (ra as u8, i as u8, rb as u8, j as u8, w));
                    }
                }
            }
        }
    }
    // coupling inside one resource ("cpus[0]:cpus[1]")
    if rng.chance(1, 8) {
        let r = *rng.pick(&grouped);
        let n = resources[r].1.n_groups();
        let mut g = 0;
        while g + 1 < n {
            let w = weight(rng);
            push(&mut out, (r as u8, g as u8, r as u8, (g + 1) as u8, w));
            g += 2;
        }
    }
    out.sort();
    out
}

pub fn gen_desc(rng: &mut Rng) -> Desc {
    let n_res = match rng.below(10) {
        0..=3 => 1,
        4..=7 => 2,
        _ => 3,
    };
    let wide = rng.chance(1, 8);
    let names = ["gpus", "mem", "foo"];
    let mut resources = vec![("cpus".to_string(), gen_kind(rng, true, wide))];
    let mut order = [0usize, 1, 2];
    rng.shuffle(&mut order);
    for name_idx in order.iter().take(n_res - 1) {
        resources.push((names[*name_idx].to_string(), gen_kind(rng, false, wide)));
    }
    let coupling = gen_coupling(rng, &resources);
    Desc { resources, coupling }
}

fn gen_amount(rng: &mut Rng, total: u64) -> u64 {
    let total_units = total.div_ceil(UNIT).max(1);
    let fracs = [0u64, 0, 0, 0, 2_500, 5_000, 5_000, 7_500];
    let odd = [1u64, 3_333, 9_999, 100];
    let frac = if rng.chance(1, 30) { *rng.pick(&odd) } else { *rng.pick(&fracs) };
    let units = match rng.below(100) {
        0..=39 => rng.below(2),
        40..=74 => rng.range(0, (total_units / 2).max(1)),
        75..=94 => rng.range(0, total_units),
        _ => rng.range(total_units, total_units + 1),
    };
    let a = units * UNIT + frac;
    if a == 0 { *rng.pick(&[2_500u64, 5_000, 10_000]) } else { a }
}

pub fn gen_request(rng: &mut Rng, desc: &Desc) -> Vec<EntrySpec> {
    let n_res = desc.resources.len();
    let n = match rng.below(20) {
        0..=10 => 1,
        11..=16 => 2,
        _ => 3,
    }
    .min(n_res);
    let mut order: Vec<usize> = (0..n_res).collect();
    rng.shuffle(&mut order);
    // grouped resources are the interesting ones: prefer them for the first entry
    if rng.chance(1, 2)
        && let Some(p) = order.iter().position(|r| desc.resources[*r].1.is_grouped())
    {
        order.swap(0, p);
    }
    let mut chosen: Vec<usize> = order.into_iter().take(n).collect();
    chosen.sort();
    chosen
        .into_iter()
        .map(|r| {
            let (name, kind) = &desc.resources[r];
            let policy = if kind.is_grouped() {
                match rng.below(100) {
                    0..=24 => PolicySpec::Compact,
                    25..=41 => PolicySpec::Tight,
                    42..=61 => PolicySpec::Scatter,
                    62..=79 => PolicySpec::ForceCompact,
                    80..=95 => PolicySpec::ForceTight,
                    _ => PolicySpec::All,
                }
            } else {
                match rng.below(100) {
                    0..=54 => PolicySpec::Compact,
                    55..=62 => PolicySpec::Tight,
                    63..=70 => PolicySpec::Scatter,
                    71..=78 => PolicySpec::ForceCompact,
                    79..=92 => PolicySpec::ForceTight,
                    _ => PolicySpec::All,
                }
            };
            let amount = if policy == PolicySpec::All { 0 } else { gen_amount(rng, kind.total()) };
            EntrySpec { resource: name.clone(), policy, amount }
        })
        .collect()
}

/// Planned length and style of a history; the operations themselves are drawn while the run
/// executes because `release` picks one of the allocations that are live at that moment.
#[derive(Debug, Clone)]
pub struct HistoryPlan {
    pub n_ops: usize,
    pub drain: bool,
    /// per mille of grant / release / probe
    pub mix: [u64; 3],
}

pub fn gen_history_plan(rng: &mut Rng) -> HistoryPlan {
    let n_ops = rng.range(5, 40) as usize;
    let drain = rng.chance(1, 2);
    let mix = match rng.below(3) {
        0 => [550, 300, 150],
        1 => [650, 250, 100],
        _ => [450, 400, 150],
    };
    HistoryPlan { n_ops, drain, mix }
}
