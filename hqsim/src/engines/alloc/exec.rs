//! Executes operations on the real allocator (`tako::verif::SimAllocator`) and evaluates the
//! oracles of C04 (exclusive, conserved) and C16 (policies, no spurious refusals) at every step.

use std::collections::{BTreeMap, BTreeSet};
use std::rc::Rc;

use tako::resources::Allocation;
use tako::verif::{AllocatorSnapshot, PoolKind, SimAllocator};

use super::reference::{
    GroupFree, RequestRef, ResFree, best_weight_at_minimum, empty_free, request_reference,
    weight_of,
};
use super::spec::*;
use crate::sim::panic::{PanicInfo, catch};
use crate::sim::rng::mix;

/// Above this sum of coupling weights touching an entry an extra group can pay off in the
/// optimisation (a group costs 1024, see groups.rs), so "fewest groups" is no longer what the
/// documentation's "preference" wording lets us demand.
pub const LIGHT_WEIGHTS_MAX: u64 = 1000;

#[derive(Debug, Clone)]
pub struct Finding {
    /// "C04", "C16", "PANIC" (panic in repository code) or "HARNESS"
    pub property: &'static str,
    pub oracle: &'static str,
    pub key: String,
    pub message: String,
    pub op: usize,
}

impl Finding {
    pub fn signature(&self) -> String {
        format!("{}@{}", self.oracle, self.key)
    }
}

/// What one live allocation holds of one resource
#[derive(Debug, Clone, PartialEq, Eq)]
pub struct HeldRes {
    pub pos: usize,
    pub amount: u64,
    /// (index, group, fractions; 0 = the whole index)
    pub indices: Vec<(u32, u32, u32)>,
}

struct Live {
    entries: Vec<EntrySpec>,
    allocation: Rc<Allocation>,
    held: Vec<HeldRes>,
}

/// Snapshot with everything order-dependent sorted and zero fractions dropped
#[derive(Debug, Clone, PartialEq, Eq)]
struct NormSnapshot {
    pools: Vec<(Vec<(Vec<u32>, Vec<(u32, u32)>)>, Option<u64>)>,
    concise: Vec<Vec<(u32, Vec<(u32, u32)>)>>,
}

fn normalise(s: &AllocatorSnapshot) -> NormSnapshot {
    NormSnapshot {
        pools: s
            .pools
            .iter()
            .map(|p| {
                (
                    p.groups
                        .iter()
                        .map(|g| {
                            let mut free = g.free_indices.clone();
                            free.sort();
                            let mut fr: Vec<(u32, u32)> =
                                g.fractions.iter().copied().filter(|x| x.1 > 0).collect();
                            fr.sort();
                            (free, fr)
                        })
                        .collect(),
                    p.sum_free,
                )
            })
            .collect(),
        concise: s
            .concise
            .iter()
            .map(|c| {
                c.groups
                    .iter()
                    .map(|(u, f)| {
                        let mut fr: Vec<(u32, u32)> = f.iter().copied().filter(|x| x.1 > 0).collect();
                        fr.sort();
                        (*u, fr)
                    })
                    .collect()
            })
            .collect(),
    }
}

/// What a run has done so far, shared with the thread that waits for it: if the allocator
/// never returns (endless loop) the waiting side still knows the operations and findings.
#[derive(Default)]
pub struct Progress {
    pub desc: Option<Desc>,
    pub ops: Vec<Op>,
    pub findings: Vec<Finding>,
    /// the call into repository code that is being executed
    pub phase: &'static str,
}

pub type ProgressRef = std::sync::Arc<std::sync::Mutex<Progress>>;

pub struct Runner<'a> {
    pub progress: Option<ProgressRef>,
    pub desc: &'a Desc,
    alloc: SimAllocator,
    live: BTreeMap<u32, Live>,
    pub findings: Vec<Finding>,
    pub counters: BTreeMap<String, u64>,
    /// hashes of the free-state shapes seen before a decision
    pub state_shapes: BTreeSet<u64>,
    /// hashes of (descriptor, free-state shape, request) of decisions taken on a worker that had
    /// at least one live allocation
    pub decisions_nontrivial: BTreeSet<u64>,
    pub history_hash: u64,
    pub op_index: usize,
    pub aborted: bool,
    pub verbose: bool,
    /// human-readable log of the run (kept when `keep_trace` is set)
    pub keep_trace: bool,
    pub trace: Vec<String>,
    desc_hash: u64,
    initial: NormSnapshot,
    universes: Vec<BTreeMap<u32, u32>>,
}

fn hash_str(s: &str) -> u64 {
    s.bytes().fold(0xcbf29ce484222325u64, |a, b| (a ^ b as u64).wrapping_mul(0x100000001b3))
}

pub fn hash_desc(desc: &Desc) -> u64 {
    hash_str(&serde_json::to_string(desc).unwrap())
}

pub fn hash_entries(entries: &[EntrySpec]) -> u64 {
    hash_str(&describe_entries(entries))
}

impl<'a> Runner<'a> {
    /// Err: the descriptor is not acceptable (harness error) or the allocator cannot be built
    pub fn new(desc: &'a Desc, verbose: bool) -> Result<Runner<'a>, Finding> {
        let harness = |m: String| Finding {
            property: "HARNESS",
            oracle: "bad-descriptor",
            key: String::new(),
            message: m,
            op: 0,
        };
        if !desc.well_formed() {
            return Err(harness(format!("descriptor is not well formed: {}", desc.describe())));
        }
        let d = desc.descriptor();
        match catch(|| d.validate(true)) {
            Ok(Ok(())) => {}
            Ok(Err(e)) => {
                return Err(harness(format!(
                    "ResourceDescriptor::validate rejects {}: {e:?}",
                    desc.describe()
                )));
            }
            Err(p) => return Err(panic_finding(&p, 0, "ResourceDescriptor::validate")),
        }
        let alloc = match catch(|| SimAllocator::new(&d)) {
            Ok(a) => a,
            Err(p) => return Err(panic_finding(&p, 0, "ResourceAllocator::new")),
        };
        for (pos, (name, _)) in desc.resources.iter().enumerate() {
            if alloc.resource_id(name) != Some(pos as u32) {
                return Err(harness(format!("resource {name} did not get id {pos}")));
            }
        }
        let snap = match catch(|| alloc.snapshot()) {
            Ok(s) => s,
            Err(p) => return Err(panic_finding(&p, 0, "snapshot")),
        };
        let universes = desc
            .resources
            .iter()
            .map(|(_, k)| k.universe().into_iter().collect())
            .collect();
        let mut r = Runner {
            progress: None,
            desc,
            alloc,
            live: BTreeMap::new(),
            findings: Vec::new(),
            counters: BTreeMap::new(),
            state_shapes: BTreeSet::new(),
            decisions_nontrivial: BTreeSet::new(),
            history_hash: hash_desc(desc),
            op_index: 0,
            aborted: false,
            verbose,
            keep_trace: false,
            trace: Vec::new(),
            desc_hash: hash_desc(desc),
            initial: normalise(&snap),
            universes,
        };
        r.check_state(&snap, "initially");
        Ok(r)
    }

    pub fn live_ids(&self) -> Vec<u32> {
        self.live.keys().copied().collect()
    }

    fn phase(&self, phase: &'static str) {
        if let Some(p) = &self.progress {
            p.lock().unwrap().phase = phase;
        }
    }

    fn talking(&self) -> bool {
        self.verbose || self.keep_trace
    }

    fn say(&mut self, line: String) {
        if self.verbose {
            println!("{line}");
        }
        if self.keep_trace {
            self.trace.push(line);
        }
    }

    fn count(&mut self, name: &str) {
        *self.counters.entry(name.to_string()).or_default() += 1;
    }

    fn find(&mut self, property: &'static str, oracle: &'static str, key: &str, message: String) {
        if self.talking() {
            self.say(format!("    !! {property} {oracle}@{key}: {message}"));
        }
        self.findings.push(Finding {
            property,
            oracle,
            key: key.to_string(),
            message,
            op: self.op_index,
        });
    }

    fn panicked(&mut self, p: PanicInfo, during: &str) {
        let f = panic_finding(&p, self.op_index, during);
        if self.talking() {
            self.say(format!("    !! {} {}: {}", f.property, f.signature(), f.message));
        }
        self.findings.push(f);
        self.aborted = true;
    }

    /* ------------------------------------------------------------------------------------ */
    /* free state                                                                           */
    /* ------------------------------------------------------------------------------------ */

    fn free_view(&mut self, snap: &AllocatorSnapshot) -> Option<Vec<ResFree>> {
        let mut out = Vec::new();
        for (pos, (name, kind)) in self.desc.resources.iter().enumerate() {
            let Some(pool) = snap.pools.get(pos) else {
                self.find("C04", "pool-missing", "", format!("no pool for resource {name}"));
                return None;
            };
            match (pool.kind, kind.is_sum()) {
                (PoolKind::Sum, true) => out.push(ResFree::Sum(pool.sum_free.unwrap_or(0))),
                (PoolKind::Indices, false) | (PoolKind::Groups, false) => {
                    if pool.groups.len() != kind.n_groups() {
                        self.find(
                            "C04",
                            "pool-shape-differs-from-descriptor",
                            "",
                            format!(
                                "resource {name}: descriptor {} but the pool has {} groups",
                                kind.describe(),
                                pool.groups.len()
                            ),
                        );
                        return None;
                    }
                    out.push(ResFree::Indexed(
                        pool.groups
                            .iter()
                            .map(|g| GroupFree {
                                whole: g.free_indices.len() as u64,
                                partial_max: g.fractions.iter().map(|f| f.1 as u64).max().unwrap_or(0),
                            })
                            .collect(),
                    ));
                }
                _ => {
                    self.find(
                        "C04",
                        "pool-shape-differs-from-descriptor",
                        "",
                        format!("resource {name}: descriptor {} but pool kind {:?}", kind.describe(), pool.kind),
                    );
                    return None;
                }
            }
        }
        Some(out)
    }

    fn shape_hash(snap: &AllocatorSnapshot) -> u64 {
        let mut parts: Vec<u64> = Vec::new();
        for p in &snap.pools {
            parts.push(0xAAAA_0000 + p.groups.len() as u64);
            parts.push(p.sum_free.unwrap_or(u64::MAX));
            for g in &p.groups {
                parts.push(g.free_indices.len() as u64);
                let mut f: Vec<u64> = g.fractions.iter().map(|x| x.1 as u64).filter(|x| *x > 0).collect();
                f.sort();
                parts.push(0xBBBB_0000 + f.len() as u64);
                parts.extend(f);
            }
        }
        mix(&parts)
    }

    /* ------------------------------------------------------------------------------------ */
    /* C04: state against the live allocations                                              */
    /* ------------------------------------------------------------------------------------ */

    fn check_state(&mut self, snap: &AllocatorSnapshot, when: &str) {
        self.count("state_checks");
        let n = self.desc.resources.len();
        // what the live allocations hold, per resource and per index
        let mut held_index: Vec<BTreeMap<u32, u64>> = vec![BTreeMap::new(); n];
        let mut held_amount: Vec<u64> = vec![0; n];
        for live in self.live.values() {
            for h in &live.held {
                if h.pos >= n {
                    continue;
                }
                held_amount[h.pos] += h.amount;
                for (index, _g, fr) in &h.indices {
                    *held_index[h.pos].entry(*index).or_default() +=
                        if *fr == 0 { UNIT } else { *fr as u64 };
                }
            }
        }
        let live_desc = || -> String {
            self.live
                .iter()
                .map(|(id, l)| format!("#{id}:{}", describe_held(self.desc, &l.held)))
                .collect::<Vec<_>>()
                .join(" ")
        };
        let mut out: Vec<(&'static str, String, String)> = Vec::new();
        for (pos, (name, kind)) in self.desc.resources.iter().enumerate() {
            let Some(pool) = snap.pools.get(pos) else {
                continue;
            };
            let total = kind.total();
            if pool.full_size != total {
                out.push((
                    "pool-size-differs-from-descriptor",
                    String::new(),
                    format!("{when}: resource {name} has size {} in the descriptor, the pool says {}", total, pool.full_size),
                ));
            }
            if kind.is_sum() {
                let free = pool.sum_free.unwrap_or(0);
                if held_amount[pos] > total {
                    out.push((
                        "sum-resource-overcommitted",
                        String::new(),
                        format!("{when}: live allocations hold {} of sum resource {name} of size {} [{}]",
                            fmt_amount(held_amount[pos]), fmt_amount(total), live_desc()),
                    ));
                }
                if free + held_amount[pos] != total {
                    out.push((
                        "not-conserved",
                        "sum".into(),
                        format!("{when}: sum resource {name}: free {} + held {} != size {} [{}]",
                            fmt_amount(free), fmt_amount(held_amount[pos]), fmt_amount(total), live_desc()),
                    ));
                }
            } else {
                // exclusivity
                for (index, f) in &held_index[pos] {
                    if *f > UNIT {
                        out.push((
                            "index-held-beyond-100-percent",
                            String::new(),
                            format!("{when}: index {index} of {name} is held to {f}/10000 [{}]", live_desc()),
                        ));
                    }
                }
                // where every index of the descriptor is in the pools
                let universe = &self.universes[pos];
                let mut free_part: BTreeMap<u32, u64> = BTreeMap::new();
                let mut free_total = 0u64;
                for (g, group) in pool.groups.iter().enumerate() {
                    let entries = group
                        .free_indices
                        .iter()
                        .map(|i| (*i, UNIT))
                        .chain(group.fractions.iter().map(|(i, f)| (*i, *f as u64)));
                    for (index, f) in entries {
                        match universe.get(&index) {
                            None => out.push((
                                "pool-index-outside-descriptor",
                                String::new(),
                                format!("{when}: the pool of {name} contains index {index} which the descriptor does not define"),
                            )),
                            Some(gg) if *gg as usize != g => out.push((
                                "pool-index-in-wrong-group",
                                String::new(),
                                format!("{when}: index {index} of {name} is in group {g} of the pool, the descriptor says group {gg}"),
                            )),
                            _ => {}
                        }
                        if f > UNIT {
                            out.push((
                                "free-fraction-beyond-one-unit",
                                String::new(),
                                format!("{when}: index {index} of {name} has free fraction {f}"),
                            ));
                        }
                        if free_part.insert(index, f).is_some() {
                            out.push((
                                "pool-index-duplicated",
                                String::new(),
                                format!("{when}: index {index} of {name} appears more than once in the pool: {:?}", pool.groups),
                            ));
                        }
                        free_total += f;
                    }
                }
                for index in universe.keys() {
                    let f = free_part.get(index).copied().unwrap_or(0);
                    let h = held_index[pos].get(index).copied().unwrap_or(0);
                    if f + h != UNIT {
                        out.push((
                            "not-conserved",
                            "index".into(),
                            format!("{when}: index {index} of {name}: free {f} + held {h} != 10000 (pool {:?}) [{}]", pool.groups, live_desc()),
                        ));
                    }
                }
                if free_total + held_amount[pos] != total {
                    out.push((
                        "not-conserved",
                        "pool".into(),
                        format!("{when}: resource {name}: free {} + held {} != size {} [{}]",
                            fmt_amount(free_total), fmt_amount(held_amount[pos]), fmt_amount(total), live_desc()),
                    ));
                }
            }
            // the concise mirror (what the admission test looks at) equals the pools
            let from_pool: Vec<(u32, Vec<(u32, u32)>)> = if kind.is_sum() {
                let free = pool.sum_free.unwrap_or(0);
                let frac = (free % UNIT) as u32;
                vec![((free / UNIT) as u32, if frac > 0 { vec![(0, frac)] } else { vec![] })]
            } else {
                pool.groups
                    .iter()
                    .map(|g| {
                        let mut f: Vec<(u32, u32)> = g.fractions.iter().copied().filter(|x| x.1 > 0).collect();
                        f.sort();
                        (g.free_indices.len() as u32, f)
                    })
                    .collect()
            };
            let mirror: Option<Vec<(u32, Vec<(u32, u32)>)>> = snap.concise.get(pos).map(|c| {
                c.groups
                    .iter()
                    .map(|(u, f)| {
                        let mut f: Vec<(u32, u32)> = f.iter().copied().filter(|x| x.1 > 0).collect();
                        f.sort();
                        (*u, f)
                    })
                    .collect()
            });
            if mirror.as_ref() != Some(&from_pool) {
                out.push((
                    "admission-view-differs-from-pools",
                    String::new(),
                    format!("{when}: resource {name}: pools say {from_pool:?}, the admission test sees {mirror:?}"),
                ));
            }
        }
        for (oracle, key, msg) in out {
            self.find("C04", oracle, &key, msg);
        }
    }

    /* ------------------------------------------------------------------------------------ */
    /* C04: one allocation against its request                                              */
    /* ------------------------------------------------------------------------------------ */

    fn extract(allocation: &Allocation) -> Vec<HeldRes> {
        allocation
            .resources
            .iter()
            .map(|ra| HeldRes {
                pos: ra.resource_id.as_num() as usize,
                amount: ra.amount.total_fractions(),
                indices: ra
                    .indices
                    .iter()
                    .map(|i| (i.index.as_num(), i.group_idx, i.fractions))
                    .collect(),
            })
            .collect()
    }

    fn check_allocation(&mut self, id: u32, entries: &[EntrySpec], allocation: &Allocation, held: &[HeldRes]) {
        let what = format!("grant #{id} ({}) -> {}", describe_entries(entries), describe_held(self.desc, held));
        if !allocation.nodes.is_empty() {
            self.find("C04", "allocation-shape", "nodes", format!("{what}: node list {:?}", allocation.nodes));
        }
        for h in held {
            let requested = entries
                .iter()
                .filter(|e| self.desc.position(&e.resource) == Some(h.pos))
                .count();
            if requested != 1 {
                self.find("C04", "holds-unrequested-resource", "", format!("{what}: resource {} was requested {requested} times", h.pos));
            }
        }
        for e in entries {
            let pos = self.desc.position(&e.resource).unwrap();
            let kind = &self.desc.resources[pos].1;
            let hs: Vec<&HeldRes> = held.iter().filter(|h| h.pos == pos).collect();
            if hs.len() != 1 {
                self.find("C04", "held-amount-differs-from-request", "missing", format!("{what}: {} parts for resource {}", hs.len(), e.resource));
                continue;
            }
            let h = hs[0];
            let want = if e.policy == PolicySpec::All { kind.total() } else { e.amount };
            if h.amount != want {
                self.find(
                    "C04",
                    "held-amount-differs-from-request",
                    if e.policy == PolicySpec::All { "all" } else { "amount" },
                    format!("{what}: requested {} of {}, holds {}", fmt_amount(want), e.resource, fmt_amount(h.amount)),
                );
            }
            if kind.is_sum() {
                if !h.indices.is_empty() {
                    self.find("C04", "allocation-shape", "sum-with-indices", format!("{what}: indices for sum resource {}", e.resource));
                }
                continue;
            }
            let whole = h.indices.iter().filter(|i| i.2 == 0).count() as u64;
            let fractional: Vec<&(u32, u32, u32)> = h.indices.iter().filter(|i| i.2 != 0).collect();
            let frac_sum: u64 = fractional.iter().map(|i| i.2 as u64).sum();
            if fractional.len() > 1 {
                self.find("C04", "allocation-shape", "fraction-from-several-indices", format!("{what}: {} fractional indices of {}", fractional.len(), e.resource));
                self.find("C16", "fraction-from-several-indices", "", format!("{what}: {} fractional indices of {}", fractional.len(), e.resource));
            }
            if whole * UNIT + frac_sum != h.amount {
                self.find("C04", "allocation-shape", "indices-do-not-add-up", format!("{what}: the indices of {} add up to {} but the amount is {}", e.resource, fmt_amount(whole * UNIT + frac_sum), fmt_amount(h.amount)));
            }
            if fractional.len() == 1 && fractional[0].2 as u64 != want % UNIT {
                self.find("C04", "allocation-shape", "fraction-differs-from-fractional-part", format!("{what}: fractional index holds {} but the fractional part of the request is {}", fractional[0].2, want % UNIT));
            }
            if fractional.iter().any(|i| i.2 as u64 >= UNIT) {
                self.find("C04", "allocation-shape", "fraction-of-a-whole-unit", format!("{what}"));
            }
            // documented: "the partially allocated index is always the last index"
            if let Some(p) = h.indices.iter().position(|i| i.2 != 0)
                && p + 1 != h.indices.len()
                && fractional.len() == 1
            {
                self.find("C04", "allocation-shape", "fractional-index-not-last", format!("{what}"));
            }
            let mut seen = BTreeSet::new();
            for (index, group, _f) in &h.indices {
                if !seen.insert(*index) {
                    self.find("C04", "allocation-shape", "index-twice-in-one-allocation", format!("{what}: index {index} of {}", e.resource));
                }
                match self.universes[pos].get(index) {
                    None => self.find("C04", "index-outside-descriptor", "", format!("{what}: index {index} of {} is not defined by the descriptor", e.resource)),
                    Some(g) if g != group => self.find("C04", "index-in-wrong-group", "", format!("{what}: index {index} of {} is labelled group {group}, the descriptor says {g}", e.resource)),
                    _ => {}
                }
            }
        }
    }

    /* ------------------------------------------------------------------------------------ */
    /* C16: decision against the reference                                                  */
    /* ------------------------------------------------------------------------------------ */

    /// `granted`: the answer of the code (admission test for a probe, grant otherwise)
    fn judge(&mut self, entries: &[EntrySpec], free: &[ResFree], rr: &RequestRef, granted: bool, what: &str, state: &str) {
        let rq = describe_entries(entries);
        let key = if entries.len() == 1 { policy_name(entries[0].policy) } else { "multi-entry" };
        if granted && !rr.feasible {
            self.count("ref_disagree");
            self.find("C16", "impossible-grant", key, format!("{what} of ({rq}) succeeded but the free state {state} cannot hold it"));
            return;
        }
        if !granted && !rr.feasible {
            self.count("ref_agree_refuse");
            if entries.iter().any(|e| e.policy == PolicySpec::All) {
                self.count("probe_all_policy_refusal");
            }
            return;
        }
        if rr.has_strict_grouped && rr.all_weights_sum > LIGHT_WEIGHTS_MAX {
            // heavy coupling weights between the entries of a strict request: an extra group
            // can pay off in the optimisation even on the idle worker, so the yardstick
            // "smallest number of groups that could ever hold the amount" is not what the
            // code (nor the documentation's coupling section) uses. Only feasibility and the
            // admission/grant agreement are checked here.
            self.count("ref_narrowed_strict_heavy_weights");
            return;
        }
        if granted {
            if rr.has_strict_grouped && !rr.strict_ok {
                // light or no weights: a group costs more than all weights together
                self.count("ref_disagree");
                self.find(
                    "C16",
                    "strict-granted-although-minimum-unreachable",
                    key,
                    format!("{what} of ({rq}) succeeded in free state {state}, but a strict entry cannot get the number of groups it would get on the idle worker ({})", describe_refs(entries, rr)),
                );
            } else {
                self.count("ref_agree_grant");
            }
            return;
        }
        // refused although every entry fits
        if !rr.has_strict_grouped {
            self.count("ref_disagree");
            self.find("C16", "spurious-refusal", key, format!("{what} of ({rq}) refused although the free state {state} can hold it and no policy is strict"));
            return;
        }
        if !rr.strict_ok {
            self.count("ref_agree_refuse");
            self.count("probe_strict_refusal");
            return;
        }
        if !rr.nonstrict_at_optimum && !rr.active_weights.is_empty() {
            self.count("ref_narrowed_strict_coupled");
            return;
        }
        if !rr.nonstrict_at_optimum {
            self.count("ref_disagree");
            self.find(
                "C16",
                "strict-refusal-caused-by-nonstrict-entry",
                "",
                format!("{what} of ({rq}) refused in free state {state}: every strict entry can get its idle-worker minimum of groups now, only a non-strict compact/tight entry cannot ({})", describe_refs(entries, rr)),
            );
            return;
        }
        if rr.active_weights.is_empty() {
            self.count("ref_disagree");
            self.find(
                "C16",
                "spurious-strict-refusal",
                "uncoupled",
                format!("{what} of ({rq}) refused in free state {state} although every entry can be granted within its idle-worker minimum of groups now ({}) and no coupling applies", describe_refs(entries, rr)),
            );
            return;
        }
        // coupling applies: the documentation adds "the optimal configuration wrt. coupling
        // weights has to be achieved". Decidable for integer amounts and light weights only.
        let integer = entries.iter().all(|e| e.policy == PolicySpec::All || e.amount % UNIT == 0);
        if !integer {
            self.count("ref_narrowed_strict_coupled");
            return;
        }
        let empty: Vec<ResFree> = self.desc.resources.iter().map(|(_, k)| empty_free(k)).collect();
        let w_empty = best_weight_at_minimum(self.desc, &empty, entries, rr);
        let w_now = best_weight_at_minimum(self.desc, free, entries, rr);
        match (w_empty, w_now) {
            (Some(we), Some(wn)) if wn >= we => {
                self.count("ref_disagree");
                self.find(
                    "C16",
                    "spurious-strict-refusal",
                    "coupled",
                    format!("{what} of ({rq}) refused in free state {state} although the minimum of groups ({}) and the best coupling weight of the idle worker ({we}) are reachable now ({wn})", describe_refs(entries, rr)),
                );
            }
            _ => {
                self.count("ref_agree_refuse");
                self.count("probe_strict_refusal_by_coupling");
            }
        }
    }

    /// Policy clauses on the groups the grant actually touches
    fn check_grant_policy(&mut self, id: u32, entries: &[EntrySpec], rr: &RequestRef, held: &[HeldRes], pre: &AllocatorSnapshot, state: &str) {
        let what = format!("grant #{id} ({}) -> {} in free state {state}", describe_entries(entries), describe_held(self.desc, held));
        let mut used_sets: Vec<u32> = vec![0; entries.len()];
        for (i, (e, r)) in entries.iter().zip(rr.entries.iter()).enumerate() {
            let pos = self.desc.position(&e.resource).unwrap();
            let kind = &self.desc.resources[pos].1;
            let Some(h) = held.iter().find(|h| h.pos == pos) else {
                continue;
            };
            self.count(&format!("granted_entries_{}", policy_name(e.policy)));
            // the fractional index was a partially used index before the grant
            if let Some((index, _, _)) = h.indices.iter().find(|x| x.2 != 0)
                && let Some(pool) = pre.pools.get(pos)
                && pool.groups.iter().any(|g| g.fractions.iter().any(|(i, f)| i == index && *f > 0))
            {
                self.count("probe_fraction_from_partially_used_index");
            }
            if e.policy == PolicySpec::All {
                // `all` grants the entire resource
                let complete = if kind.is_sum() {
                    h.amount == kind.total()
                } else {
                    let got: BTreeSet<u32> = h.indices.iter().filter(|x| x.2 == 0).map(|x| x.0).collect();
                    got.len() == self.universes[pos].len() && self.universes[pos].keys().all(|i| got.contains(i))
                };
                self.count("all_clause_checked");
                if !complete {
                    self.find("C16", "all-grants-less-than-everything", "", format!("{what}: {} is not held completely", e.resource));
                }
            }
            if !kind.is_grouped() {
                continue;
            }
            let mut mask = 0u32;
            for (_, g, _) in &h.indices {
                mask |= 1 << g;
            }
            let used = mask.count_ones() as usize;
            let pname = policy_name(e.policy);
            match e.policy {
                PolicySpec::Compact | PolicySpec::Tight | PolicySpec::ForceCompact | PolicySpec::ForceTight => {
                    used_sets[i] = mask;
                    let involved: u64 = rr
                        .active_weights
                        .iter()
                        .filter(|w| w.0 == i || w.2 == i)
                        .map(|w| w.4 as u64)
                        .sum();
                    if involved > LIGHT_WEIGHTS_MAX {
                        self.count("narrowed_min_groups_heavy_weights");
                    } else {
                        self.count("min_group_clause_checked");
                        if involved > 0 {
                            self.count("min_group_clause_checked_with_coupling");
                        }
                        if let Some(min_now) = r.min_now {
                            if used > min_now {
                                self.find("C16", "compact-not-minimal", pname, format!("{what}: {} touches {used} groups, {min_now} suffice now", e.resource));
                            } else if used < min_now {
                                self.find("C16", "grant-below-reference-minimum", pname, format!("{what}: {} touches {used} groups, the reference needs {min_now}", e.resource));
                            }
                        }
                        if r.strict
                            && let Some(min_empty) = r.min_empty
                            && used > min_empty
                        {
                            self.find("C16", "strict-grant-exceeds-idle-worker-minimum", pname, format!("{what}: {} touches {used} groups, the idle worker needs {min_empty}", e.resource));
                        }
                    }
                    if used >= 2 {
                        self.count("probe_compact_over_several_groups");
                        // how the indices are spread inside the chosen groups (documentation:
                        // compact "taken evenly from the selected groups", tight "packs as much
                        // as possible to the first group, then to the second, etc.")
                        let whole_left = |g: u32| -> u64 {
                            let before = pre.pools[pos].groups[g as usize].free_indices.len() as u64;
                            let taken = h.indices.iter().filter(|x| x.1 == g && (x.2 == 0 || pre.pools[pos].groups[g as usize].free_indices.contains(&x.0))).count() as u64;
                            before.saturating_sub(taken)
                        };
                        let whole_taken = |g: u32| -> u64 { h.indices.iter().filter(|x| x.1 == g && x.2 == 0).count() as u64 };
                        let groups_used: Vec<u32> = (0..kind.n_groups() as u32).filter(|g| mask & (1 << g) != 0).collect();
                        if matches!(e.policy, PolicySpec::Tight | PolicySpec::ForceTight) {
                            self.count("tight_packing_clause_checked");
                            let not_exhausted = groups_used.iter().filter(|g| whole_left(**g) > 0).count();
                            if not_exhausted > 1 {
                                self.find("C16", "tight-does-not-pack", pname, format!("{what}: {not_exhausted} of the groups used for {} still have completely free indices", e.resource));
                            }
                        } else {
                            self.count("compact_evenness_clause_checked");
                            let most = groups_used.iter().map(|g| whole_taken(*g)).max().unwrap_or(0);
                            for g in &groups_used {
                                if whole_taken(*g) + 1 < most && whole_left(*g) > 0 {
                                    self.find("C16", "compact-not-even", pname, format!("{what}: group {g} of {} gives {} whole indices, another group {most}, and group {g} still has completely free indices", e.resource, whole_taken(*g)));
                                    break;
                                }
                            }
                        }
                    }
                    if r.strict && !self.live.is_empty() {
                        self.count("probe_strict_grant_on_fragmented_worker");
                    }
                }
                PolicySpec::Scatter => {
                    self.count("scatter_clause_checked");
                    if let Some(max_now) = r.max_now {
                        let key = if e.amount % UNIT == 0 { "whole-amount" } else { "fractional-amount" };
                        if used < max_now {
                            self.find("C16", "scatter-not-maximal", key, format!("{what}: {} touches {used} groups, {max_now} are possible now", e.resource));
                        } else if used > max_now {
                            self.find("C16", "grant-above-reference-maximum", key, format!("{what}: {} touches {used} groups, the reference allows {max_now}", e.resource));
                        }
                    }
                    if used == kind.n_groups() {
                        self.count("probe_scatter_over_all_groups");
                    }
                }
                PolicySpec::All => {
                    self.count("probe_all_policy_grant_on_grouped_pool");
                }
            }
        }
        // strict + coupling: the documented extra condition, decidable for integer amounts
        // and light weights
        if rr.has_strict_grouped && !rr.active_weights.is_empty() {
            self.count("probe_strict_grant_with_active_coupling");
            let integer = entries.iter().all(|e| e.policy == PolicySpec::All || e.amount % UNIT == 0);
            if integer && rr.all_weights_sum <= LIGHT_WEIGHTS_MAX && rr.nonstrict_at_optimum {
                let empty: Vec<ResFree> = self.desc.resources.iter().map(|(_, k)| empty_free(k)).collect();
                if let Some(we) = best_weight_at_minimum(self.desc, &empty, entries, rr) {
                    let got = weight_of(&used_sets, &rr.active_weights);
                    self.count("strict_coupling_clause_checked");
                    if got < we {
                        self.find("C16", "strict-grant-misses-coupling-optimum", "", format!("{what}: coupling weight {got} achieved, the idle worker reaches {we} and the policy is strict"));
                    }
                }
            }
        } else if !rr.active_weights.is_empty() {
            self.count("probe_grant_with_active_coupling");
            if weight_of(&used_sets, &rr.active_weights) > 0 {
                self.count("probe_grant_with_coupled_groups_chosen");
            }
        }
    }

    /* ------------------------------------------------------------------------------------ */
    /* operations                                                                           */
    /* ------------------------------------------------------------------------------------ */

    pub fn step(&mut self, op: &Op) {
        if self.aborted {
            return;
        }
        if let Some(p) = &self.progress {
            let mut p = p.lock().unwrap();
            p.ops.push(op.clone());
            let known = p.findings.len();
            p.findings.extend(self.findings[known..].iter().cloned());
            p.phase = "harness";
        }
        if self.talking() {
            self.say(format!("[{}] {}", self.op_index, describe_op(op)));
        }
        match op {
            Op::Grant { id, entries, bounce } => self.decide(*id, entries, true, *bounce),
            Op::Probe { entries } => self.decide(0, entries, false, false),
            Op::Release { grant } => self.release(*grant),
        }
        self.op_index += 1;
    }

    fn valid_request(&self, entries: &[EntrySpec]) -> bool {
        let mut seen = BTreeSet::new();
        !entries.is_empty()
            && entries.iter().all(|e| {
                self.desc.position(&e.resource).is_some()
                    && seen.insert(e.resource.clone())
                    && (e.policy == PolicySpec::All || e.amount > 0)
            })
    }

    fn decide(&mut self, id: u32, entries: &[EntrySpec], do_grant: bool, bounce: bool) {
        if !self.valid_request(entries) || (do_grant && self.live.contains_key(&id)) {
            // can only come from a hand-written or badly minimised replay file
            self.find("HARNESS", "bad-operation", "", format!("operation {} is not executable", self.op_index));
            self.aborted = true;
            return;
        }
        let pre = match catch(|| self.alloc.snapshot()) {
            Ok(s) => s,
            Err(p) => return self.panicked(p, "snapshot"),
        };
        let Some(free) = self.free_view(&pre) else {
            self.aborted = true;
            return;
        };
        let state = describe_free(self.desc, &free);
        let shape = Self::shape_hash(&pre);
        self.state_shapes.insert(shape);
        let fragmented = !self.live.is_empty();
        if fragmented {
            self.decisions_nontrivial
                .insert(mix(&[self.desc_hash, shape, hash_entries(entries)]));
        }
        self.count("decisions");
        if fragmented {
            self.count("decisions_on_fragmented_worker");
        }
        if entries.len() > 1 {
            self.count("decisions_multi_entry");
        }
        if !self.desc.coupling.is_empty() {
            self.count("decisions_on_coupled_descriptor");
        }
        let rr = request_reference(self.desc, &free, entries);
        if !rr.active_weights.is_empty() {
            self.count("decisions_with_active_coupling_weights");
        }
        let pairs: Vec<(String, tako::resources::AllocationRequest)> =
            entries.iter().map(|e| (e.resource.clone(), e.to_policy())).collect();
        let rq = match catch(|| self.alloc.make_request(&pairs)) {
            Ok(r) => r,
            Err(p) => return self.panicked(p, "make_request"),
        };
        self.phase("is_enabled");
        let enabled = match catch(|| self.alloc.is_enabled(&rq)) {
            Ok(e) => e,
            Err(p) => return self.panicked(p, "is_enabled"),
        };
        self.phase("harness");
        self.history_hash = mix(&[self.history_hash, hash_entries(entries), enabled as u64, do_grant as u64]);
        if !do_grant {
            self.count("probes");
            self.count(if enabled { "probes_enabled" } else { "probes_disabled" });
            if self.talking() {
                self.say(format!("    state {state}; is_enabled = {enabled}; reference: {}", describe_refs(entries, &rr)));
            }
            self.judge(entries, &free, &rr, enabled, "admission test", &state);
            return;
        }
        self.phase("try_allocate");
        let result = match catch(|| self.alloc.try_allocate(&rq)) {
            Ok(r) => r,
            Err(p) => return self.panicked(p, "try_allocate"),
        };
        self.phase("harness");
        if self.talking() {
            self.say(format!(
                "    state {state}; is_enabled = {enabled}; try_allocate = {}; reference: {}",
                result.as_ref().map(|a| describe_held(self.desc, &Self::extract(a))).unwrap_or_else(|| "None".into()),
                describe_refs(entries, &rr)
            ));
        }
        if enabled != result.is_some() {
            self.find(
                "C16",
                "admission-disagrees-with-grant",
                if enabled { "enabled-but-refused" } else { "disabled-but-granted" },
                format!("({}) in free state {state}: is_enabled = {enabled}, try_allocate granted = {}", describe_entries(entries), result.is_some()),
            );
        }
        self.judge(entries, &free, &rr, result.is_some(), "grant", &state);
        for e in entries {
            self.count(&format!(
                "{}_{}",
                if result.is_some() { "granted" } else { "refused" },
                policy_name(e.policy)
            ));
        }
        let Some(allocation) = result else {
            self.count("refusals");
            // a refusal must leave the state alone
            match catch(|| self.alloc.snapshot()) {
                Ok(s) => {
                    if normalise(&s) != normalise(&pre) {
                        self.find("C04", "refusal-changes-state", "", format!("refused ({}) changed the free state {state}", describe_entries(entries)));
                    }
                }
                Err(p) => return self.panicked(p, "snapshot"),
            }
            return;
        };
        self.count("grants");
        let held = Self::extract(&allocation);
        self.history_hash = mix(&[self.history_hash, hash_str(&format!("{held:?}"))]);
        self.check_allocation(id, entries, &allocation, &held);
        self.check_grant_policy(id, entries, &rr, &held, &pre, &state);
        self.live.insert(id, Live { entries: entries.to_vec(), allocation, held });
        let post = match catch(|| self.alloc.snapshot()) {
            Ok(s) => s,
            Err(p) => return self.panicked(p, "snapshot"),
        };
        self.check_state(&post, &format!("after grant #{id}"));
        if !bounce {
            return;
        }
        // grant-then-release restores the snapshot; the same state gives the same answer
        self.count("bounces");
        let live = self.live.remove(&id).unwrap();
        self.phase("release_allocation");
        if let Err(p) = catch(|| self.alloc.release_allocation(live.allocation)) {
            return self.panicked(p, "release_allocation");
        }
        self.phase("harness");
        let back = match catch(|| self.alloc.snapshot()) {
            Ok(s) => s,
            Err(p) => return self.panicked(p, "snapshot"),
        };
        self.check_state(&back, &format!("after releasing grant #{id} again"));
        if normalise(&back) != normalise(&pre) {
            self.find(
                "C04",
                "release-does-not-restore-state",
                "grant-then-release",
                format!("grant #{id} ({}) -> {} then release: before {:?}, after {:?}", describe_entries(entries), describe_held(self.desc, &live.held), normalise(&pre), normalise(&back)),
            );
        }
        self.phase("try_allocate");
        let again = match catch(|| self.alloc.try_allocate(&rq)) {
            Ok(r) => r,
            Err(p) => return self.panicked(p, "try_allocate"),
        };
        self.phase("harness");
        let Some(allocation) = again else {
            self.find("C16", "admission-not-a-function-of-the-free-state", "", format!("({}) was granted in free state {state}, released, and then refused in the same free state", describe_entries(entries)));
            return;
        };
        let held = Self::extract(&allocation);
        self.check_allocation(id, entries, &allocation, &held);
        self.live.insert(id, Live { entries: entries.to_vec(), allocation, held });
        let post = match catch(|| self.alloc.snapshot()) {
            Ok(s) => s,
            Err(p) => return self.panicked(p, "snapshot"),
        };
        self.check_state(&post, &format!("after granting #{id} again"));
    }

    fn release(&mut self, grant: u32) {
        let Some(live) = self.live.remove(&grant) else {
            self.count("releases_of_nothing");
            return;
        };
        self.count("releases");
        self.history_hash = mix(&[self.history_hash, 0x5E1EA5E, grant as u64]);
        let _ = &live.entries;
        self.phase("release_allocation");
        if let Err(p) = catch(|| self.alloc.release_allocation(live.allocation)) {
            return self.panicked(p, "release_allocation");
        }
        self.phase("harness");
        let post = match catch(|| self.alloc.snapshot()) {
            Ok(s) => s,
            Err(p) => return self.panicked(p, "snapshot"),
        };
        if self.talking()
            && let Some(free) = self.free_view(&post)
        {
            self.say(format!("    released {}; state {}", describe_held(self.desc, &live.held), describe_free(self.desc, &free)));
        }
        // conservation against the remaining live allocations: everything the released
        // allocation held must be free again, nothing else may have moved
        self.check_state(&post, &format!("after release of #{grant}"));
        if self.live.is_empty() {
            self.count("returns_to_idle_worker");
            if normalise(&post) != self.initial {
                self.find(
                    "C04",
                    "release-does-not-restore-state",
                    "idle-worker",
                    format!("everything is released but the state differs from the initial one: initial {:?}, now {:?}", self.initial, normalise(&post)),
                );
            }
        }
    }
}

pub fn panic_finding(p: &PanicInfo, op: usize, during: &str) -> Finding {
    if p.in_harness() {
        Finding {
            property: "HARNESS",
            oracle: "harness-panic",
            key: p.location(),
            message: format!("panic in harness code during {during}: {}", p.message),
            op,
        }
    } else {
        Finding {
            property: "PANIC",
            oracle: "panic",
            key: p.location(),
            message: format!("panic during {during} at {}: {}", p.location(), p.message),
            op,
        }
    }
}

pub fn describe_free(desc: &Desc, free: &[ResFree]) -> String {
    let parts: Vec<String> = desc
        .resources
        .iter()
        .zip(free.iter())
        .map(|((name, _), f)| match f {
            ResFree::Sum(a) => format!("{name}:{}", fmt_amount(*a)),
            ResFree::Indexed(groups) => format!(
                "{name}:[{}]",
                groups
                    .iter()
                    .map(|g| if g.partial_max > 0 {
                        format!("{}+{}", g.whole, fmt_amount(g.partial_max))
                    } else {
                        format!("{}", g.whole)
                    })
                    .collect::<Vec<_>>()
                    .join(",")
            ),
        })
        .collect();
    format!("{{{}}}", parts.join(" "))
}

pub fn describe_held(desc: &Desc, held: &[HeldRes]) -> String {
    let parts: Vec<String> = held
        .iter()
        .map(|h| {
            let name = desc.resources.get(h.pos).map(|x| x.0.as_str()).unwrap_or("?");
            if h.indices.is_empty() {
                format!("{name}:{}", fmt_amount(h.amount))
            } else {
                format!(
                    "{name}:[{}]",
                    h.indices
                        .iter()
                        .map(|(i, g, f)| if *f == 0 {
                            format!("g{g}.{i}")
                        } else {
                            format!("g{g}.{i}x{}", fmt_amount(*f as u64))
                        })
                        .collect::<Vec<_>>()
                        .join(",")
                )
            }
        })
        .collect();
    format!("{{{}}}", parts.join(" "))
}

pub fn describe_refs(entries: &[EntrySpec], rr: &RequestRef) -> String {
    entries
        .iter()
        .zip(rr.entries.iter())
        .map(|(e, r)| {
            if r.grouped && e.policy != PolicySpec::All {
                format!(
                    "{}: groups now {}..{}, idle worker min {}",
                    e.resource,
                    r.min_now.map(|x| x.to_string()).unwrap_or("-".into()),
                    r.max_now.map(|x| x.to_string()).unwrap_or("-".into()),
                    r.min_empty.map(|x| x.to_string()).unwrap_or("-".into())
                )
            } else {
                format!("{}: {}", e.resource, if r.feasible { "fits" } else { "does not fit" })
            }
        })
        .collect::<Vec<_>>()
        .join("; ")
}
