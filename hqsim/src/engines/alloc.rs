//! Engine `alloc` (see /verif/DESIGN.md section 5): seeded grant/release/probe histories on the
//! real worker resource allocator (`tako::verif::SimAllocator` = ResourceAllocator + pools +
//! concise mirror + group_solver/HiGHS), checked at every step against
//!   * C04 "worker resources are exclusive and conserved" (recomputed from the pool snapshot and
//!     the set of live allocations), and
//!   * C16 "allocation policies mean what the documentation says; no spurious refusals"
//!     (brute-force reference over group subsets on the pre-grant free state).
//! Entry points used by main.rs: `PROPERTIES`, `check`, `replay`.

mod exec;
mod reference;
mod shrink;
mod spec;

use std::collections::{BTreeMap, BTreeSet};
use std::path::{Path, PathBuf};
use std::sync::atomic::{AtomicBool, AtomicU64, Ordering};
use std::time::{Duration, Instant};

use serde::{Deserialize, Serialize};

use crate::batch::{CheckArgs, load_known_findings, write_json};
use crate::sim::rng::{Rng, mix};
use exec::{Finding, ProgressRef, Runner};
use spec::*;

/// Property ids this engine decides
pub const PROPERTIES: &[&str] = &["C16", "C04"];

const ENGINE_TAG: u64 = 4;
const QUICK_RUNS: u64 = 16_000;
const THOROUGH_FACTOR: u64 = 25;
const SHRINK_TRIES: u64 = 4_000;
/// A run needs milliseconds. A run that does not come back within this time is an endless loop
/// inside the allocator (the claimers loop `while units > 0 || fractions > 0`): finding `hang`.
const RUN_TIMEOUT: Duration = Duration::from_secs(30);
const SHRINK_TIMEOUT: Duration = Duration::from_secs(5);
/// a hung run keeps its thread spinning until the process exits: stop the batch after a few
const MAX_HANGS_IN_BATCH: u64 = 3;
const MAX_HANGS_IN_SHRINK: u64 = 8;

fn property_tag(p: &str) -> u64 {
    p.bytes().fold(0u64, |a, b| a * 131 + b as u64)
}

pub fn run_seed_for(verif_seed: u64, property: &str, index: u64) -> u64 {
    mix(&[verif_seed, ENGINE_TAG, property_tag(property), index])
}

/* ---------------------------------------------------------------------------------------- */
/* One run                                                                                  */
/* ---------------------------------------------------------------------------------------- */

pub struct RunResult {
    pub desc: Desc,
    pub ops: Vec<Op>,
    pub findings: Vec<Finding>,
    pub counters: BTreeMap<String, u64>,
    pub state_shapes: BTreeSet<u64>,
    pub decisions_nontrivial: BTreeSet<u64>,
    pub history_hash: u64,
    pub trace: Vec<String>,
    /// the allocator did not return from the last operation
    pub hung: bool,
}

fn finish(desc: Desc, ops: Vec<Op>, runner: Result<Runner<'_>, Finding>) -> RunResult {
    match runner {
        Ok(r) => RunResult {
            ops,
            findings: r.findings,
            counters: r.counters,
            state_shapes: r.state_shapes,
            decisions_nontrivial: r.decisions_nontrivial,
            history_hash: r.history_hash,
            trace: r.trace,
            desc,
            hung: false,
        },
        Err(f) => RunResult {
            desc,
            ops,
            findings: vec![f],
            counters: BTreeMap::new(),
            state_shapes: BTreeSet::new(),
            decisions_nontrivial: BTreeSet::new(),
            history_hash: 0,
            trace: Vec::new(),
            hung: false,
        },
    }
}

/// Seeded run: descriptor, history plan and every operation are drawn from one PRNG
pub fn run_seeded(seed: u64, keep_trace: bool, progress: Option<ProgressRef>) -> RunResult {
    let mut rng = Rng::new(seed);
    let desc = gen_desc(&mut rng);
    let plan = gen_history_plan(&mut rng);
    let mut ops: Vec<Op> = Vec::new();
    if let Some(p) = &progress {
        p.lock().unwrap().desc = Some(desc.clone());
    }
    let runner = match Runner::new(&desc, false) {
        Ok(mut runner) => {
            runner.keep_trace = keep_trace;
            runner.progress = progress;
            let mut next_id = 1u32;
            for _ in 0..plan.n_ops {
                let live = runner.live_ids();
                let op = match rng.pick_weighted(&plan.mix) {
                    1 if !live.is_empty() => Op::Release { grant: *rng.pick(&live) },
                    2 => Op::Probe { entries: gen_request(&mut rng, &desc) },
                    _ => {
                        next_id += 1;
                        Op::Grant {
                            id: next_id - 1,
                            entries: gen_request(&mut rng, &desc),
                            bounce: rng.chance(1, 5),
                        }
                    }
                };
                runner.step(&op);
                ops.push(op);
                if runner.aborted {
                    break;
                }
            }
            if plan.drain && !runner.aborted {
                let mut live = runner.live_ids();
                rng.shuffle(&mut live);
                for id in live {
                    let op = Op::Release { grant: id };
                    runner.step(&op);
                    ops.push(op);
                }
            }
            Ok(runner)
        }
        Err(f) => Err(f),
    };
    let d = desc.clone();
    finish(d, ops, runner)
}

/// Executes an explicit operation list (no PRNG)
pub fn run_ops(desc: &Desc, ops: &[Op], verbose: bool, keep_trace: bool, progress: Option<ProgressRef>) -> RunResult {
    if let Some(p) = &progress {
        p.lock().unwrap().desc = Some(desc.clone());
    }
    let runner = match Runner::new(desc, verbose) {
        Ok(mut runner) => {
            runner.keep_trace = keep_trace;
            runner.progress = progress;
            if verbose {
                println!("descriptor: {}", desc.describe());
            }
            for op in ops {
                runner.step(op);
                if runner.aborted {
                    break;
                }
            }
            Ok(runner)
        }
        Err(f) => Err(f),
    };
    finish(desc.clone(), ops.to_vec(), runner)
}

pub enum Job {
    Seeded { seed: u64, keep_trace: bool },
    Ops { desc: Desc, ops: Vec<Op>, verbose: bool },
}

/// Executes a run on a thread of its own and waits at most `timeout` for it. If the allocator
/// never returns, the result is what the run had done so far plus the finding `hang@<call>`;
/// the thread is abandoned (it cannot be stopped) and spins until the process exits.
pub fn run_guarded(job: Job, timeout: Duration) -> RunResult {
    let progress: ProgressRef = Default::default();
    let (tx, rx) = std::sync::mpsc::channel();
    let shared = progress.clone();
    let spawned = std::thread::Builder::new().name("alloc-run".into()).spawn(move || {
        tako::verif::set_sim_clock(true);
        let r = match job {
            Job::Seeded { seed, keep_trace } => run_seeded(seed, keep_trace, Some(shared)),
            Job::Ops { desc, ops, verbose } => run_ops(&desc, &ops, verbose, false, Some(shared)),
        };
        let _ = tx.send(r);
    });
    let harness = |message: String, p: &exec::Progress| RunResult {
        desc: p.desc.clone().unwrap_or(Desc { resources: Vec::new(), coupling: Vec::new() }),
        ops: p.ops.clone(),
        findings: vec![Finding { property: "HARNESS", oracle: "run-thread", key: String::new(), message, op: 0 }],
        counters: BTreeMap::new(),
        state_shapes: BTreeSet::new(),
        decisions_nontrivial: BTreeSet::new(),
        history_hash: 0,
        trace: Vec::new(),
        hung: false,
    };
    if let Err(e) = spawned {
        return harness(format!("cannot start a thread: {e}"), &progress.lock().unwrap());
    }
    match rx.recv_timeout(timeout) {
        Ok(r) => r,
        Err(std::sync::mpsc::RecvTimeoutError::Disconnected) => {
            harness("the run thread died (panic in harness code)".into(), &progress.lock().unwrap())
        }
        Err(std::sync::mpsc::RecvTimeoutError::Timeout) => {
            let p = progress.lock().unwrap();
            let mut findings = p.findings.clone();
            let op = p.ops.len().saturating_sub(1);
            findings.push(Finding {
                property: "PANIC",
                oracle: "hang",
                key: p.phase.to_string(),
                message: format!(
                    "{} did not return within {} s in operation {}: {}",
                    p.phase,
                    timeout.as_secs(),
                    op,
                    p.ops.last().map(describe_op).unwrap_or_default()
                ),
                op,
            });
            RunResult {
                desc: p.desc.clone().unwrap_or(Desc { resources: Vec::new(), coupling: Vec::new() }),
                ops: p.ops.clone(),
                findings,
                counters: BTreeMap::new(),
                state_shapes: BTreeSet::new(),
                decisions_nontrivial: BTreeSet::new(),
                history_hash: 0,
                trace: Vec::new(),
                hung: true,
            }
        }
    }
}

/* ---------------------------------------------------------------------------------------- */
/* Batch                                                                                    */
/* ---------------------------------------------------------------------------------------- */

struct RunSummary {
    index: u64,
    seed: u64,
    history_hash: u64,
    n_ops: usize,
    nontrivial: bool,
    /// (property, signature, message, op), first of each signature
    findings: Vec<(String, String, String, usize)>,
    /// descriptor and operations of a run that hung (it must not be re-executed from its seed)
    hung_case: Option<(Desc, Vec<Op>)>,
}

/// Order-independent totals of the runs of one thread (sums and sets), so that a thorough
/// batch does not keep per-run maps in memory
#[derive(Default)]
struct Totals {
    counters: BTreeMap<String, u64>,
    state_shapes: Vec<u64>,
    decisions_nontrivial: Vec<u64>,
}

fn compact(v: &mut Vec<u64>) {
    v.sort_unstable();
    v.dedup();
}

impl Totals {
    fn add(&mut self, r: &RunResult) {
        for (k, v) in &r.counters {
            *self.counters.entry(k.clone()).or_default() += v;
        }
        self.state_shapes.extend(r.state_shapes.iter());
        self.decisions_nontrivial.extend(r.decisions_nontrivial.iter());
        if self.state_shapes.len() > 1 << 21 {
            compact(&mut self.state_shapes);
        }
        if self.decisions_nontrivial.len() > 1 << 21 {
            compact(&mut self.decisions_nontrivial);
        }
    }

    fn merge(&mut self, other: Totals) {
        for (k, v) in other.counters {
            *self.counters.entry(k).or_default() += v;
        }
        self.state_shapes.extend(other.state_shapes);
        self.decisions_nontrivial.extend(other.decisions_nontrivial);
        compact(&mut self.state_shapes);
        compact(&mut self.decisions_nontrivial);
    }
}

fn summarize(index: u64, seed: u64, r: RunResult) -> RunSummary {
    let mut seen = BTreeSet::new();
    let mut findings = Vec::new();
    for f in &r.findings {
        if seen.insert((f.property, f.signature())) {
            findings.push((f.property.to_string(), f.signature(), f.message.clone(), f.op));
        }
    }
    // non-trivial: at least one request was decided on a worker that already had a live
    // allocation (a fragmented free state) and at least one grant happened
    let nontrivial = r.counters.get("decisions_on_fragmented_worker").copied().unwrap_or(0) > 0
        && r.counters.get("grants").copied().unwrap_or(0) > 0;
    RunSummary {
        index,
        seed,
        history_hash: r.history_hash,
        n_ops: r.ops.len(),
        nontrivial,
        findings,
        hung_case: if r.hung { Some((r.desc, r.ops)) } else { None },
    }
}

#[derive(Serialize, Deserialize)]
struct ReplayFile {
    engine: String,
    property: String,
    seed: u64,
    signature: String,
    message: String,
    descriptor: Desc,
    /// the same, human readable
    descriptor_text: String,
    ops: Vec<Op>,
    ops_text: Vec<String>,
    minimised: bool,
    original_ops: usize,
}

/// Property under which a finding counts when `property` is being checked
fn effective_property<'a>(finding_property: &'a str, checked: &'a str) -> &'a str {
    if finding_property == "PANIC" { checked } else { finding_property }
}

/// Does the signature fire for this case? (message, operation index). Counts hangs: every one
/// leaves a spinning thread behind.
fn fires(desc: &Desc, ops: &[Op], checked: &str, target_sig: &str, timeout: Duration, hangs: &mut u64) -> Option<(String, usize)> {
    let r = run_guarded(Job::Ops { desc: desc.clone(), ops: ops.to_vec(), verbose: false }, timeout);
    if r.hung {
        *hangs += 1;
    }
    r.findings
        .iter()
        .find(|f| effective_property(f.property, checked) == checked && f.signature() == target_sig)
        .map(|f| (f.message.clone(), f.op))
}

fn sig_tag(s: &str) -> String {
    let t: String = s
        .chars()
        .map(|c| if c.is_ascii_alphanumeric() || c == '-' { c } else { '_' })
        .collect();
    t[..t.len().min(70)].to_string()
}

fn report_violation(args: &CheckArgs, property: &str, first: &RunSummary, sig: &str) -> Result<(PathBuf, String), String> {
    let mut hangs = 0u64;
    let (base_desc, mut base_ops) = match &first.hung_case {
        Some((d, o)) => (d.clone(), o.clone()),
        None => {
            let r = run_guarded(Job::Seeded { seed: first.seed, keep_trace: false }, RUN_TIMEOUT);
            if r.history_hash != first.history_hash {
                return Err("re-execution of the seed produced a different history".into());
            }
            (r.desc, r.ops)
        }
    };
    let original_ops = base_ops.len();
    // a finding that fired before the hanging operation of a hung run: the prefix suffices
    if first.hung_case.is_some()
        && !sig.starts_with("hang@")
        && let Some((_, _, _, op)) = first.findings.iter().find(|f| f.1 == sig)
    {
        base_ops.truncate(*op + 1);
    }
    let Some((_, first_op)) = fires(&base_desc, &base_ops, property, sig, RUN_TIMEOUT, &mut hangs) else {
        return Err("the recorded operation list does not reproduce the violation".into());
    };
    let (desc, ops, stats) = shrink::minimise(&base_desc, &base_ops, first_op, SHRINK_TRIES, &mut |d, o| {
        hangs < MAX_HANGS_IN_SHRINK && fires(d, o, property, sig, SHRINK_TIMEOUT, &mut hangs).is_some()
    });
    let (desc, ops, message, minimised) = match fires(&desc, &ops, property, sig, RUN_TIMEOUT, &mut hangs) {
        Some((m, _)) => {
            let minimised = stats.ops_to < stats.ops_from || desc != base_desc;
            (desc, ops, m, minimised)
        }
        None => {
            let (m, _) = fires(&base_desc, &base_ops, property, sig, RUN_TIMEOUT, &mut hangs)
                .ok_or("the violation is not reproducible")?;
            (base_desc.clone(), base_ops.clone(), m, false)
        }
    };
    let file = ReplayFile {
        engine: "alloc".into(),
        property: property.to_string(),
        seed: first.seed,
        signature: format!("{property} {sig}"),
        message: message.clone(),
        descriptor_text: desc.describe(),
        descriptor: desc,
        ops_text: ops.iter().map(describe_op).collect(),
        ops,
        minimised,
        original_ops,
    };
    let dir = args.verif_dir.join("replays");
    std::fs::create_dir_all(&dir).map_err(|e| e.to_string())?;
    let path = dir.join(format!("{property}-{}-{}.json", first.seed, sig_tag(sig)));
    std::fs::write(&path, serde_json::to_string_pretty(&file).unwrap()).map_err(|e| e.to_string())?;
    // replay in a fresh process: must fail identically
    let exe = std::env::current_exe().map_err(|e| e.to_string())?;
    let out = std::process::Command::new(exe)
        .arg("replay")
        .arg(&path)
        .output()
        .map_err(|e| e.to_string())?;
    if out.status.code() != Some(1) {
        return Err(format!(
            "fresh-process replay of {} did not reproduce the violation (exit {:?})",
            path.display(),
            out.status.code()
        ));
    }
    Ok((path, message))
}

fn sample_case(seed: u64) -> serde_json::Value {
    let r = run_guarded(Job::Seeded { seed, keep_trace: true }, RUN_TIMEOUT);
    serde_json::json!({
        "seed": seed,
        "descriptor": r.desc.describe(),
        "operations": r.ops.len(),
        "trace": r.trace.iter().take(80).collect::<Vec<_>>(),
    })
}

/// Runs the check of `args.property`; returns the process exit code (0 / 1 / 2).
pub fn check(args: &CheckArgs) -> i32 {
    let property = args.property.as_str();
    if !PROPERTIES.contains(&property) {
        eprintln!("engine alloc does not decide {property}");
        return 2;
    }
    let start = Instant::now();
    tako::verif::set_sim_clock(true);
    let thorough = args.tier == "thorough";
    let total = args
        .runs_override
        .unwrap_or(if thorough { QUICK_RUNS * THOROUGH_FACTOR } else { QUICK_RUNS });
    let jobs = args.jobs.max(1).min(total.max(1)) as usize;

    // ---- runs, spread over threads; results are merged in run-index order. Every run executes
    // on a thread of its own so that an endless loop in the allocator becomes a finding.
    let next = AtomicU64::new(0);
    let hangs = AtomicU64::new(0);
    let stop = AtomicBool::new(false);
    let mut runs: Vec<RunSummary> = Vec::with_capacity(total as usize);
    let mut totals = Totals::default();
    std::thread::scope(|scope| {
        let mut handles = Vec::new();
        for _ in 0..jobs {
            let (next, hangs, stop) = (&next, &hangs, &stop);
            let seed0 = args.seed;
            handles.push(scope.spawn(move || {
                let mut out = Vec::new();
                let mut totals = Totals::default();
                loop {
                    if stop.load(Ordering::Relaxed) {
                        break;
                    }
                    let i = next.fetch_add(1, Ordering::Relaxed);
                    if i >= total {
                        break;
                    }
                    let seed = run_seed_for(seed0, property, i);
                    let r = run_guarded(Job::Seeded { seed, keep_trace: false }, RUN_TIMEOUT);
                    if r.hung && hangs.fetch_add(1, Ordering::Relaxed) + 1 >= MAX_HANGS_IN_BATCH {
                        stop.store(true, Ordering::Relaxed);
                    }
                    totals.add(&r);
                    out.push(summarize(i, seed, r));
                }
                (out, totals)
            }));
        }
        for h in handles {
            match h.join() {
                Ok((v, t)) => {
                    runs.extend(v);
                    totals.merge(t);
                }
                Err(_) => {
                    eprintln!("HARNESS-ERROR: a worker thread of the alloc engine panicked");
                    std::process::exit(2);
                }
            }
        }
    });
    let hung_runs = hangs.load(Ordering::Relaxed);
    let stopped_early = stop.load(Ordering::Relaxed);
    if hung_runs > 0 {
        println!(
            "{property}: {hung_runs} runs did not return from the allocator; {} of {total} runs were executed",
            runs.len()
        );
    }
    runs.sort_by_key(|r| r.index);
    let run_wall = start.elapsed().as_secs_f64();

    // ---- verdict
    let known = load_known_findings(&args.verif_dir.join("known_findings.txt"));
    let mut harness_errors = 0u64;
    let mut by_sig: BTreeMap<String, (u64, usize, String)> = BTreeMap::new();
    let mut other_props: BTreeMap<String, u64> = BTreeMap::new();
    for (ri, r) in runs.iter().enumerate() {
        for (p, sig, msg, _op) in &r.findings {
            if p == "HARNESS" {
                harness_errors += 1;
                if harness_errors <= 5 {
                    eprintln!("HARNESS-ERROR: {sig}: {msg} (run {} seed {})", r.index, r.seed);
                }
            } else if effective_property(p, property) == property {
                by_sig.entry(sig.clone()).or_insert((0, ri, msg.clone())).0 += 1;
            } else {
                *other_props.entry(format!("{p} {sig}")).or_default() += 1;
            }
        }
    }
    // triage help: HQSIM_ALLOC_DUMP=<signature substring> lists the runs that hit it
    if let Ok(pat) = std::env::var("HQSIM_ALLOC_DUMP") {
        let mut n = 0;
        for r in &runs {
            for (p, sig, msg, op) in &r.findings {
                if sig.contains(&pat) && n < 40 {
                    n += 1;
                    println!("DUMP run={} seed={} {p} {sig} op={op}: {msg}", r.index, r.seed);
                }
            }
        }
    }
    let mut exit = 0;
    let mut known_hit: Vec<String> = Vec::new();
    let mut violations: Vec<serde_json::Value> = Vec::new();
    for (sig, (count, first_idx, msg)) in &by_sig {
        let first = &runs[*first_idx];
        if let Some(k) = known
            .iter()
            .find(|k| k.property == property && crate::batch::signature_matches(&k.signature, sig))
        {
            println!(
                "KNOWN-FINDING: property={property} signature={sig} {} ({count} runs, e.g. seed {})",
                k.text, first.seed
            );
            known_hit.push(sig.clone());
            continue;
        }
        match report_violation(args, property, first, sig) {
            Ok((path, message)) => {
                println!("VIOLATION property={property} replay={}", path.display());
                println!("  signature={sig} runs={count} first_seed={} : {message}", first.seed);
                violations.push(serde_json::json!({"signature": sig, "runs": count, "seed": first.seed, "replay": path, "message": message}));
                exit = 1;
            }
            Err(e) => {
                eprintln!("HARNESS-ERROR: cannot reproduce {property} {sig} from seed {}: {e} ({msg})", first.seed);
                harness_errors += 1;
            }
        }
    }

    // ---- evidence
    let counters = &totals.counters;
    let shapes = &totals.state_shapes;
    let decisions = &totals.decisions_nontrivial;
    let get = |k: &str| counters.get(k).copied().unwrap_or(0);
    let nontrivial: Vec<&RunSummary> = runs.iter().filter(|r| r.nontrivial).collect();
    let distinct_nontrivial: BTreeSet<u64> = nontrivial.iter().map(|r| r.history_hash).collect();
    let samples: Vec<serde_json::Value> = nontrivial
        .iter()
        .filter(|r| r.n_ops <= 14)
        .take(3)
        .map(|r| sample_case(r.seed))
        .collect();
    let mut per_policy: BTreeMap<String, serde_json::Value> = BTreeMap::new();
    for p in ["compact", "tight", "scatter", "compact!", "tight!", "all"] {
        per_policy.insert(
            p.to_string(),
            serde_json::json!({"granted": get(&format!("granted_{p}")), "refused": get(&format!("refused_{p}"))}),
        );
    }
    let probes: BTreeMap<String, u64> = counters
        .iter()
        .filter(|(k, _)| {
            k.starts_with("probe_") || k.starts_with("ref_") || k.starts_with("narrowed_") || k.ends_with("_checked")
                || k.starts_with("decisions") || ["bounces", "returns_to_idle_worker", "state_checks"].contains(&k.as_str())
        })
        .map(|(k, v)| (k.clone(), *v))
        .collect();
    let wall = start.elapsed().as_secs_f64();
    let rule = match property {
        "C16" => RULE_C16,
        _ => RULE_C04,
    };
    let evidence = serde_json::json!({
        "property_id": property,
        "tier": if thorough { "thorough" } else { "quick" },
        "seed": args.seed,
        "level": "exploration",
        "coverage": {
            "evaluations": runs.len(),
            "distinct_nontrivial": distinct_nontrivial.len(),
            "rule": rule,
            "samples": samples,
            "nontrivial_runs": nontrivial.len(),
            "runs_per_hour": (runs.len() as f64 / run_wall.max(1e-9) * 3600.0) as u64,
            "seeds": {"verif_seed": args.seed, "first_run_seed": runs.first().map(|r| r.seed), "last_run_seed": runs.last().map(|r| r.seed)},
            "operations_total": runs.iter().map(|r| r.n_ops as u64).sum::<u64>(),
            "grants": get("grants"),
            "refusals": get("refusals"),
            "releases": get("releases"),
            "admission_probes": get("probes"),
            "decisions": get("decisions"),
            "distinct_nontrivial_decisions": decisions.len(),
            "distinct_nontrivial_decisions_measure": "distinct (descriptor, free-state shape, request) decided while at least one allocation was live",
            "per_policy_entries": per_policy,
            "faults_injected": {},
            "runs_hung_in_the_allocator": hung_runs,
            "batch_stopped_early_because_of_hangs": stopped_early,
            "probes": probes,
            "distinct_states": shapes.len(),
            "distinct_states_measure": "distinct free-state shapes seen before a decision: per resource and group (number of completely free indices, multiset of free fractions of partially used indices) or the free amount of a sum resource",
            "components": {
                "real": [
                    "tako ResourceAllocator (try_allocate, is_enabled, release_allocation, has_resources_for_request, claim_resources, strict-policy objective cache)",
                    "ResourcePool (Indices/Groups/Sum: claim_*_from_groups, take_fraction_index_or_split, release_allocation)",
                    "ConciseFreeResources (admission mirror: add/remove/amount_max_alloc)",
                    "group_solver + LpSolver + HiGHS (single-threaded via set_sim_clock)",
                    "ResourceDescriptor::validate, ResourceDescriptorKind constructors, ResourceLabelMap, ResourceIdMap, ResourceRequest::new"
                ],
                "stub": [
                    "no worker around the allocator: grants and releases are called directly (the worker-level paths - task start/end, prefill hand-over - are exercised by the cluster engine's C04 oracle)",
                    "requests are built with SimAllocator::make_request instead of arriving from the server"
                ]
            },
            "known_findings_hit": known_hit,
            "findings_of_other_properties_seen": other_props,
            "violations_detail": violations,
        },
        "assumptions": [
            "no concurrency inside the allocator (it is single-threaded in the worker); the contribution of the simulation is the history dependence of the free state",
            "the snapshot hook (verif_snapshot) reports the pools and the concise mirror faithfully; everything else is recomputed by the harness from the descriptor and the set of live allocations",
            "release semantics (debug assertions off) as in the shipped binary; ResourceAllocator::validate is never called",
            "the formatting of HQ_RESOURCE_VALUES_* / CUDA_VISIBLE_DEVICES from an Allocation (program.rs) is a pure function and not covered",
            "no faults are injected: the allocator has no environment that can fail",
            "sampling, not proof: a clean batch is evidence for the explored descriptors and histories only"
        ],
        "wall_s": wall,
        "violations": violations.len(),
    });
    write_json(&args.verif_dir.join("evidence").join(format!("{property}.json")), &evidence);
    println!(
        "{property}: {} runs ({} non-trivial, {} distinct), {} ops, grants={} refusals={} releases={} probes={}, {} free-state shapes, {} distinct non-trivial decisions, ref agree/disagree/narrowed={}/{}/{}, {:.1}s wall; violations={} known={} harness_errors={}",
        runs.len(),
        nontrivial.len(),
        distinct_nontrivial.len(),
        runs.iter().map(|r| r.n_ops as u64).sum::<u64>(),
        get("grants"),
        get("refusals"),
        get("releases"),
        get("probes"),
        shapes.len(),
        decisions.len(),
        get("ref_agree_grant") + get("ref_agree_refuse"),
        get("ref_disagree"),
        get("ref_narrowed_strict_coupled"),
        wall,
        violations.len(),
        known_hit.len(),
        harness_errors
    );
    if harness_errors > 0 {
        return 2;
    }
    exit
}

const RULE_C16: &str = "one run = seeded worker descriptor (cpus + 0-2 further resources; list / range / groups of 1-4 groups x 1-4 indices, uneven sizes, 1 run in 8 with up to 8 indices per group; sum resources with fractional sizes; optional coupling weights between groups, light 32-256 or heavy >1024) + seeded history of 5-40 operations grant(request) / release(live allocation) / probe(request) (+ optional final drain), requests of 1-3 entries over every policy (compact, tight, scatter, compact!, tight!, all), amounts on the grid {0.25,0.5,0.75,1,1.25,..} plus odd fractions (0.0001, 0.3333, 0.9999) up to slightly more than the resource. At every probe/grant the answer of the real allocator is compared with a brute-force reference over group subsets evaluated on the pre-grant pool snapshot. non-trivial = at least one request was decided while another allocation was live and at least one grant happened; distinct = distinct hash of (descriptor, operations, answers, granted indices). Narrowings: (1) the min-group clause for an entry is skipped when the coupling weights touching it sum to more than 1000 (a group costs 1024 in the optimisation, the documentation only promises a 'preference'); (2) for strict policies on a coupled descriptor the refusal/grant is compared with the documented 'optimal configuration wrt. coupling weights' only for integer amounts and light weights, otherwise only exclusivity/conservation/admission agreement are checked; (3) which of several equally small group sets is taken (tie-breaking) is not checked, and inside the chosen groups only the documented shape: tight leaves at most one used group with completely free indices ('packs as much as possible to the first group, then to the second'), compact's per-group numbers of whole indices differ by at most one unless the smaller group is exhausted ('taken evenly'); (4) a refusal of a request with a strict entry that is explained only by a non-strict compact/tight entry missing its idle-worker minimum is reported under its own signature (the documentation does not say the strict yardstick spreads).";

const RULE_C04: &str = "one run = seeded worker descriptor (list / range with offset / groups up to 4x4 (1 run in 8 up to 8 indices per group) / sum with fractional size, optional coupling) + seeded history of 5-40 grant/release/probe operations (+ optional final drain) on the real allocator, requests of 1-3 entries, every policy, integer and fractional amounts, `all`. After every operation the pool snapshot is compared with the set of live allocations kept by the harness: per allocation exactly the requested amount (whole pool for all), whole indices + at most one fractional index holding the fractional part and listed last, indices and group labels of the descriptor; per index sum of held fractions <= 1; sum resources never overcommitted; per index and per pool free + held == total; concise admission mirror == pools; a refusal leaves the state alone; 1 grant in 5 is released at once and the snapshot compared with the one before the grant; whenever the last allocation is released the snapshot equals the initial one. non-trivial = at least one request was decided while another allocation was live and at least one grant happened; distinct = distinct hash of (descriptor, operations, answers, granted indices).";

/// Replays a replay file written by this engine; exit code as for `check`.
pub fn replay(path: &Path, verbose: bool) -> i32 {
    tako::verif::set_sim_clock(true);
    let text = match std::fs::read_to_string(path) {
        Ok(t) => t,
        Err(e) => {
            eprintln!("cannot read {}: {e}", path.display());
            return 2;
        }
    };
    let file: ReplayFile = match serde_json::from_str(&text) {
        Ok(f) => f,
        Err(e) => {
            eprintln!("cannot parse {}: {e}", path.display());
            return 2;
        }
    };
    let r = run_guarded(Job::Ops { desc: file.descriptor.clone(), ops: file.ops.clone(), verbose }, RUN_TIMEOUT);
    let mut hit: Option<&Finding> = None;
    let mut harness = false;
    for f in &r.findings {
        let p = effective_property(f.property, &file.property);
        println!("FINDING {} {} op={} : {}", p, f.signature(), f.op, f.message);
        if f.property == "HARNESS" {
            harness = true;
        }
        if hit.is_none() && format!("{} {}", p, f.signature()) == file.signature {
            hit = Some(f);
        }
    }
    if harness {
        eprintln!("HARNESS-ERROR: the replay file cannot be executed");
        return 2;
    }
    match hit {
        Some(f) => {
            println!("VIOLATION property={} replay={}", file.property, path.display());
            println!("  {}", f.message);
            1
        }
        None => {
            println!("replay of {} did not reproduce {}", path.display(), file.signature);
            0
        }
    }
}
