//! The cluster engine: real tako core + scheduler + HQ job layer + journal writer + N real
//! worker state machines in one thread. The simulator owns message delivery, scheduler rounds,
//! task ends, the clock, worker losses and server crashes.

use std::cell::{Cell, RefCell};
use std::collections::{BTreeMap, VecDeque};
use std::future::Future;
use std::path::PathBuf;
use std::pin::Pin;
use std::rc::Rc;
use std::sync::Arc;
use std::task::{Context, Poll};
use std::time::Duration;

use bytes::{Bytes, BytesMut};
use futures::Sink;
use tokio::sync::mpsc::UnboundedReceiver;
use tokio::sync::oneshot;

use hyperqueue::common::arraydef::IntArray;
use hyperqueue::common::serverdir::ServerDir;
use hyperqueue::server::Senders;
use hyperqueue::server::autoalloc::create_autoalloc_service;
use hyperqueue::server::client::client_rpc_loop;
use hyperqueue::server::event::Event;
use hyperqueue::server::event::journal::{
    EventStreamMessage, EventStreamReceiver, JournalWriter, verif_streaming_process,
};
use hyperqueue::server::event::streamer::{EventFilter, EventFilterFlags, EventStreamer};
use hyperqueue::server::state::StateRef;
use hyperqueue::server::verif::{RestoreProbe, upstream_event_processor};
use hyperqueue::transfer::messages::{
    CancelRequest, CloseJobRequest, ForgetJobRequest, FromClientMessage, IdSelector,
    JobDetailRequest, JobInfoRequest, ServerInfo, SingleIdSelector, StopWorkerMessage,
    StreamEvents, StreamEventsMode, TaskExplainRequest, TaskIdSelector, TaskSelector,
    TaskStatusSelector, ToClientMessage, WorkerInfoRequest,
};
use hyperqueue::worker::start::RunningTaskContext;
use tako::control::ServerRef;
use tako::gateway::LostWorkerReason;
use tako::launcher::{StopReason, TaskBuildContext, TaskLaunchData, TaskLauncher, TaskResult};
use tako::server::SchedulerConfig;
use tako::verif::{
    CoreSnapshot, FromWorkerMessage, SimSchedulerResult, SimServer, SimWorker, ToWorkerMsg,
    WorkerStateSnapshot,
};
use tako::{InstanceId, JobTaskId, TaskId, WorkerId};

use crate::sim::exec::{Executor, FutId, PollResult, QueueStream};
use crate::sim::panic::{PanicInfo, catch};
use crate::sim::rng::mix;
use crate::spec::*;

pub type TaskKey = (u32, u32); // (job, task)

pub fn tkey(t: TaskId) -> TaskKey {
    (t.job_id().as_num(), t.job_task_id().as_num())
}

pub fn task_id(k: TaskKey) -> TaskId {
    TaskId::new(k.0.into(), JobTaskId::new(k.1))
}

/* ---------------------------------------------------------------------------------------- */
/* Run configuration                                                                        */
/* ---------------------------------------------------------------------------------------- */

#[derive(Debug, Clone, serde::Serialize, serde::Deserialize, PartialEq, Eq)]
pub struct ClusterConfig {
    /// All worker shapes that may connect in this run
    pub workers: Vec<WorkerSpec>,
    pub proactive_filling_reserve: u32,
    pub proactive_filling_max: u32,
    /// Is the journal enabled (real JournalWriter + streaming_process on a scratch file)
    pub journal: bool,
    /// Salt and rate (per mille) of launch failures: a pure function of (salt, task, instance)
    pub launch_fail_salt: u64,
    pub launch_fail_permille: u32,
    pub n_clients: u32,
}

/* ---------------------------------------------------------------------------------------- */
/* Launch log (L)                                                                           */
/* ---------------------------------------------------------------------------------------- */

#[derive(Debug, Clone, Copy, PartialEq, Eq, serde::Serialize)]
pub enum StopKind {
    Cancel,
    Timeout,
}

#[derive(Debug, Clone, PartialEq, Eq, serde::Serialize)]
pub enum ExecEnd {
    Finished,
    Failed,
    Canceled,
    Timeouted,
    /// the worker process went away (crash, stop, time limit) while the task was executing
    WorkerGone,
}

#[derive(Debug, Clone, serde::Serialize)]
pub struct Launch {
    pub seq: usize,
    pub step: u64,
    pub at_ms: u64,
    pub worker: u32,
    pub task: TaskKey,
    pub instance: u32,
    pub rv: u8,
    pub rq_id: u32,
    pub node_list: Vec<u32>,
    pub allocation: Vec<(u32, u64, Vec<(u32, u32, u32)>)>,
    pub allocation_ptr: usize,
    pub time_limit_ms: Option<u64>,
    /// simulated time at which the handling future of the execution was polled first (the
    /// worker starts the time-limit timer there)
    pub first_poll_ms: Option<u64>,
    pub launch_failed: bool,
    /// step at which the execution observed a stop signal
    pub stop_seen: Option<(u64, StopKind)>,
    /// step at which the program ended and how
    pub ended: Option<(u64, ExecEnd)>,
    /// the execution happened before a server crash and its start record did not survive
    pub non_durable: bool,
}

struct LiveExec {
    launch_seq: usize,
    end_tx: Option<oneshot::Sender<EndSpec>>,
    stop_seen: Rc<Cell<Option<StopKind>>>,
    result_cell: Rc<Cell<Option<ExecEndKind>>>,
}

#[derive(Debug, Clone, Copy)]
enum ExecEndKind {
    Finished,
    Failed,
    Canceled,
    Timeouted,
}

pub struct LauncherShared {
    worker: u32,
    step: Rc<Cell<u64>>,
    now_ms: Rc<Cell<u64>>,
    launches: Rc<RefCell<Vec<Launch>>>,
    live: BTreeMap<(TaskKey, u32), LiveExec>,
    /// executions built but whose handling future was not yet handed to the executor
    pending_names: VecDeque<(TaskKey, u32)>,
    fail_salt: u64,
    fail_permille: u32,
}

struct FakeLauncher {
    shared: Rc<RefCell<LauncherShared>>,
}

impl TaskLauncher for FakeLauncher {
    fn build_task(
        &self,
        ctx: TaskBuildContext,
        stop_receiver: oneshot::Receiver<StopReason>,
    ) -> tako::Result<TaskLaunchData> {
        let mut shared = self.shared.borrow_mut();
        let task = tkey(ctx.task_id());
        let instance = ctx.instance_id().as_num();
        let launch_failed = shared.fail_permille > 0
            && mix(&[shared.fail_salt, task.0 as u64, task.1 as u64, instance as u64]) % 1000
                < shared.fail_permille as u64;
        // The time limit is part of the body-independent shared data; the harness reads it from
        // the model, here we only record what the launcher can see.
        let seq = {
            let mut launches = shared.launches.borrow_mut();
            let seq = launches.len();
            launches.push(Launch {
                seq,
                step: shared.step.get(),
                at_ms: shared.now_ms.get(),
                worker: shared.worker,
                task,
                instance,
                rv: ctx.resource_variant().as_num(),
                rq_id: ctx.resource_rq_id().as_num(),
                node_list: ctx.node_list().iter().map(|w| w.as_num()).collect(),
                allocation: tako::verif::allocation_to_plain(ctx.allocation()),
                allocation_ptr: ctx.allocation() as *const _ as usize,
                time_limit_ms: None,
                first_poll_ms: None,
                launch_failed,
                stop_seen: None,
                ended: None,
                non_durable: false,
            });
            seq
        };
        if launch_failed {
            return Err(tako::Error::GenericError(
                "simulated launch failure".to_string(),
            ));
        }
        let (end_tx, end_rx) = oneshot::channel::<EndSpec>();
        let stop_seen = Rc::new(Cell::new(None));
        let result_cell = Rc::new(Cell::new(None));
        shared.pending_names.push_back((task, instance));
        shared.live.insert(
            (task, instance),
            LiveExec {
                launch_seq: seq,
                end_tx: Some(end_tx),
                stop_seen: stop_seen.clone(),
                result_cell: result_cell.clone(),
            },
        );
        let fut = FakeTaskFuture {
            stop_rx: Some(stop_receiver),
            end_rx,
            stop: None,
            stop_seen,
            result_cell,
        };
        let context = tako::comm::serialize(&RunningTaskContext {
            instance_id: InstanceId::new(instance),
        })
        .unwrap();
        Ok(TaskLaunchData::new(Box::pin(fut), context))
    }
}

struct FakeTaskFuture {
    stop_rx: Option<oneshot::Receiver<StopReason>>,
    end_rx: oneshot::Receiver<EndSpec>,
    stop: Option<StopKind>,
    stop_seen: Rc<Cell<Option<StopKind>>>,
    result_cell: Rc<Cell<Option<ExecEndKind>>>,
}

impl Future for FakeTaskFuture {
    type Output = tako::Result<TaskResult>;

    fn poll(mut self: Pin<&mut Self>, cx: &mut Context<'_>) -> Poll<Self::Output> {
        if let Some(rx) = self.stop_rx.as_mut() {
            match Pin::new(rx).poll(cx) {
                Poll::Ready(Ok(reason)) => {
                    let kind = match reason {
                        StopReason::Cancel => StopKind::Cancel,
                        StopReason::Timeout => StopKind::Timeout,
                    };
                    self.stop = Some(kind);
                    self.stop_seen.set(Some(kind));
                    self.stop_rx = None;
                }
                Poll::Ready(Err(_)) => {
                    self.stop_rx = None;
                }
                Poll::Pending => {}
            }
        }
        match Pin::new(&mut self.end_rx).poll(cx) {
            Poll::Ready(Ok(end)) => {
                let (kind, result) = match (end, self.stop) {
                    (EndSpec::Finished, _) => (ExecEndKind::Finished, Ok(TaskResult::Finished)),
                    (EndSpec::ObeyStop, Some(StopKind::Cancel)) => {
                        (ExecEndKind::Canceled, Ok(TaskResult::Canceled))
                    }
                    (EndSpec::ObeyStop, Some(StopKind::Timeout)) => {
                        (ExecEndKind::Timeouted, Ok(TaskResult::Timeouted))
                    }
                    (EndSpec::Failed, _) | (EndSpec::ObeyStop, None) => (
                        ExecEndKind::Failed,
                        Err(tako::Error::GenericError(
                            "simulated program failure".to_string(),
                        )),
                    ),
                };
                self.result_cell.set(Some(kind));
                Poll::Ready(result)
            }
            // The harness dropped the sender: the worker process is gone; never resolve
            Poll::Ready(Err(_)) => Poll::Pending,
            Poll::Pending => Poll::Pending,
        }
    }
}

/* ---------------------------------------------------------------------------------------- */
/* Clients                                                                                  */
/* ---------------------------------------------------------------------------------------- */

struct VecSink {
    out: Rc<RefCell<VecDeque<ToClientMessage>>>,
}

impl Sink<ToClientMessage> for VecSink {
    type Error = tako::Error;
    fn poll_ready(self: Pin<&mut Self>, _: &mut Context<'_>) -> Poll<Result<(), Self::Error>> {
        Poll::Ready(Ok(()))
    }
    fn start_send(self: Pin<&mut Self>, item: ToClientMessage) -> Result<(), Self::Error> {
        self.out.borrow_mut().push_back(item);
        Ok(())
    }
    fn poll_flush(self: Pin<&mut Self>, _: &mut Context<'_>) -> Poll<Result<(), Self::Error>> {
        Poll::Ready(Ok(()))
    }
    fn poll_close(self: Pin<&mut Self>, _: &mut Context<'_>) -> Poll<Result<(), Self::Error>> {
        Poll::Ready(Ok(()))
    }
}

pub struct ClientSim {
    pub id: u32,
    input: Rc<RefCell<VecDeque<Option<tako::Result<FromClientMessage>>>>>,
    pub output: Rc<RefCell<VecDeque<ToClientMessage>>>,
    fut: Option<FutId>,
    /// The request sent and not yet answered
    pub outstanding: Option<ClientOp>,
    /// Step at which the outstanding request was sent
    pub outstanding_since: u64,
    /// The connection switched to event streaming (submit --wait); job id once known
    pub streaming: bool,
    pub closed: bool,
    /// the client itself hung up (otherwise a closed connection was closed by the server)
    pub closed_by_client: bool,
}

/* ---------------------------------------------------------------------------------------- */
/* Workers                                                                                  */
/* ---------------------------------------------------------------------------------------- */

#[derive(Debug, Clone, Copy, PartialEq, Eq)]
pub enum WorkerPhase {
    /// connected and processing messages
    Up,
    /// the worker got `Stop` / reached its time limit: it no longer reads messages, what it
    /// had sent is still in flight
    Stopping,
    /// the connection died (crash / partition); `keep` messages may still reach the server
    Dead,
}

pub struct WorkerSim {
    pub id: u32,
    pub spec_index: u32,
    pub phase: WorkerPhase,
    /// The server still has this worker in its maps
    pub server_connected: bool,
    pub pending_loss: Option<LostWorkerReason>,
    pub sim: Option<SimWorker>,
    pub launcher: Rc<RefCell<LauncherShared>>,
    s2w_rx: UnboundedReceiver<Bytes>,
    pub s2w: VecDeque<Bytes>,
    w2s_rx: UnboundedReceiver<Bytes>,
    pub w2s: VecDeque<Bytes>,
    worker_in: Rc<RefCell<VecDeque<Option<Result<BytesMut, std::io::Error>>>>>,
    server_in: Rc<RefCell<VecDeque<Option<Result<BytesMut, std::io::Error>>>>>,
    msg_loop: Option<FutId>,
    msg_loop_result: Rc<RefCell<Option<tako::Result<()>>>>,
    recv_loop: Option<FutId>,
    recv_result: Rc<RefCell<Option<tako::Result<Option<tako::internal::messages::worker::WorkerStopReason>>>>>,
    retract_fut: Option<FutId>,
    spawned: Rc<RefCell<Vec<(String, Pin<Box<dyn Future<Output = ()>>>)>>>,
    pub task_futs: BTreeMap<FutId, ()>,
    pub start_ms: u64,
    pub time_limit_ms: Option<u64>,
    /// number of server->worker messages processed by the worker
    pub processed_s2w: u64,
}

impl WorkerSim {
    /// Is a CancelTasks message naming the task waiting in the server->worker queue?
    pub fn s2w_contains_cancel(&self, task: TaskKey) -> bool {
        self.s2w.iter().any(|b| {
            matches!(
                tako::verif::decode_to_worker_message(b),
                Ok(ToWorkerMsg::CancelTasks(c)) if c.ids.iter().any(|t| tkey(*t) == task)
            )
        })
    }
}

/// Batch system of the cluster engine: never asked for anything (no scheduling ticks here)
struct NullQueueHandler;

impl hyperqueue::server::autoalloc::verif::QueueHandler for NullQueueHandler {
    fn submit_allocation(
        &mut self,
        _queue_id: u32,
        _queue_info: &hyperqueue::server::autoalloc::verif::QueueInfo,
        _worker_count: u64,
        _mode: hyperqueue::server::autoalloc::verif::SubmitMode,
    ) -> Pin<
        Box<
            dyn Future<
                Output = anyhow::Result<
                    hyperqueue::server::autoalloc::verif::AllocationSubmissionResult,
                >,
            >,
        >,
    > {
        Box::pin(async { Err(anyhow::anyhow!("no batch system in the cluster engine")) })
    }

    fn get_status_of_allocations(
        &self,
        _allocations: &[&hyperqueue::server::autoalloc::Allocation],
    ) -> Pin<
        Box<
            dyn Future<
                Output = anyhow::Result<hyperqueue::server::autoalloc::verif::AllocationStatusMap>,
            >,
        >,
    > {
        Box::pin(async { Err(anyhow::anyhow!("no batch system in the cluster engine")) })
    }

    fn remove_allocation(
        &self,
        _allocation: &hyperqueue::server::autoalloc::Allocation,
    ) -> Pin<Box<dyn Future<Output = anyhow::Result<()>>>> {
        Box::pin(async { Ok(()) })
    }
}

/* ---------------------------------------------------------------------------------------- */
/* Journal                                                                                  */
/* ---------------------------------------------------------------------------------------- */

pub struct JournalSim {
    pub path: PathBuf,
    rx: EventStreamReceiver,
    pub pending: VecDeque<EventStreamMessage>,
    tx: tokio::sync::mpsc::UnboundedSender<EventStreamMessage>,
    fut: Option<FutId>,
    result: Rc<RefCell<Option<anyhow::Result<()>>>>,
    /// file length after the last operation that is known to have called `sync_data`
    pub synced_len: u64,
    pub steps: u64,
    /// Shadow copy of the journal as the server knows it: the surviving file of the last
    /// (re)start plus every event handed to the journal thread since, written at once. It is
    /// the reference for "the journal before the prune" (the real file lags behind by the
    /// writer's buffer) and is never read by the code under test.
    shadow: Option<JournalWriter>,
    shadow_path: PathBuf,
}

impl JournalSim {
    fn reset_shadow(&mut self) {
        self.shadow = None;
        let _ = std::fs::copy(&self.path, &self.shadow_path);
        self.shadow = JournalWriter::create_or_append(&self.shadow_path, None).ok();
    }

    fn shadow_store(&mut self, event: &Event) {
        if let Some(w) = &mut self.shadow {
            let _ = w.store(event.clone());
            let _ = w.flush();
        }
    }
}

/* ---------------------------------------------------------------------------------------- */
/* Step outcome                                                                             */
/* ---------------------------------------------------------------------------------------- */

#[derive(Debug, Default)]
pub struct StepObs {
    /// events emitted to the all-events listener in this step
    pub events: Vec<Event>,
    /// events handed to the journal channel in this step
    pub journal_events: Vec<Event>,
    /// (client, response)
    pub responses: Vec<(u32, ToClientMessage)>,
    /// server->worker messages produced in this step: (worker, decoded)
    pub sent_to_workers: Vec<(u32, ToWorkerMsg)>,
    /// the server->worker message processed by a worker in this step
    pub worker_processed: Option<(u32, ToWorkerMsg)>,
    /// the worker->server message processed by the server in this step
    pub server_processed: Option<(u32, FromWorkerMessage)>,
    /// worker->server messages produced in this step
    pub sent_to_server: Vec<(u32, FromWorkerMessage)>,
    pub scheduler: Option<SimSchedulerResult>,
    /// Worker removed from the server in this step, with the reason given to the reactor
    pub worker_removed: Option<(u32, LostWorkerReason)>,
    pub new_worker: Option<u32>,
    /// first launch seq created in this step
    pub launches_from: usize,
    pub panic: Option<PanicInfo>,
    pub skipped: bool,
    pub note: Option<String>,
    /// the journal thread executed a prune in this step (copy before: journal.before_prune)
    pub journal_pruned: bool,
}

pub struct Incarnation {
    pub server: SimServer,
    pub server_ref: ServerRef,
    pub state_ref: StateRef,
    pub senders: Senders,
    _autoalloc_process: Pin<Box<dyn Future<Output = ()>>>,
    /// The real autoalloc state (queue bookkeeping and ids); no scheduling ticks are run here,
    /// that is the autoalloc engine's job. The service behind `senders.autoalloc` stays a sink.
    pub autoalloc: hyperqueue::server::autoalloc::verif::SimAutoAlloc,
    listener_rx: UnboundedReceiver<Event>,
    pub journal: Option<JournalSim>,
    pub server_uid: String,
}

/// The tako comm object owns the event processor, which owns `Senders`, which owns a `ServerRef`
/// to the same comm object: a reference cycle that would keep the whole server of every run
/// alive. It is broken when the incarnation goes away.
struct NoEvents;

impl tako::events::EventProcessor for NoEvents {
    fn on_task_finished(&mut self, _task_id: tako::TaskId) {}
    fn on_task_started(
        &mut self,
        _task_id: tako::TaskId,
        _instance_id: tako::InstanceId,
        _worker_ids: &[WorkerId],
        _rv_id: tako::ResourceVariantId,
        _context: tako::task::SerializedTaskContext,
    ) {
    }
    fn on_task_error(
        &mut self,
        _task_id: tako::TaskId,
        _consumers_id: Vec<tako::TaskId>,
        _error_info: tako::internal::messages::common::TaskFailInfo,
    ) -> Vec<tako::TaskId> {
        Vec::new()
    }
    fn on_worker_new(
        &mut self,
        _worker_id: WorkerId,
        _configuration: &tako::worker::WorkerConfiguration,
    ) {
    }
    fn on_worker_lost(
        &mut self,
        _worker_id: WorkerId,
        _running_tasks: &[tako::TaskId],
        _reason: LostWorkerReason,
    ) {
    }
    fn on_worker_overview(&mut self, _overview: Box<tako::worker::WorkerOverview>) {}
    fn on_task_notify(&mut self, _task_id: tako::TaskId, _worker_id: WorkerId, _message: Box<[u8]>) {}
}

impl Drop for Incarnation {
    fn drop(&mut self) {
        self.server_ref.set_client_events(Box::new(NoEvents));
    }
}

pub struct World {
    pub cfg: ClusterConfig,
    pub rt: tokio::runtime::Runtime,
    pub exec: Executor,
    pub inc: Option<Incarnation>,
    pub workers: BTreeMap<u32, WorkerSim>,
    pub clients: BTreeMap<u32, ClientSim>,
    pub launches: Rc<RefCell<Vec<Launch>>>,
    pub step: Rc<Cell<u64>>,
    pub now_ms: Rc<Cell<u64>>,
    pub scratch: PathBuf,
    pub journal_path: PathBuf,
    pub incarnation_no: u32,
    pub dead: Option<PanicInfo>,
    /// Restore information of the last restart (for the restore oracles)
    pub last_restore: Option<RestoreInfo>,
    pub journal_flush_period: Duration,
    /// stub of the autoalloc service: next queue id (taken over from the restore) and live queues
    pub queue_next_id: u32,
    pub live_queues: Vec<u32>,
    /// live jobs / workers of the last prune request (as computed by the real server)
    pub last_prune_live: RefCell<Option<(tako::Set<tako::JobId>, tako::Set<tako::WorkerId>)>>,
}

#[derive(Debug, Clone)]
pub struct RestoreInfo {
    pub job_id_counter: u32,
    pub worker_id_counter: u32,
    pub queue_id_counter: u32,
    pub truncate_size: Option<u64>,
    pub server_uid: String,
    pub file_len: u64,
    /// (task, instance id, crash counter, deps) of all tasks handed to the core
    pub submitted: Vec<RestoredTask>,
    pub queues: Vec<u32>,
    /// (queue, worker resources handed to the autoalloc service with the restored queue)
    pub queue_resources: Vec<(u32, Option<String>)>,
    pub error: Option<String>,
}

#[derive(Debug, Clone)]
pub struct RestoredTask {
    pub task: TaskKey,
    pub deps: Vec<TaskKey>,
    pub instance_id: Option<u32>,
    pub crash_counter: Option<u32>,
}

fn bytes_stream(
    q: &Rc<RefCell<VecDeque<Option<Result<BytesMut, std::io::Error>>>>>,
) -> tako::verif::ByteStream {
    Box::pin(QueueStream { queue: q.clone() })
}

impl World {
    pub fn new(cfg: ClusterConfig, scratch: PathBuf) -> Self {
        let mut world = Self::new_empty(cfg, scratch);
        let r = {
            let handle = world.rt.handle().clone();
            let _g = handle.enter();
            world.start_incarnation(None)
        };
        if let Err(p) = r {
            world.dead = Some(p);
        }
        world
    }

    /// A server started from the given journal bytes (no earlier incarnation in this world).
    /// The restore outcome is in `last_restore`, a panic in `dead`.
    pub fn from_journal(cfg: ClusterConfig, scratch: PathBuf, bytes: &[u8]) -> Self {
        let mut world = Self::new_empty(cfg, scratch);
        std::fs::write(&world.journal_path, bytes).unwrap();
        let handle = world.rt.handle().clone();
        let _g = handle.enter();
        let r = catch(|| RestoreProbe::load(&world.journal_path));
        match r {
            Err(p) => world.dead = Some(p),
            Ok(Err(e)) => {
                world.last_restore = Some(RestoreInfo {
                    job_id_counter: 0,
                    worker_id_counter: 0,
                    queue_id_counter: 0,
                    truncate_size: None,
                    server_uid: String::new(),
                    file_len: bytes.len() as u64,
                    submitted: Vec::new(),
                    queues: Vec::new(),
                    queue_resources: Vec::new(),
                    error: Some(format!("load failed: {e:?}")),
                });
            }
            Ok(Ok(restore)) => {
                if let Err(p) = world.start_incarnation(Some(restore)) {
                    world.dead = Some(p);
                }
            }
        }
        drop(_g);
        world
    }

    fn new_empty(cfg: ClusterConfig, scratch: PathBuf) -> Self {
        let rt = tokio::runtime::Builder::new_current_thread()
            .enable_all()
            .start_paused(true)
            .build()
            .unwrap();
        std::fs::create_dir_all(&scratch).unwrap();
        let journal_path = scratch.join("journal.bin");
        let _ = std::fs::remove_file(&journal_path);
        let world = World {
            cfg,
            rt,
            exec: Executor::default(),
            inc: None,
            workers: BTreeMap::new(),
            clients: BTreeMap::new(),
            launches: Rc::new(RefCell::new(Vec::new())),
            step: Rc::new(Cell::new(0)),
            now_ms: Rc::new(Cell::new(0)),
            scratch,
            journal_path,
            incarnation_no: 0,
            dead: None,
            last_restore: None,
            journal_flush_period: Duration::from_secs(30),
            queue_next_id: 1,
            live_queues: Vec::new(),
            last_prune_live: RefCell::new(None),
        };
        tako::verif::set_sim_clock(true);
        world
    }

    /// Copy of the journal as it survived the last crash (before the new server appended)
    pub fn cut_journal_path(&self) -> PathBuf {
        self.scratch.join("journal.cut")
    }

    /* ------------------------------- server incarnation -------------------------------- */

    /// MIRROR: `bootstrap::initialize_server` + the restore part of `start_server`, without
    /// sockets, access files and the autoalloc process (the autoalloc service is a sink).
    fn start_incarnation(&mut self, restore: Option<RestoreProbe>) -> Result<(), PanicInfo> {
        self.incarnation_no += 1;
        let mut restore = restore;
        let (worker_id_initial, queue_id_initial, truncate, uid_from_journal) = match &mut restore {
            Some(r) => {
                let uid = r.take_server_uid();
                (
                    r.worker_id_counter(),
                    r.queue_id_counter(),
                    r.truncate_size(),
                    if uid.is_empty() { None } else { Some(uid) },
                )
            }
            None => (WorkerId::new(0), 1, None, None),
        };
        let server_uid = uid_from_journal.unwrap_or_else(|| format!("sim{:03}", self.incarnation_no));

        let state_ref = StateRef::new(ServerInfo {
            version: "sim".to_string(),
            server_uid: server_uid.clone(),
            client_host: "sim".into(),
            worker_host: "sim".into(),
            client_port: 1,
            worker_port: 1,
            pid: 1,
            start_date: chrono::Utc::now(),
            journal_path: if self.cfg.journal {
                Some(self.journal_path.clone())
            } else {
                None
            },
        });

        // prepare_event_management
        let (events, journal) = if self.cfg.journal {
            let writer = JournalWriter::create_or_append(&self.journal_path, truncate)
                .expect("cannot open journal");
            let (tx_a, rx_a) = tokio::sync::mpsc::unbounded_channel::<EventStreamMessage>();
            let (tx_b, rx_b) = tokio::sync::mpsc::unbounded_channel::<EventStreamMessage>();
            let result = Rc::new(RefCell::new(None));
            let result2 = result.clone();
            let process = verif_streaming_process(
                writer,
                rx_b,
                self.journal_path.clone(),
                self.journal_flush_period,
            );
            let fut = self.exec.insert(
                "journal".to_string(),
                Box::pin(async move {
                    let r = process.await;
                    *result2.borrow_mut() = Some(r);
                }),
            );
            let streamer = EventStreamer::new(Some(tx_a));
            streamer.on_server_start(&server_uid);
            (
                streamer,
                Some(JournalSim {
                    path: self.journal_path.clone(),
                    rx: rx_a,
                    pending: VecDeque::new(),
                    tx: tx_b,
                    fut: Some(fut),
                    result,
                    synced_len: 0,
                    steps: 0,
                    shadow: None,
                    shadow_path: self.scratch.join("journal.shadow"),
                }),
            )
        } else {
            (EventStreamer::new(None), None)
        };

        let server = SimServer::new(
            server_uid.clone(),
            worker_id_initial,
            None,
            SchedulerConfig {
                proactive_filling_reserve: self.cfg.proactive_filling_reserve,
                proactive_filling_max: self.cfg.proactive_filling_max,
                mip_time_limit: Duration::from_secs(60),
            },
        );
        let server_ref = server.server_ref();
        let (autoalloc_service, autoalloc_process) =
            create_autoalloc_service(server_ref.clone(), queue_id_initial, events.clone());
        // MIRROR: create_autoalloc_service creates the state with the restored queue id counter
        let autoalloc = hyperqueue::server::autoalloc::verif::SimAutoAlloc::new(
            server_ref.clone(),
            events.clone(),
            queue_id_initial,
        );
        let senders = Senders {
            server_control: server_ref.clone(),
            events: events.clone(),
            autoalloc: autoalloc_service,
        };
        server_ref.set_client_events(upstream_event_processor(
            state_ref.clone(),
            senders.clone(),
        ));
        let (ltx, lrx) = tokio::sync::mpsc::unbounded_channel::<Event>();
        events.register_listener(EventFilter::all_events(), ltx);

        let mut inc = Incarnation {
            server,
            server_ref,
            state_ref,
            senders,
            _autoalloc_process: Box::pin(autoalloc_process),
            autoalloc,
            listener_rx: lrx,
            journal,
            server_uid: server_uid.clone(),
        };
        // The journal task starts by consuming the first (immediate) tick of its flush timer
        if let Some(j) = &mut inc.journal {
            let fut = j.fut.unwrap();
            let r = catch(|| self.exec.poll(fut));
            if let Err(p) = r {
                return Err(p);
            }
            j.synced_len = std::fs::metadata(&j.path).map(|m| m.len()).unwrap_or(0);
            j.reset_shadow();
        }

        if let Some(restore) = restore {
            let file_len = std::fs::metadata(&self.journal_path)
                .map(|m| m.len())
                .unwrap_or(0);
            let mut info = RestoreInfo {
                job_id_counter: restore.job_id_counter(),
                worker_id_counter: worker_id_initial.as_num(),
                queue_id_counter: queue_id_initial,
                truncate_size: truncate,
                server_uid: server_uid.clone(),
                file_len,
                submitted: Vec::new(),
                queues: Vec::new(),
                queue_resources: Vec::new(),
                error: None,
            };
            let state_ref = inc.state_ref.clone();
            let server_ref = inc.server_ref.clone();
            let r = catch(move || restore.restore(&state_ref, &server_ref));
            match r {
                Err(p) => {
                    self.inc = Some(inc);
                    self.last_restore = Some(info);
                    return Err(p);
                }
                Ok(Err(e)) => {
                    info.error = Some(format!("{e:?}"));
                }
                Ok(Ok((new_tasks, queues))) => {
                    info.queues = queues.iter().map(|q| q.queue_id).collect();
                    info.queue_resources = queues
                        .iter()
                        .map(|q| {
                            (
                                q.queue_id,
                                q.worker_resources.as_ref().map(|r| format!("{r:?}")),
                            )
                        })
                        .collect();
                    for submit in &new_tasks {
                        for t in &submit.tasks {
                            let adj = submit.adjust_instance_id_and_crash_counters.get(&t.id);
                            info.submitted.push(RestoredTask {
                                task: tkey(t.id),
                                deps: t.task_deps.iter().map(|d| tkey(*d)).collect(),
                                instance_id: adj.map(|a| a.0.as_num()),
                                crash_counter: adj.map(|a| a.1),
                            });
                        }
                    }
                    let server_ref = inc.server_ref.clone();
                    let r = catch(move || {
                        for new in new_tasks {
                            server_ref.add_new_tasks(new).unwrap();
                        }
                    });
                    if let Err(p) = r {
                        self.inc = Some(inc);
                        self.last_restore = Some(info);
                        return Err(p);
                    }
                    // MIRROR: bootstrap::start_server hands the restored queues to autoalloc
                    let rt = &self.rt;
                    let aa = &mut inc.autoalloc;
                    let r = catch(move || {
                        for q in queues {
                            let (res, _) = rt.block_on(aa.add_queue(
                                PathBuf::from("/nonexistent/hqsim-cluster"),
                                q.params,
                                Some(q.queue_id),
                                q.worker_resources,
                                Box::new(NullQueueHandler),
                            ));
                            res.unwrap();
                        }
                    });
                    if let Err(p) = r {
                        self.inc = Some(inc);
                        self.last_restore = Some(info);
                        return Err(p);
                    }
                }
            }
            self.queue_next_id = info.queue_id_counter;
            self.live_queues = info.queues.clone();
            self.last_restore = Some(info);
        }
        self.inc = Some(inc);
        // clients of the new incarnation
        self.clients.clear();
        for c in 0..self.cfg.n_clients {
            self.new_client(c);
        }
        Ok(())
    }

    fn new_client(&mut self, id: u32) {
        let inc = self.inc.as_ref().unwrap();
        let (stream, input) = QueueStream::<tako::Result<FromClientMessage>>::new();
        let output = Rc::new(RefCell::new(VecDeque::new()));
        let sink = VecSink {
            out: output.clone(),
        };
        let state_ref = inc.state_ref.clone();
        let senders = inc.senders.clone();
        let server_dir = ServerDir::open(&self.scratch).expect("scratch dir");
        let end_flag = Arc::new(tokio::sync::Notify::new());
        let fut = self.exec.insert(
            format!("client{id}"),
            Box::pin(async move {
                client_rpc_loop(sink, stream, server_dir, state_ref, &senders, end_flag).await;
            }),
        );
        self.clients.insert(
            id,
            ClientSim {
                id,
                input,
                output,
                fut: Some(fut),
                outstanding: None,
                outstanding_since: 0,
                streaming: false,
                closed: false,
                closed_by_client: false,
            },
        );
    }

    /* ------------------------------------ helpers --------------------------------------- */

    pub fn core_snapshot(&self) -> Option<CoreSnapshot> {
        self.inc.as_ref().map(|i| i.server.snapshot())
    }

    pub fn worker_snapshot(&self, w: u32) -> Option<WorkerStateSnapshot> {
        self.workers
            .get(&w)
            .and_then(|w| w.sim.as_ref())
            .map(|s| s.snapshot())
    }

    pub fn scheduling_needed(&self) -> bool {
        self.inc
            .as_ref()
            .map(|i| i.server.scheduling_flag())
            .unwrap_or(false)
    }

    pub fn journal_file_len(&self) -> u64 {
        std::fs::metadata(&self.journal_path)
            .map(|m| m.len())
            .unwrap_or(0)
    }

    /// Live executions of a worker: (task, instance, stop seen?, end already instructed?)
    pub fn live_execs(&self, w: u32) -> Vec<(TaskKey, u32, Option<StopKind>, bool)> {
        let Some(ws) = self.workers.get(&w) else {
            return Vec::new();
        };
        if ws.sim.is_none() {
            return Vec::new();
        }
        ws.launcher
            .borrow()
            .live
            .iter()
            .map(|((t, i), e)| (*t, *i, e.stop_seen.get(), e.end_tx.is_none()))
            .collect()
    }

    pub fn task_fut_name(w: u32, task: TaskKey, instance: u32) -> String {
        format!("task w{w} {}@{} i{instance}", task.0, task.1)
    }

    /// Woken task-handling futures: (worker, task, instance)
    pub fn woken_task_futs(&self) -> Vec<(u32, TaskKey, u32)> {
        let mut out = Vec::new();
        for id in self.exec.woken() {
            let name = self.exec.name(id).unwrap();
            if let Some(rest) = name.strip_prefix("task w") {
                // "task w{w} {job}@{task} i{instance}"
                let mut it = rest.split(' ');
                let w: u32 = it.next().unwrap().parse().unwrap();
                let jt = it.next().unwrap();
                let (j, t) = jt.split_once('@').unwrap();
                let i: u32 = it.next().unwrap()[1..].parse().unwrap();
                out.push((w, (j.parse().unwrap(), t.parse().unwrap()), i));
            }
        }
        out
    }

    pub fn woken_clients(&self) -> Vec<u32> {
        self.clients
            .values()
            .filter(|c| c.fut.map(|f| self.exec.is_woken(f)).unwrap_or(false))
            .map(|c| c.id)
            .collect()
    }

    pub fn woken_retract_checks(&self) -> Vec<u32> {
        self.workers
            .values()
            .filter(|w| {
                w.phase == WorkerPhase::Up
                    && w.retract_fut
                        .map(|f| self.exec.is_woken(f))
                        .unwrap_or(false)
            })
            .map(|w| w.id)
            .collect()
    }

    /// Collect what the system produced: queues, events, responses. Never calls repo code that
    /// can panic.
    fn drain(&mut self, obs: &mut StepObs) {
        for w in self.workers.values_mut() {
            while let Ok(b) = w.s2w_rx.try_recv() {
                if let Ok(m) = tako::verif::decode_to_worker_message(&b) {
                    obs.sent_to_workers.push((w.id, m));
                }
                if w.phase == WorkerPhase::Up {
                    w.s2w.push_back(b);
                }
            }
            while let Ok(b) = w.w2s_rx.try_recv() {
                if w.phase != WorkerPhase::Dead && w.server_connected {
                    if let Ok(m) = tako::verif::decode_from_worker_message(&b) {
                        obs.sent_to_server.push((w.id, m));
                    }
                    w.w2s.push_back(b);
                }
            }
        }
        if let Some(inc) = &mut self.inc {
            while let Ok(e) = inc.listener_rx.try_recv() {
                obs.events.push(e);
            }
            if let Some(j) = &mut inc.journal {
                while let Ok(m) = j.rx.try_recv() {
                    if let EventStreamMessage::Event(e) = &m {
                        obs.journal_events.push(e.clone());
                    }
                    j.pending.push_back(m);
                }
            }
        }
        for c in self.clients.values_mut() {
            let mut out = c.output.borrow_mut();
            while let Some(m) = out.pop_front() {
                obs.responses.push((c.id, m));
            }
        }
    }

    /* ------------------------------------ actions --------------------------------------- */

    /// Executes one action. Panics inside repository code are caught and returned in the
    /// observation (the world is dead afterwards).
    pub fn execute(&mut self, action: &Action) -> StepObs {
        let mut obs = StepObs {
            launches_from: self.launches.borrow().len(),
            ..Default::default()
        };
        if self.dead.is_some() {
            obs.skipped = true;
            return obs;
        }
        self.step.set(self.step.get() + 1);
        // SAFETY of borrow: the guard only borrows the runtime handle
        let handle = self.rt.handle().clone();
        let _g = handle.enter();
        let r = catch(|| self.execute_inner(action, &mut obs));
        match r {
            Ok(Ok(done)) => {
                if !done {
                    obs.skipped = true;
                }
            }
            Ok(Err(p)) | Err(p) => {
                obs.panic = Some(p.clone());
                self.dead = Some(p);
            }
        }
        self.register_spawned();
        self.drain(&mut obs);
        obs
    }

    /// Task futures handed over by `WorkerComm::spawn_task` are entered into the executor.
    fn register_spawned(&mut self) {
        for w in self.workers.values_mut() {
            let spawned: Vec<_> = w.spawned.borrow_mut().drain(..).collect();
            for (name, fut) in spawned {
                if w.sim.is_none() {
                    continue;
                }
                let id = self.exec.insert(name, fut);
                w.task_futs.insert(id, ());
            }
        }
    }

    fn execute_inner(
        &mut self,
        action: &Action,
        obs: &mut StepObs,
    ) -> Result<bool, PanicInfo> {
        if let Action::CrashServer { keep_bytes } = action {
            return self.act_crash_server(*keep_bytes, obs);
        }
        Ok(self.execute_simple(action, obs))
    }

    fn execute_simple(&mut self, action: &Action, obs: &mut StepObs) -> bool {
        match action {
            Action::ToWorker { w } => self.act_to_worker(*w, obs),
            Action::ToServer { w } => self.act_to_server(*w, obs),
            Action::Schedule => {
                let Some(inc) = &self.inc else { return false };
                if !inc.server.scheduling_flag() {
                    return false;
                }
                let r = inc.server.run_scheduling(tako::verif::now());
                obs.scheduler = Some(r);
                true
            }
            Action::PollTask {
                w,
                job,
                task,
                instance,
            } => {
                let name = Self::task_fut_name(*w, (*job, *task), *instance);
                let Some(id) = self.exec.find_by_name(&name) else {
                    return false;
                };
                if !self.exec.is_woken(id) {
                    return false;
                }
                {
                    let now = self.now_ms.get();
                    let mut ls = self.launches.borrow_mut();
                    if let Some(l) = ls.iter_mut().rev().find(|l| {
                        l.worker == *w && l.task == (*job, *task) && l.instance == *instance
                    }) && l.first_poll_ms.is_none()
                    {
                        l.first_poll_ms = Some(now);
                    }
                }
                self.poll_task_fut(*w, id);
                true
            }
            Action::EndTask {
                w,
                job,
                task,
                instance,
                end,
            } => {
                let Some(ws) = self.workers.get(w) else {
                    return false;
                };
                if ws.sim.is_none() {
                    return false;
                }
                let mut l = ws.launcher.borrow_mut();
                let Some(exec) = l.live.get_mut(&((*job, *task), *instance)) else {
                    return false;
                };
                if *end == EndSpec::ObeyStop && exec.stop_seen.get().is_none() {
                    return false;
                }
                let Some(tx) = exec.end_tx.take() else {
                    return false;
                };
                let _ = tx.send(*end);
                true
            }
            Action::ClientSend { c, op } => self.act_client_send(*c, op, obs),
            Action::PollClient { c } => {
                let Some(cl) = self.clients.get(c) else {
                    return false;
                };
                let Some(fut) = cl.fut else { return false };
                if !self.exec.is_woken(fut) {
                    return false;
                }
                self.poll_client(*c);
                true
            }
            Action::JournalStep => self.act_journal_step(obs),
            Action::Advance { ms } => {
                self.advance(*ms);
                true
            }
            Action::AddWorker { spec } => self.act_add_worker(*spec, obs),
            Action::KillWorker { w, reason, keep } => {
                let Some(ws) = self.workers.get_mut(w) else {
                    return false;
                };
                if !ws.server_connected || ws.phase == WorkerPhase::Dead {
                    return false;
                }
                ws.w2s.truncate(*keep as usize);
                ws.s2w.clear();
                let step = self.step.get();
                Self::worker_process_gone(ws, &mut self.exec, &self.launches, step);
                ws.phase = WorkerPhase::Dead;
                ws.pending_loss = Some(match reason {
                    LossReasonSpec::ConnectionLost => LostWorkerReason::ConnectionLost,
                    LossReasonSpec::HeartbeatLost => LostWorkerReason::HeartbeatLost,
                });
                true
            }
            Action::NoticeLoss { w } => {
                let Some(ws) = self.workers.get_mut(w) else {
                    return false;
                };
                if !ws.server_connected || !ws.w2s.is_empty() {
                    return false;
                }
                match ws.phase {
                    WorkerPhase::Up => return false,
                    WorkerPhase::Stopping | WorkerPhase::Dead => {}
                }
                let reason = ws.pending_loss.unwrap_or(LostWorkerReason::ConnectionLost);
                if reason == LostWorkerReason::HeartbeatLost {
                    // periodic check wins the select!: the receive loop is dropped
                    if let Some(f) = ws.recv_loop.take() {
                        self.exec.remove(f);
                    }
                    self.remove_worker_on_server(*w, reason, obs);
                } else {
                    // EOF on the connection: the real receive loop ends
                    ws.server_in.borrow_mut().push_back(None);
                    let f = ws.recv_loop.unwrap();
                    self.exec.poll(f);
                    self.finish_recv_loop(*w, obs);
                }
                true
            }
            Action::WorkerTimeLimit { w } => {
                let now = self.now_ms.get();
                let Some(ws) = self.workers.get_mut(w) else {
                    return false;
                };
                if ws.phase != WorkerPhase::Up {
                    return false;
                }
                let Some(limit) = ws.time_limit_ms else {
                    return false;
                };
                if now < ws.start_ms + limit {
                    return false;
                }
                // MIRROR: run_worker, branch `time_limit_fut`: send Stop(TimeLimitReached),
                // drop the sender, flush, cancel what runs.
                let sim = ws.sim.as_ref().unwrap();
                sim.send_to_server(FromWorkerMessage::Stop(
                    tako::internal::messages::worker::WorkerStopReason::TimeLimitReached,
                ));
                sim.drop_sender();
                sim.cancel_all_on_end();
                ws.phase = WorkerPhase::Stopping;
                ws.s2w.clear();
                if let Some(f) = ws.msg_loop.take() {
                    self.exec.remove(f);
                }
                true
            }
            Action::PollRetractCheck { w } => {
                let Some(ws) = self.workers.get(w) else {
                    return false;
                };
                if ws.phase != WorkerPhase::Up {
                    return false;
                }
                let Some(f) = ws.retract_fut else {
                    return false;
                };
                if !self.exec.is_woken(f) {
                    return false;
                }
                self.exec.poll(f);
                true
            }
            Action::CrashServer { .. } => unreachable!(),
            Action::AutoallocTick => {
                let Some(inc) = &mut self.inc else { return false };
                if self.live_queues.is_empty() {
                    return false;
                }
                // the real scheduling pass; submissions are refused by the null batch system
                let _ = self.rt.block_on(inc.autoalloc.scheduling_tick());
                true
            }
            Action::QueueEvent { create, id } => {
                let Some(inc) = &mut self.inc else { return false };
                if *create {
                    // the real AddQueue handling (create_queue: id from the real counter,
                    // AllocationQueueCreated event)
                    let params = hyperqueue::server::autoalloc::QueueParameters {
                        manager: hyperqueue::common::manager::info::ManagerType::Slurm,
                        // (parameters vary with the number of queues created so far; they only
                        // matter for the worker query of `AutoallocTick`)
                        max_workers_per_alloc: [1u32, 2, 4][(self.queue_next_id % 3) as usize],
                        backlog: 1 + (self.queue_next_id % 2) * 2,
                        timelimit: Duration::from_secs([3600u64, 20, 600][(self.queue_next_id % 3) as usize]),
                        name: None,
                        max_worker_count: None,
                        min_utilization: if self.queue_next_id % 4 == 3 { 0.5 } else { 0.0 },
                        additional_args: Vec::new(),
                        worker_start_cmd: None,
                        worker_stop_cmd: None,
                        worker_wrap_cmd: None,
                        cli_resource_descriptor: None,
                        worker_args: Vec::new(),
                        idle_timeout: None,
                    };
                    let (res, _) = self.rt.block_on(inc.autoalloc.add_queue(
                        PathBuf::from("/nonexistent/hqsim-cluster"),
                        params,
                        None,
                        None,
                        Box::new(NullQueueHandler),
                    ));
                    let Ok(qid) = res else { return false };
                    self.queue_next_id = qid + 1;
                    self.live_queues.push(qid);
                    // (the allocation that autoalloc would submit for the queue; workers that
                    // connect "from it" make the queue learn their resources)
                    inc.senders
                        .events
                        .on_allocation_queued(qid, format!("simalloc-{qid}"), 1);
                    true
                } else {
                    let Some(pos) = self.live_queues.iter().position(|q| q == id) else {
                        return false;
                    };
                    let (res, _) = self.rt.block_on(inc.autoalloc.remove_queue(*id, true));
                    if res.is_err() {
                        return false;
                    }
                    self.live_queues.remove(pos);
                    true
                }
            }
        }
    }

    fn advance(&mut self, ms: u64) {
        self.rt
            .block_on(tokio::time::advance(Duration::from_millis(ms)));
        self.now_ms.set(self.now_ms.get() + ms);
        // The journal thread is never left with a fired flush tick and a message at once
        if let Some(inc) = &mut self.inc
            && let Some(j) = &mut inc.journal
            && let Some(f) = j.fut
            && self.exec.is_woken(f)
        {
            self.exec.poll(f);
            j.synced_len = std::fs::metadata(&j.path).map(|m| m.len()).unwrap_or(0);
        }
    }

    fn poll_task_fut(&mut self, w: u32, id: FutId) {
        let r = self.exec.poll(id);
        // record what the execution observed
        if let Some(ws) = self.workers.get_mut(&w) {
            let step = self.step.get();
            let mut l = ws.launcher.borrow_mut();
            let mut launches = self.launches.borrow_mut();
            let mut finished = Vec::new();
            for (key, e) in l.live.iter() {
                let launch = &mut launches[e.launch_seq];
                if launch.stop_seen.is_none()
                    && let Some(k) = e.stop_seen.get()
                {
                    launch.stop_seen = Some((step, k));
                }
                if let Some(kind) = e.result_cell.get() {
                    launch.ended = Some((
                        step,
                        match kind {
                            ExecEndKind::Finished => ExecEnd::Finished,
                            ExecEndKind::Failed => ExecEnd::Failed,
                            ExecEndKind::Canceled => ExecEnd::Canceled,
                            ExecEndKind::Timeouted => ExecEnd::Timeouted,
                        },
                    ));
                    finished.push(*key);
                }
            }
            for k in finished {
                l.live.remove(&k);
            }
            if r == PollResult::Done {
                ws.task_futs.remove(&id);
            }
        }
    }

    /// The worker process disappears (crash, stop, time limit): executions end as WorkerGone.
    fn worker_process_gone(
        ws: &mut WorkerSim,
        exec: &mut Executor,
        launches: &Rc<RefCell<Vec<Launch>>>,
        step: u64,
    ) {
        let mut l = ws.launcher.borrow_mut();
        let mut launches = launches.borrow_mut();
        for (_, e) in l.live.iter() {
            let launch = &mut launches[e.launch_seq];
            if launch.ended.is_none() {
                launch.ended = Some((step, ExecEnd::WorkerGone));
            }
        }
        l.live.clear();
        drop(l);
        for (id, _) in std::mem::take(&mut ws.task_futs) {
            exec.remove(id);
        }
        if let Some(f) = ws.msg_loop.take() {
            exec.remove(f);
        }
        if let Some(f) = ws.retract_fut.take() {
            exec.remove(f);
        }
        ws.sim = None;
    }

    fn act_add_worker(&mut self, spec: u32, obs: &mut StepObs) -> bool {
        let Some(inc) = &self.inc else { return false };
        let Some(wspec) = self.cfg.workers.get(spec as usize).cloned() else {
            return false;
        };
        let index = self.workers.len();
        let mut configuration = wspec.configuration(index);
        // every third worker comes from the allocation of a live allocation queue (if any)
        if !self.live_queues.is_empty() && index % 3 == 1 {
            let q = self.live_queues[index % self.live_queues.len()];
            let info = hyperqueue::common::manager::info::ManagerInfo {
                manager: hyperqueue::common::manager::info::ManagerType::Slurm,
                allocation_id: format!("simalloc-{q}"),
                time_limit: None,
                max_memory_mb: None,
            };
            configuration.extra.insert(
                "JobManager".to_string(),
                serde_json::to_string(&info).expect("manager info"),
            );
        }
        let (worker_id, mut s2w_rx) = inc
            .server
            .register_worker(configuration.clone(), tako::verif::now());
        let id = worker_id.as_num();
        let registration = s2w_rx.try_recv().expect("registration response");
        let (w2s_tx, w2s_rx) = tokio::sync::mpsc::unbounded_channel::<Bytes>();
        let launcher = Rc::new(RefCell::new(LauncherShared {
            worker: id,
            step: self.step.clone(),
            now_ms: self.now_ms.clone(),
            launches: self.launches.clone(),
            live: BTreeMap::new(),
            pending_names: VecDeque::new(),
            fail_salt: self.cfg.launch_fail_salt,
            fail_permille: self.cfg.launch_fail_permille,
        }));
        let spawned: Rc<RefCell<Vec<(String, Pin<Box<dyn Future<Output = ()>>>)>>> =
            Rc::new(RefCell::new(Vec::new()));
        let spawned2 = spawned.clone();
        let launcher2 = launcher.clone();
        let launcher3 = launcher.clone();
        let sim = SimWorker::new(
            &registration,
            configuration,
            w2s_tx,
            Box::new(move |fut| {
                // `spawn_task` is called right after a successful `build_task`
                let (task, instance) = launcher3
                    .borrow_mut()
                    .pending_names
                    .pop_front()
                    .expect("spawn without build_task");
                spawned2
                    .borrow_mut()
                    .push((World::task_fut_name(id, task, instance), fut));
            }),
            move |_uid, _id| Box::new(FakeLauncher { shared: launcher2 }),
        )
        .expect("worker state");

        let worker_in = Rc::new(RefCell::new(VecDeque::new()));
        let server_in = Rc::new(RefCell::new(VecDeque::new()));
        let msg_loop_result = Rc::new(RefCell::new(None));
        let recv_result = Rc::new(RefCell::new(None));
        let ml = sim.message_loop_future(bytes_stream(&worker_in));
        let mlr = msg_loop_result.clone();
        let msg_loop = self.exec.insert(
            format!("wloop{id}"),
            Box::pin(async move {
                let r = ml.await;
                *mlr.borrow_mut() = Some(r);
            }),
        );
        let rl = inc
            .server
            .worker_receive_future(worker_id, bytes_stream(&server_in));
        let rr = recv_result.clone();
        let recv_loop = self.exec.insert(
            format!("sloop{id}"),
            Box::pin(async move {
                let r = rl.await;
                *rr.borrow_mut() = Some(r);
            }),
        );
        let retract_fut = self.exec.insert(
            format!("retract{id}"),
            sim.retract_check_future(Duration::from_secs(10)),
        );
        // Start the three loops (they park on their empty inputs / first timer tick)
        self.exec.poll(msg_loop);
        self.exec.poll(recv_loop);
        self.exec.poll(retract_fut);

        self.workers.insert(
            id,
            WorkerSim {
                id,
                spec_index: spec,
                phase: WorkerPhase::Up,
                server_connected: true,
                pending_loss: None,
                sim: Some(sim),
                launcher,
                s2w_rx,
                s2w: VecDeque::new(),
                w2s_rx,
                w2s: VecDeque::new(),
                worker_in,
                server_in,
                msg_loop: Some(msg_loop),
                msg_loop_result,
                recv_loop: Some(recv_loop),
                recv_result,
                retract_fut: Some(retract_fut),
                spawned,
                task_futs: BTreeMap::new(),
                start_ms: self.now_ms.get(),
                time_limit_ms: wspec.time_limit.map(|s| s * 1000),
                processed_s2w: 0,
            },
        );
        obs.new_worker = Some(id);
        true
    }

    fn act_to_worker(&mut self, w: u32, obs: &mut StepObs) -> bool {
        let Some(ws) = self.workers.get_mut(&w) else {
            return false;
        };
        if ws.phase != WorkerPhase::Up {
            return false;
        }
        let Some(b) = ws.s2w.pop_front() else {
            return false;
        };
        if let Ok(m) = tako::verif::decode_to_worker_message(&b) {
            obs.worker_processed = Some((w, m));
        }
        ws.processed_s2w += 1;
        ws.worker_in
            .borrow_mut()
            .push_back(Some(Ok(BytesMut::from(&b[..]))));
        let f = ws.msg_loop.unwrap();
        let r = self.exec.poll(f);
        if r == PollResult::Done {
            // The loop ended: `Stop` from the server (Ok) or an undecodable message (Err)
            let ws = self.workers.get_mut(&w).unwrap();
            ws.msg_loop = None;
            // MIRROR: run_worker `Ok(None)` path: graceful shutdown requested by the server;
            // nothing more is sent, running tasks are cancelled, then the process exits.
            let sim = ws.sim.as_ref().unwrap();
            sim.drop_sender();
            sim.cancel_all_on_end();
            ws.phase = WorkerPhase::Stopping;
            ws.s2w.clear();
            obs.note = Some(format!("worker {w} message loop ended"));
        }
        true
    }

    fn act_to_server(&mut self, w: u32, obs: &mut StepObs) -> bool {
        let Some(ws) = self.workers.get_mut(&w) else {
            return false;
        };
        if !ws.server_connected {
            return false;
        }
        let Some(b) = ws.w2s.pop_front() else {
            return false;
        };
        if let Ok(m) = tako::verif::decode_from_worker_message(&b) {
            obs.server_processed = Some((w, m));
        }
        ws.server_in
            .borrow_mut()
            .push_back(Some(Ok(BytesMut::from(&b[..]))));
        let f = ws.recv_loop.unwrap();
        let r = self.exec.poll(f);
        if r == PollResult::Done {
            self.finish_recv_loop(w, obs);
        }
        true
    }

    /// MIRROR: `worker_rpc_loop` after its `select!`: map the result of the receive loop to a
    /// reason and remove the worker.
    fn finish_recv_loop(&mut self, w: u32, obs: &mut StepObs) {
        let ws = self.workers.get_mut(&w).unwrap();
        ws.recv_loop = None;
        let result = ws.recv_result.borrow_mut().take();
        let reason = match result {
            Some(Ok(r)) => SimServer::stop_reason_to_lost_reason(r),
            _ => LostWorkerReason::ConnectionLost,
        };
        self.remove_worker_on_server(w, reason, obs);
    }

    fn remove_worker_on_server(&mut self, w: u32, reason: LostWorkerReason, obs: &mut StepObs) {
        let step = self.step.get();
        let ws = self.workers.get_mut(&w).unwrap();
        ws.server_connected = false;
        ws.w2s.clear();
        ws.s2w.clear();
        if ws.sim.is_some() {
            // the process of a stopping worker is gone by the time the server has seen EOF
            Self::worker_process_gone(ws, &mut self.exec, &self.launches, step);
        }
        ws.phase = WorkerPhase::Dead;
        let inc = self.inc.as_ref().unwrap();
        // what the reactor gets: the stop reason override is inside `remove_worker`
        let effective = inc
            .server
            .snapshot()
            .workers
            .iter()
            .find(|x| x.id.as_num() == w)
            .and_then(|x| x.stop_reason)
            .unwrap_or(reason);
        obs.worker_removed = Some((w, effective));
        inc.server.remove_worker(WorkerId::new(w), reason);
    }

    fn sel(sel: &SelSpec) -> IdSelector {
        match sel {
            SelSpec::All => IdSelector::All,
            SelSpec::LastN(n) => IdSelector::LastN(*n),
            SelSpec::Ids(ids) => {
                let mut v = ids.clone();
                v.sort();
                v.dedup();
                IdSelector::Specific(IntArray::from_sorted_ids(v.into_iter()))
            }
        }
    }

    pub fn op_to_message(op: &ClientOp) -> Option<FromClientMessage> {
        Some(match op {
            ClientOp::Submit {
                name,
                max_fails,
                job,
                spec,
                wait,
            } => FromClientMessage::Submit(
                to_submit_request(name, *max_fails, *job, spec),
                if *wait {
                    // exactly what `hq submit --wait` sends
                    Some(StreamEvents {
                        mode: StreamEventsMode::LiveEvents,
                        enable_worker_overviews: false,
                        filter: EventFilter::new(None, EventFilterFlags::JOB_EVENTS),
                    })
                } else {
                    None
                },
            ),
            ClientOp::Open { name, max_fails } => {
                FromClientMessage::OpenJob(hyperqueue::transfer::messages::JobDescription {
                    name: name.clone(),
                    max_fails: *max_fails,
                })
            }
            ClientOp::Close(s) => FromClientMessage::CloseJob(CloseJobRequest {
                selector: Self::sel(s),
            }),
            ClientOp::Cancel(s) => FromClientMessage::Cancel(CancelRequest {
                selector: Self::sel(s),
                reason: Some("sim".to_string()),
            }),
            ClientOp::Forget(s) => FromClientMessage::ForgetJob(ForgetJobRequest {
                selector: Self::sel(s),
                filter: vec![
                    hyperqueue::client::status::Status::Finished,
                    hyperqueue::client::status::Status::Failed,
                    hyperqueue::client::status::Status::Aborted,
                    hyperqueue::client::status::Status::Canceled,
                ],
            }),
            ClientOp::JobInfo(s) => FromClientMessage::JobInfo(
                JobInfoRequest {
                    selector: Self::sel(s),
                    include_running_tasks: true,
                },
                None,
            ),
            ClientOp::JobDetail(s) => FromClientMessage::JobDetail(JobDetailRequest {
                job_id_selector: Self::sel(s),
                task_selector: Some(TaskSelector {
                    id_selector: TaskIdSelector::All,
                    status_selector: TaskStatusSelector::All,
                }),
            }),
            ClientOp::StopWorker(s) => FromClientMessage::StopWorker(StopWorkerMessage {
                selector: Self::sel(s),
            }),
            ClientOp::WorkerInfo(s) => FromClientMessage::WorkerInfo(WorkerInfoRequest {
                selector: Self::sel(s),
                runtime_info: true,
            }),
            ClientOp::WorkerList => FromClientMessage::GetList { workers: true },
            ClientOp::Explain { job, task } => FromClientMessage::TaskExplain(TaskExplainRequest {
                job_selector: SingleIdSelector::Specific(*job),
                task_id: JobTaskId::new(*task),
            }),
            ClientOp::Prune => FromClientMessage::PruneJournal,
            ClientOp::Flush => FromClientMessage::FlushJournal,
            ClientOp::ServerInfo => FromClientMessage::ServerInfo,
            ClientOp::Disconnect => return None,
        })
    }

    fn act_client_send(&mut self, c: u32, op: &ClientOp, _obs: &mut StepObs) -> bool {
        let step = self.step.get();
        let Some(cl) = self.clients.get_mut(&c) else {
            return false;
        };
        if cl.closed || cl.outstanding.is_some() {
            return false;
        }
        let Some(fut) = cl.fut else { return false };
        match Self::op_to_message(op) {
            None => {
                // Disconnect: only when no event is waiting to be forwarded (select! hazard)
                if self.exec.is_woken(fut) {
                    return false;
                }
                cl.input.borrow_mut().push_back(None);
                cl.closed = true;
                cl.closed_by_client = true;
            }
            Some(msg) => {
                if cl.streaming {
                    return false;
                }
                cl.input.borrow_mut().push_back(Some(Ok(msg)));
                cl.outstanding = Some(op.clone());
                cl.outstanding_since = step;
            }
        }
        self.poll_client(c);
        true
    }

    fn poll_client(&mut self, c: u32) {
        let cl = self.clients.get_mut(&c).unwrap();
        let Some(fut) = cl.fut else { return };
        let is_forget = matches!(cl.outstanding, Some(ClientOp::Forget(_)));
        let mut r = self.exec.poll(fut);
        let answered = !self.clients[&c].output.borrow().is_empty();
        if is_forget && r == PollResult::Pending && !answered {
            // `ForgetJob` drops the jobs on the blocking pool; the completion arrives from
            // another thread. Wait for it here so that the order stays a simulator decision.
            let start = std::time::Instant::now();
            while !self.exec.is_woken(fut) && start.elapsed() < Duration::from_secs(5) {
                std::thread::yield_now();
            }
            if self.exec.is_woken(fut) {
                r = self.exec.poll(fut);
            }
        }
        if r == PollResult::Done {
            let cl = self.clients.get_mut(&c).unwrap();
            cl.fut = None;
            cl.closed = true;
        }
    }

    /// Called by the driver after it has looked at the responses of a step.
    pub fn client_answered(&mut self, c: u32, became_streaming: bool) {
        if let Some(cl) = self.clients.get_mut(&c) {
            cl.outstanding = None;
            if became_streaming {
                cl.streaming = true;
            }
        }
    }

    /// Replace a closed client connection by a fresh one (same client number)
    pub fn reconnect_client(&mut self, c: u32) {
        if self.inc.is_none() {
            return;
        }
        if let Some(cl) = self.clients.get(&c)
            && let Some(f) = cl.fut
        {
            self.exec.remove(f);
        }
        let handle = self.rt.handle().clone();
        let _g = handle.enter();
        self.new_client(c);
    }

    fn act_journal_step(&mut self, _obs: &mut StepObs) -> bool {
        let Some(inc) = &mut self.inc else {
            return false;
        };
        let Some(j) = &mut inc.journal else {
            return false;
        };
        let Some(fut) = j.fut else { return false };
        let Some(m) = j.pending.pop_front() else {
            return false;
        };
        let syncs = !matches!(&m, EventStreamMessage::Event(_));
        let prune = matches!(&m, EventStreamMessage::PruneJournal { .. });
        if let EventStreamMessage::Event(e) = &m {
            j.shadow_store(e);
        }
        if let EventStreamMessage::PruneJournal {
            live_jobs,
            live_workers,
            ..
        } = &m
        {
            *self.last_prune_live.borrow_mut() = Some((live_jobs.clone(), live_workers.clone()));
        }
        if prune {
            // the journal as the server knows it at this moment (the real file lags behind by
            // the writer's buffer; the prune has to write that out first)
            let _ = std::fs::copy(&j.shadow_path, self.scratch.join("journal.before_prune"));
            _obs.journal_pruned = true;
        }
        let _ = j.tx.send(m);
        let r = self.exec.poll(fut);
        j.steps += 1;
        if syncs {
            j.synced_len = std::fs::metadata(&j.path).map(|m| m.len()).unwrap_or(0);
        }
        if prune {
            // from now on the pruned file is what the server knows
            j.reset_shadow();
        }
        if r == PollResult::Done {
            j.fut = None;
        }
        true
    }

    /// Graceful stop of the journal: everything handed to the journal thread is written and
    /// synced. Returns the bytes of the file.
    pub fn flush_journal_now(&mut self) -> Option<Vec<u8>> {
        let handle = self.rt.handle().clone();
        let _g = handle.enter();
        let inc = self.inc.as_mut()?;
        let j = inc.journal.as_mut()?;
        let fut = j.fut?;
        while let Ok(m) = j.rx.try_recv() {
            j.pending.push_back(m);
        }
        let r = catch(|| {
            while let Some(m) = j.pending.pop_front() {
                let prune = matches!(&m, EventStreamMessage::PruneJournal { .. });
                if let EventStreamMessage::Event(e) = &m {
                    j.shadow_store(e);
                }
                let _ = j.tx.send(m);
                self.exec.poll(fut);
                if prune {
                    j.reset_shadow();
                }
            }
            let (ftx, _frx) = oneshot::channel();
            let _ = j.tx.send(EventStreamMessage::FlushJournal(ftx));
            self.exec.poll(fut);
        });
        if r.is_err() {
            return None;
        }
        std::fs::read(&j.path).ok()
    }

    /// The server process dies. The journal file keeps `keep_bytes` bytes (None: everything that
    /// reached the OS, i.e. the current file length; the BufWriter tail is always lost). All
    /// workers lose their server. A new server is started from the journal.
    fn act_crash_server(
        &mut self,
        keep_bytes: Option<u64>,
        obs: &mut StepObs,
    ) -> Result<bool, PanicInfo> {
        if !self.cfg.journal || self.inc.is_none() {
            return Ok(false);
        }
        let step = self.step.get();
        let os_len = self.journal_file_len();
        // Drop every future of the old incarnation. Dropping the journal task drops the
        // JournalWriter whose BufWriter flushes on drop, so the file is cut back afterwards.
        for ws in self.workers.values_mut() {
            if ws.sim.is_some() {
                Self::worker_process_gone(ws, &mut self.exec, &self.launches, step);
            }
            ws.phase = WorkerPhase::Dead;
            ws.server_connected = false;
            ws.w2s.clear();
            ws.s2w.clear();
            if let Some(f) = ws.recv_loop.take() {
                self.exec.remove(f);
            }
        }
        self.exec.clear();
        self.clients.clear();
        let inc = self.inc.take().unwrap();
        drop(inc);
        // everything the server had produced (including the BufWriter tail that a real crash
        // loses): the longest version of the journal, used only to locate record boundaries
        let _ = std::fs::copy(&self.journal_path, self.scratch.join("journal.full"));
        // A crash while the writer's buffer is being written out (or after the buffer spilled)
        // leaves a prefix of the tail: `keep_bytes` may point beyond what had reached the file.
        let full_len = self.journal_file_len();
        let keep = keep_bytes.unwrap_or(os_len).min(full_len);
        {
            let f = std::fs::OpenOptions::new()
                .write(true)
                .open(&self.journal_path)
                .expect("journal file");
            f.set_len(keep).unwrap();
        }
        obs.note = Some(format!("crash: os_len={os_len} full_len={full_len} keep={keep}"));
        let _ = std::fs::copy(&self.journal_path, self.cut_journal_path());
        // MIRROR: bootstrap::start_server
        let restore = match catch(|| RestoreProbe::load(&self.journal_path)) {
            Err(p) => {
                self.last_restore = None;
                return Err(p);
            }
            Ok(Err(e)) => {
                self.last_restore = Some(RestoreInfo {
                    job_id_counter: 0,
                    worker_id_counter: 0,
                    queue_id_counter: 0,
                    truncate_size: None,
                    server_uid: String::new(),
                    file_len: keep,
                    submitted: Vec::new(),
                    queues: Vec::new(),
                    queue_resources: Vec::new(),
                    error: Some(format!("load failed: {e:?}")),
                });
                return Ok(true);
            }
            Ok(Ok(r)) => r,
        };
        self.start_incarnation(Some(restore))?;
        Ok(true)
    }
}

impl Drop for World {
    fn drop(&mut self) {
        // futures hold Rc references into each other; drop them inside the runtime context
        let handle = self.rt.handle().clone();
        let _g = handle.enter();
        self.exec.clear();
        self.clients.clear();
        self.workers.clear();
        self.inc = None;
        let _ = std::fs::remove_dir_all(&self.scratch);
    }
}
