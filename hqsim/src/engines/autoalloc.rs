//! Engine `autoalloc` (C17, C18): the real autoalloc state machine (`AutoAllocState`,
//! `handle_message`, `perform_submits`, `do_periodic_update`, rate limiter) and the real tako
//! worker query against a simulated batch system, simulated workers and a simulated clock.
//! See /verif/DESIGN.md section 10.

mod genr;
mod oracle;
mod spec;
mod world;

use std::collections::{BTreeMap, BTreeSet};
use std::hash::{Hash, Hasher};
use std::path::Path;
use std::process::Command;
use std::time::Instant;

use serde::{Deserialize, Serialize};

use crate::batch::{CheckArgs, load_known_findings, signature_matches, write_json};
use crate::sim::panic::catch;
use crate::sim::rng::mix;

use genr::{Gen, PROFILES, Profile};
use oracle::{Checker, Finding};
use spec::Step;
use world::World;

/// Property ids this engine decides
pub const PROPERTIES: &[&str] = &["C17", "C18"];

const ENGINE_TAG: u64 = 4;
const QUICK_RUNS: u64 = 30_000;
const THOROUGH_RUNS: u64 = 800_000;
/// every n-th run is executed twice and its log compared
const RECHECK_EVERY: u64 = 50;

fn property_tag(p: &str) -> u64 {
    p.trim_start_matches('C').parse().unwrap_or(0)
}

#[derive(Serialize, Deserialize)]
struct ReplayFile {
    engine: String,
    property: String,
    seed: u64,
    index: u64,
    profile: Profile,
    signature: String,
    message: String,
    steps: Vec<Step>,
}

struct RunOutput {
    steps: Vec<Step>,
    findings: Vec<Finding>,
    harness_error: Option<String>,
    log_hash: u64,
    sim_s: u64,
    states: BTreeSet<u64>,
    probes: BTreeMap<&'static str, u64>,
    faults: BTreeMap<&'static str, u64>,
    submissions: u64,
    lines: Vec<String>,
}

enum Source<'a> {
    Generate(Gen),
    Fixed(&'a [Step]),
}

fn hash_of<T: Hash>(v: &T) -> u64 {
    let mut h = std::collections::hash_map::DefaultHasher::new();
    v.hash(&mut h);
    h.finish()
}

/// Executes one run. `property`: findings of other properties are dropped.
fn run(mut source: Source, property: &str, verbose: bool) -> RunOutput {
    let mut out = RunOutput {
        steps: Vec::new(),
        findings: Vec::new(),
        harness_error: None,
        log_hash: 0,
        sim_s: 0,
        states: BTreeSet::new(),
        probes: BTreeMap::new(),
        faults: BTreeMap::new(),
        submissions: 0,
        lines: Vec::new(),
    };
    let mut world = match catch(World::new) {
        Ok(w) => w,
        Err(p) => {
            out.harness_error = Some(format!("world creation panicked: {p:?}"));
            return out;
        }
    };
    let mut checker = Checker::new();
    let mut idx = 0usize;
    let mut log = std::collections::hash_map::DefaultHasher::new();
    loop {
        let step = match &mut source {
            Source::Generate(g) => {
                if idx >= g.steps_planned {
                    break;
                }
                match catch(|| g.next(&world)) {
                    Ok(s) => s,
                    Err(p) => {
                        out.harness_error = Some(format!("generator panicked: {p:?}"));
                        break;
                    }
                }
            }
            Source::Fixed(steps) => {
                if idx >= steps.len() {
                    break;
                }
                steps[idx].clone()
            }
        };
        out.steps.push(step.clone());
        let obs = catch(|| world.execute(&step));
        match obs {
            Ok(obs) => {
                let line = format!(
                    "{idx:4} t={:>6}s {:?} -> {:?} calls={:?} events={:?}",
                    obs.now_s, step, obs.resp, obs.calls, obs.events
                );
                line.hash(&mut log);
                format!("{:?}", obs.after).hash(&mut log);
                if verbose {
                    out.lines.push(line);
                    out.lines.push(format!("       state: {:?}", obs.after));
                }
                out.submissions += obs
                    .calls
                    .iter()
                    .filter(|c| matches!(c, world::Call::Submit { .. }))
                    .count() as u64;
                let n_before = checker.findings.len();
                match catch(|| checker.after_step(idx, &step, &obs)) {
                    Ok(()) => {}
                    Err(p) => {
                        out.harness_error = Some(format!("oracle panicked: {p:?}"));
                        break;
                    }
                }
                if verbose {
                    for f in &checker.findings[n_before..] {
                        out.lines.push(format!(
                            "       FINDING {} {}: {}",
                            f.property,
                            f.signature(),
                            f.message
                        ));
                    }
                }
                // abstract state: per queue (paused, allocations per rank, limiter level)
                let abs: Vec<(bool, [usize; 4], usize, u64, u64)> = obs
                    .after
                    .queues
                    .iter()
                    .map(|q| {
                        let mut ranks = [0usize; 4];
                        for a in &q.allocs {
                            ranks[a.rank as usize] += 1;
                        }
                        (q.paused, ranks, q.limiter.0, q.limiter.2.min(3), q.limiter.3.min(10))
                    })
                    .collect();
                out.states.insert(hash_of(&abs));
                out.sim_s = obs.now_s;
            }
            Err(p) => {
                if p.in_harness() {
                    out.harness_error = Some(format!("harness panicked at step {idx} ({step:?}): {p:?}"));
                } else {
                    checker.panic(idx, property, &p.location(), &p.message);
                    if verbose {
                        out.lines.push(format!("{idx:4} {step:?} -> PANIC {p:?}"));
                    }
                }
                break;
            }
        }
        idx += 1;
    }
    out.log_hash = log.finish();
    out.findings = checker
        .findings
        .into_iter()
        .filter(|f| f.property == property)
        .collect();
    out.probes = checker.probes;
    out.faults = checker.faults;
    out
}

fn run_seed_of(verif_seed: u64, property: &str, index: u64) -> u64 {
    mix(&[verif_seed, ENGINE_TAG, property_tag(property), index])
}

fn profile_of(index: u64) -> Profile {
    PROFILES[(index % PROFILES.len() as u64) as usize]
}

fn fires(steps: &[Step], property: &str, signature: &str) -> bool {
    let out = run(Source::Fixed(steps), property, false);
    out.findings.iter().any(|f| f.signature() == signature)
}

/// Prefix cut + ddmin-style chunk removal while the same signature fires
fn shrink(steps: Vec<Step>, property: &str, signature: &str, fired_at: usize) -> Vec<Step> {
    let mut cur: Vec<Step> = steps.into_iter().take(fired_at + 1).collect();
    if !fires(&cur, property, signature) {
        return cur;
    }
    let mut chunk = (cur.len() / 2).max(1);
    let deadline = Instant::now() + std::time::Duration::from_secs(120);
    while chunk >= 1 && Instant::now() < deadline {
        let mut i = 0;
        let mut removed_any = false;
        while i < cur.len() && Instant::now() < deadline {
            let end = (i + chunk).min(cur.len());
            let mut cand = cur.clone();
            cand.drain(i..end);
            if !cand.is_empty() && fires(&cand, property, signature) {
                cur = cand;
                removed_any = true;
            } else {
                i = end;
            }
        }
        if chunk == 1 && !removed_any {
            break;
        }
        if !removed_any || chunk > 1 {
            chunk = if chunk == 1 { 1 } else { chunk / 2 };
        }
    }
    // simplify arguments: task counts and advance amounts
    for i in 0..cur.len() {
        if let Step::Tasks { job, count, rq } = &cur[i]
            && *count > 1
        {
            let mut cand = cur.clone();
            cand[i] = Step::Tasks {
                job: *job,
                count: 1,
                rq: rq.clone(),
            };
            if fires(&cand, property, signature) {
                cur = cand;
            }
        }
    }
    cur
}

struct ThreadOut {
    /// (index, signature, message, step)
    findings: Vec<(u64, String, String, usize)>,
    harness_errors: Vec<(u64, String)>,
    runs: u64,
    steps: u64,
    sim_s: u64,
    submissions: u64,
    nontrivial: u64,
    states: BTreeSet<u64>,
    logs: BTreeSet<u64>,
    run_hashes: Vec<(u64, u64)>,
    probes: BTreeMap<&'static str, u64>,
    faults: BTreeMap<&'static str, u64>,
    per_profile: BTreeMap<String, u64>,
    rechecks: u64,
    step_kinds: BTreeMap<&'static str, u64>,
    samples: Vec<serde_json::Value>,
}

pub fn check(args: &CheckArgs) -> i32 {
    crate::sim::panic::install_hook();
    let property = args.property.as_str();
    if let Ok(v) = std::env::var("HQSIM_AUTOALLOC_ONE")
        && let Ok(index) = v.parse::<u64>()
    {
        debug_one(property, index, args.seed);
        return 0;
    }
    let started = Instant::now();
    let runs = args.runs_override.unwrap_or(if args.tier == "thorough" {
        THOROUGH_RUNS
    } else {
        QUICK_RUNS
    });
    let jobs = args.jobs.max(1);
    let verif_seed = args.seed;

    let outs: Vec<ThreadOut> = std::thread::scope(|scope| {
        let handles: Vec<_> = (0..jobs)
            .map(|t| {
                scope.spawn(move || {
                    let mut o = ThreadOut {
                        findings: Vec::new(),
                        harness_errors: Vec::new(),
                        runs: 0,
                        steps: 0,
                        sim_s: 0,
                        submissions: 0,
                        nontrivial: 0,
                        states: BTreeSet::new(),
                        logs: BTreeSet::new(),
                        run_hashes: Vec::new(),
                        probes: BTreeMap::new(),
                        faults: BTreeMap::new(),
                        per_profile: BTreeMap::new(),
                        rechecks: 0,
                        step_kinds: BTreeMap::new(),
                        samples: Vec::new(),
                    };
                    let mut index = t;
                    while index < runs {
                        let seed = run_seed_of(verif_seed, property, index);
                        let profile = profile_of(index);
                        let out = run(Source::Generate(Gen::new(seed, profile)), property, false);
                        o.runs += 1;
                        o.run_hashes.push((index, out.log_hash));
                        o.steps += out.steps.len() as u64;
                        o.sim_s += out.sim_s;
                        o.submissions += out.submissions;
                        if out.submissions > 0 {
                            o.nontrivial += 1;
                            o.logs.insert(out.log_hash);
                        }
                        *o.per_profile.entry(format!("{profile:?}")).or_insert(0) += 1;
                        for s in &out.steps {
                            *o.step_kinds.entry(s.kind()).or_insert(0) += 1;
                        }
                        for (k, v) in &out.probes {
                            *o.probes.entry(k).or_insert(0) += v;
                        }
                        for (k, v) in &out.faults {
                            *o.faults.entry(k).or_insert(0) += v;
                        }
                        o.states.extend(out.states.iter().copied());
                        if index < 3 {
                            o.samples.push(serde_json::json!({
                                "index": index, "seed": seed, "profile": format!("{profile:?}"),
                                "first_steps": out.steps.iter().take(8).collect::<Vec<_>>(),
                                "steps": out.steps.len(), "submissions": out.submissions,
                            }));
                        }
                        if let Some(e) = &out.harness_error {
                            o.harness_errors.push((index, e.clone()));
                        }
                        for f in &out.findings {
                            o.findings
                                .push((index, f.signature(), f.message.clone(), f.step));
                        }
                        if index % RECHECK_EVERY == 0 {
                            let again =
                                run(Source::Generate(Gen::new(seed, profile)), property, false);
                            o.rechecks += 1;
                            if again.log_hash != out.log_hash || again.steps != out.steps {
                                o.harness_errors.push((
                                    index,
                                    "determinism: two executions of the same seed differ".into(),
                                ));
                            }
                        }
                        index += jobs;
                    }
                    o
                })
            })
            .collect();
        handles.into_iter().map(|h| h.join().expect("thread")).collect()
    });

    // merge (independent of the number of jobs)
    let mut findings: Vec<(u64, String, String, usize)> = Vec::new();
    let mut harness_errors: Vec<(u64, String)> = Vec::new();
    let mut total_runs = 0;
    let mut steps = 0;
    let mut sim_s = 0;
    let mut submissions = 0;
    let mut nontrivial = 0;
    let mut states: BTreeSet<u64> = BTreeSet::new();
    let mut logs: BTreeSet<u64> = BTreeSet::new();
    let mut probes: BTreeMap<&'static str, u64> = BTreeMap::new();
    let mut faults: BTreeMap<&'static str, u64> = BTreeMap::new();
    let mut per_profile: BTreeMap<String, u64> = BTreeMap::new();
    let mut step_kinds: BTreeMap<&'static str, u64> = BTreeMap::new();
    let mut rechecks = 0;
    let mut samples: Vec<serde_json::Value> = Vec::new();
    let mut run_hashes: Vec<(u64, u64)> = Vec::new();
    for o in outs {
        run_hashes.extend(o.run_hashes.iter().copied());
        findings.extend(o.findings);
        harness_errors.extend(o.harness_errors);
        total_runs += o.runs;
        steps += o.steps;
        sim_s += o.sim_s;
        submissions += o.submissions;
        nontrivial += o.nontrivial;
        states.extend(o.states);
        logs.extend(o.logs);
        rechecks += o.rechecks;
        samples.extend(o.samples);
        for (k, v) in o.probes {
            *probes.entry(k).or_insert(0) += v;
        }
        for (k, v) in o.faults {
            *faults.entry(k).or_insert(0) += v;
        }
        for (k, v) in o.per_profile {
            *per_profile.entry(k).or_insert(0) += v;
        }
        for (k, v) in o.step_kinds {
            *step_kinds.entry(k).or_insert(0) += v;
        }
    }
    findings.sort();
    harness_errors.sort();
    run_hashes.sort();
    let log_digest = mix(&run_hashes.iter().map(|(_, h)| *h).collect::<Vec<u64>>());
    samples.sort_by_key(|s| s["index"].as_u64());

    // group by signature: first run (lowest index) of each
    let mut by_sig: BTreeMap<String, (u64, String, usize, u64)> = BTreeMap::new();
    for (index, sig, msg, step) in &findings {
        let e = by_sig
            .entry(sig.clone())
            .or_insert((*index, msg.clone(), *step, 0));
        e.3 += 1;
    }
    let known = load_known_findings(&args.verif_dir.join("known_findings.txt"));
    let mut violations = 0;
    let mut known_hit: Vec<String> = Vec::new();
    let mut replay_failures = 0;
    for (sig, (index, msg, step, count)) in &by_sig {
        if let Some(k) = known
            .iter()
            .find(|k| k.property == property && signature_matches(&k.signature, sig))
        {
            println!(
                "KNOWN-FINDING: property={property} signature={sig} {} ({count} runs, e.g. index {index})",
                k.text
            );
            known_hit.push(sig.clone());
            continue;
        }
        violations += 1;
        // regenerate, minimise, write the replay file, replay in a fresh process
        let seed = run_seed_of(verif_seed, property, *index);
        let profile = profile_of(*index);
        let full = run(Source::Generate(Gen::new(seed, profile)), property, false);
        let small = shrink(full.steps.clone(), property, sig, *step);
        let file = ReplayFile {
            engine: "autoalloc".into(),
            property: property.into(),
            seed,
            index: *index,
            profile,
            signature: format!("{property} {sig}"),
            message: msg.clone(),
            steps: small,
        };
        let name = format!(
            "{property}-{seed}-{}.json",
            sig.replace(['@', '/', ':', ' '], "_")
        );
        let path = args.verif_dir.join("replays").join(name);
        write_json(&path, &serde_json::to_value(&file).unwrap());
        let status = std::env::current_exe()
            .ok()
            .and_then(|exe| Command::new(exe).arg("replay").arg(&path).output().ok());
        let reproduced = status
            .as_ref()
            .map(|o| o.status.code() == Some(1))
            .unwrap_or(false);
        if !reproduced {
            replay_failures += 1;
            eprintln!(
                "HARNESS: replay of {} in a fresh process did not reproduce the violation",
                path.display()
            );
        }
        println!(
            "finding {property} {sig} ({count} runs, first index {index}, {} steps after minimisation): {}",
            file.steps.len(),
            msg.lines().next().unwrap_or("")
        );
        println!("VIOLATION property={property} replay={}", path.display());
    }
    for (index, e) in harness_errors.iter().take(10) {
        eprintln!("HARNESS ERROR run {index}: {e}");
    }

    let wall = started.elapsed().as_secs_f64();
    let evidence = serde_json::json!({
        "property_id": property,
        "tier": args.tier,
        "seed": verif_seed,
        "level": "exploration",
        "coverage": {
            "evaluations": total_runs,
            "distinct_nontrivial": logs.len(),
            "rule": "one evaluation = one seeded history of 15-140 steps (queue creation, task submits / cancels that change the demand in a real tako core, scheduling ticks, periodic refreshes, clock advances around the back-off delays, submission outcomes, batch-system state changes and truthful / failing / missing / contradictory status reports, worker connects and losses from known and unknown allocations in adversarial orders, pause / resume / remove) drawn from one PRNG seeded with mix(VERIF_SEED, engine, property, index); six swarm profiles; non-trivial = at least one allocation submission was attempted; distinct = distinct hash of the full step/observation log",
            "samples": samples,
            "runs_per_hour": (total_runs as f64 / wall * 3600.0) as u64,
            "simulated_time_s": sim_s,
            "steps": steps,
            "submission_attempts": submissions,
            "nontrivial_runs": nontrivial,
            "faults_injected": faults,
            "probes": probes,
            "step_kinds": step_kinds,
            "runs_per_profile": per_profile,
            "distinct_states": states.len(),
            "distinct_states_measure": "per queue (paused, number of allocations per lifecycle rank, back-off level, capped failure counters), hashed over all queues",
            "determinism_rechecks": rechecks,
            "log_digest": format!("{log_digest:016x}"),
            "components": {
                "real": [
                    "hyperqueue::server::autoalloc::state (AutoAllocState, AllocationQueue, Allocation, RateLimiter)",
                    "hyperqueue::server::autoalloc::process::{handle_message, perform_submits, compute_submission_permit, queue_try_submit, do_periodic_update, refresh_queue_allocations, sync_allocation_status, increase_status_error_counter, try_pause_queue, create_queue, remove_queue, prepare_queue_cleanup}",
                    "tako ServerRef::new_worker_query / compute_new_worker_query with the real scheduler and HiGHS on a real Core fed with real task submissions",
                    "EventStreamer (allocation events observed through a registered listener)"
                ],
                "stub": [
                    "the select! loop of autoalloc_process: the simulator decides the order of ticks, refreshes and messages and mirrors the two has_active_queues guards (SimAutoAlloc::scheduling_tick / periodic_update)",
                    "PBS/Slurm QueueHandler: simulated batch system (submission outcomes, status reports, cancellation)",
                    "workers: connect / loss notifications are injected directly as AutoAllocMessage (the server's worker bookkeeping is not in the loop); core workers are registered in tako without a running worker process",
                    "clock: tokio paused clock behind now_monotonic and the worker query",
                    "allocation directories on disk (non-existent paths)"
                ]
            },
            "known_findings_hit": known_hit,
        },
        "assumptions": [
            "allocation ids handed out by the batch system are unique",
            "HQ_AUTOALLOC_MAX_ALLOCATION_FAILS is unset (documented default 3)",
            "the demand clause fires only if no waiting (ready or prefilled) task fits the queue's known / CLI worker shape at all; the liveness clause is evaluated only where demand is decidable without the scheduler (one active queue, no workers in the core, nothing queued, min-utilization 0)",
            "AbsoluteTime (wall clock) values are display-only and not compared"
        ],
        "wall_s": wall,
        "violations": violations,
        "harness_errors": harness_errors.len() + replay_failures,
    });
    write_json(
        &args.verif_dir.join("evidence").join(format!("{property}.json")),
        &evidence,
    );
    println!(
        "{property}: {total_runs} runs ({nontrivial} non-trivial, {} distinct), {steps} steps, {sim_s} simulated s, {submissions} submission attempts, {} abstract states, log digest {log_digest:016x}, {:.1}s wall; violations={violations} known={} harness_errors={}",
        logs.len(),
        states.len(),
        wall,
        known_hit.len(),
        harness_errors.len() + replay_failures
    );
    if !harness_errors.is_empty() || replay_failures > 0 {
        2
    } else if violations > 0 {
        1
    } else {
        0
    }
}

/// Replays a replay file written by this engine; exit code as for `check`.
pub fn replay(path: &Path, verbose: bool) -> i32 {
    crate::sim::panic::install_hook();
    let file: ReplayFile = match std::fs::read_to_string(path)
        .map_err(|e| e.to_string())
        .and_then(|s| serde_json::from_str(&s).map_err(|e| e.to_string()))
    {
        Ok(f) => f,
        Err(e) => {
            eprintln!("cannot read replay file {}: {e}", path.display());
            return 2;
        }
    };
    let out = run(Source::Fixed(&file.steps), &file.property, verbose);
    for l in &out.lines {
        println!("{l}");
    }
    if let Some(e) = &out.harness_error {
        eprintln!("HARNESS ERROR: {e}");
        return 2;
    }
    let wanted = file
        .signature
        .strip_prefix(&format!("{} ", file.property))
        .unwrap_or(&file.signature)
        .to_string();
    for f in &out.findings {
        println!(
            "finding {} {} at step {}: {}",
            f.property,
            f.signature(),
            f.step,
            f.message
        );
    }
    println!("log hash {:016x}", out.log_hash);
    if out.findings.iter().any(|f| f.signature() == wanted) {
        println!(
            "VIOLATION property={} replay={}",
            file.property,
            path.display()
        );
        1
    } else {
        println!("the recorded violation ({}) does not fire", file.signature);
        0
    }
}

/// `hqsim` debugging aid: run one index verbosely (HQSIM_AUTOALLOC_ONE=<property>:<index>)
pub fn debug_one(property: &str, index: u64, verif_seed: u64) {
    crate::sim::panic::install_hook();
    let seed = run_seed_of(verif_seed, property, index);
    let out = run(
        Source::Generate(Gen::new(seed, profile_of(index))),
        property,
        true,
    );
    for l in &out.lines {
        println!("{l}");
    }
    println!("harness_error={:?}", out.harness_error);
    let again = run(
        Source::Generate(Gen::new(seed, profile_of(index))),
        property,
        true,
    );
    for (a, b) in out.lines.iter().zip(again.lines.iter()) {
        if a != b {
            println!("DIFF first : {a}\nDIFF second: {b}");
            break;
        }
    }
    println!("same log: {}", out.log_hash == again.log_hash);
}
