#!/bin/bash
# Private build of the harness that ignores engine files other people are editing
# (auth/stream/alloc are replaced by stubs). Binary: /verif/target-dev/sim/hqsim
set -e
D=/verif/.dev/hqsim
rm -rf $D; mkdir -p $D/src/engines $D/src/sim
ln -s /verif/hqsim/Cargo.toml /verif/hqsim/Cargo.lock /verif/hqsim/.cargo $D/
for f in /verif/hqsim/src/*.rs; do ln -s $f $D/src/; done
for f in /verif/hqsim/src/sim/*.rs; do ln -s $f $D/src/sim/; done
for f in cluster.rs autoalloc.rs mod.rs; do ln -s /verif/hqsim/src/engines/$f $D/src/engines/; done
for e in auth stream alloc; do
cat > $D/src/engines/$e.rs <<EOS
use crate::batch::CheckArgs;
use std::path::Path;
pub const PROPERTIES: &[&str] = &[];
pub fn check(_args: &CheckArgs) -> i32 { 2 }
pub fn replay(_path: &Path, _verbose: bool) -> i32 { 2 }
EOS
done
cd $D && CARGO_NET_OFFLINE=true CARGO_TARGET_DIR=/verif/target-dev cargo build --profile sim --offline 2>&1 | grep -E "^error" -A 14 | head -60
